/-
# C01 (composition) — the log stream of a turn is a function of (state, input, config, now)

`Clem/Model/ComposeLog.lean` builds every record `run_turn` hands to `append_jsonl` from the composed turn
(`rawRecordsF`: file name + payload as a function of the MEASURED clock values) and applies
`normalize_for_identity`.  The harness compares `emitted` line by line — emission order, key order, value kinds,
floats by bits — with the files the real turn wrote.

* WHICH files are written, and in which order, never depends on the clock (`C01_compose_log_files_clock_free`).
* Under CI the five identity streams (t1, t2, t4, apply, turn) do not depend on the measured values at all — for one
  turn (`C01_compose_log_identity_clock_free`) and for whole histories (`C01_compose_log_history_clock_free`): the
  identity logs are a function of (world, config, printed constants, state, turn inputs, oracles) alone.
* Without CI nothing is normalised (`C01_compose_log_noci`).
* The turn record's rollup restates the stage records of the same turn; the apply record prints the version the next
  state carries (`C01_compose_log_rollup`, `C01_compose_log_apply_version`).
-/
import Clem.Proofs.Compose
import Clem.Model.ComposeLog

set_option linter.unusedSectionVars false
set_option linter.unusedVariables false

namespace Clem.Compose

open Clem.Py.JV

section AnyCarrier
variable {α : Type} [Clem.T1.Num α] [Clem.T2.Num α] [Clem.T3.PyOrd α] [Clem.Py.Num α] [Clem.Py.NumGel α]
variable (w : World α) (c : Cfg α) (env : LogEnv) (s : State α) (t : TurnIn α) (o : Oracles α)
variable (isZero : α → Bool)

/-- which files, in which order: the skeleton's file names, whatever was measured -/
theorem C01_compose_log_files_clock_free (k k' : Clock α) :
    (emitted isZero w c env s t o k).map (·.1) = (emitted isZero w c env s t o k').map (·.1) := by
  unfold emitted rawRecords
  simp [List.map_map, Function.comp_def]

theorem C01_compose_log_noci (k : Clock α) (h : env.ci = false) :
    emitted isZero w c env s t o k = rawRecords w c env s t o k := by
  unfold emitted
  rw [h]
  simp [normalizeForIdentity]

/-! ### payloads: what the normalisation leaves does not mention the clock -/

abbrev kMs : Str := k%"ms"
abbrev kNow : Str := k%"now"
abbrev kDur : Str := k%"durations_ms"

theorem zeroMs_mid (A B : List (Str × J α)) (x : α) :
    zeroMs (A ++ (kMs, .num x) :: B) = zeroMs A ++ (kMs, .num (Clem.Py.Num.zero : α)) :: zeroMs B := by
  simp [zeroMs]

/-- a record of `t1 / t2 / t4 / apply`: everything but the measured `ms` in front of and behind it -/
theorem norm_ms_free (f : Str) (hid : identityLogs.contains f = true) (hturn : (f == fTurn) = false)
    (hrefl : (f == fRefl) = false) (A B : List (Str × J α)) (x y : α) :
    normalizeForIdentity true isZero f (.obj (A ++ (kMs, .num x) :: B)) =
    normalizeForIdentity true isZero f (.obj (A ++ (kMs, .num y) :: B)) := by
  unfold normalizeForIdentity
  simp only [Bool.not_true, Bool.false_eq_true, if_false, hid, hturn, hrefl, if_true]
  rw [zeroMs_mid, zeroMs_mid]

theorem zeroMs_dur (A B : List (Str × J α)) (d : J α) :
    zeroMs (A ++ (kDur, d) :: B) = zeroMs A ++ (kDur, d) :: zeroMs B := by
  simp [zeroMs]

theorem popNow_dur (A B : List (Str × J α)) (d : J α) :
    popKey kNow (A ++ (kDur, d) :: B) = popKey kNow A ++ (kDur, d) :: popKey kNow B := by
  simp [popKey]

theorem zeroDur_mid (A B : List (Str × J α)) (d : List (Str × J α)) :
    zeroDurations (A ++ (kDur, .obj d) :: B) =
      zeroDurations A ++ (kDur, .obj (d.map (fun q => (q.1, .num (Clem.Py.Num.zero : α))))) :: zeroDurations B := by
  simp [zeroDurations]

/-- a turn record: the five durations are zeroed key by key — only their KEYS survive -/
theorem norm_turn_dur_free (A B : List (Str × J α)) (d d' : List (Str × J α)) (hk : d.map (·.1) = d'.map (·.1)) :
    normalizeForIdentity true isZero fTurn (.obj (A ++ (kDur, .obj d) :: B)) =
    normalizeForIdentity true isZero fTurn (.obj (A ++ (kDur, .obj d') :: B)) := by
  have hz : d.map (fun q => (q.1, J.num (Clem.Py.Num.zero : α))) = d'.map (fun q => (q.1, J.num (Clem.Py.Num.zero : α))) := by
    have e : ∀ l : List (Str × J α), l.map (fun q => (q.1, J.num (Clem.Py.Num.zero : α))) =
        (l.map (·.1)).map (fun x => (x, J.num (Clem.Py.Num.zero : α))) := by
      intro l; simp [List.map_map, Function.comp_def]
    rw [e d, e d', hk]
  unfold normalizeForIdentity
  have h1 : (fTurn == fRefl) = false := by decide
  have h2 : identityLogs.contains fTurn = true := by decide
  simp only [Bool.not_true, Bool.false_eq_true, if_false, h1, h2, if_true, beq_self_eq_true]
  rw [zeroMs_dur, zeroMs_dur, popNow_dur, popNow_dur, zeroDur_mid, zeroDur_mid, hz]

theorem t1_norm_free (k k' : Clock α) :
    normalizeForIdentity true isZero fT1 (t1Raw w c env s t k) =
    normalizeForIdentity true isZero fT1 (t1Raw w c env s t k') := by
  unfold t1Raw
  simp only [List.append_assoc, List.cons_append, List.nil_append]
  have := norm_ms_free isZero fT1 (by decide) (by decide) (by decide)
    (headKV w t ++
      [(k%"pops", jn (t1Of w c s t).pops), (k%"iters", .int (t1Of w c s t).iters),
       (k%"propagations", jn (t1Of w c s t).props), (k%"radius_cap_hits", jn (t1Of w c s t).radiusHits),
       (k%"layer_cap_hits", jn (t1Of w c s t).layerHits), (k%"node_budget_hits", jn (t1Of w c s t).nodeHits),
       (k%"max_delta", .num (t1Of w c s t).maxDelta), (k%"graphs_touched", jn w.graphs.length),
       (k%"cache_hits", jn (t1Of w c s t).cacheHits), (k%"cache_misses", jn (t1Of w c s t).cacheMisses),
       (k%"cache_used", .bool (decide ((t1Of w c s t).cacheHits > 0))), (k%"cache_enabled", .bool c.t1.cacheOn)])
    (nowKV env) k.t1 k'.t1
  simpa [List.append_assoc] using this

theorem t2_norm_free (k k' : Clock α) :
    normalizeForIdentity true isZero fT2 (t2Raw w c env s t o k) =
    normalizeForIdentity true isZero fT2 (t2Raw w c env s t o k') := by
  unfold t2Raw normalizeForIdentity
  have h1 : (fT2 == fRefl) = false := by decide
  have h2 : identityLogs.contains fT2 = true := by decide
  have h3 : (fT2 == fTurn) = false := by decide
  simp only [Bool.not_true, Bool.false_eq_true, if_false, h1, h2, h3, if_true]
  simp [zeroMs, popKey, List.map_append, List.filter_append]

theorem t4_norm_free (k k' : Clock α) (r : Clem.T4.Result α) :
    normalizeForIdentity true isZero fT4 (t4Raw w c env t k r) =
    normalizeForIdentity true isZero fT4 (t4Raw w c env t k' r) := by
  unfold t4Raw normalizeForIdentity
  have h1 : (fT4 == fRefl) = false := by decide
  have h2 : identityLogs.contains fT4 = true := by decide
  have h3 : (fT4 == fTurn) = false := by decide
  simp only [Bool.not_true, Bool.false_eq_true, if_false, h1, h2, h3, if_true]
  simp [zeroMs, popKey, List.map_append, List.filter_append]

theorem apply_norm_free (k k' : Clock α) (a : Clem.Apply.Out) :
    normalizeForIdentity true isZero fApply (applyRaw w env t k a) =
    normalizeForIdentity true isZero fApply (applyRaw w env t k' a) := by
  unfold applyRaw normalizeForIdentity
  have h1 : (fApply == fRefl) = false := by decide
  have h2 : identityLogs.contains fApply = true := by decide
  have h3 : (fApply == fTurn) = false := by decide
  simp only [Bool.not_true, Bool.false_eq_true, if_false, h1, h2, h3, if_true]
  simp [zeroMs, popKey, List.map_append, List.filter_append]

theorem turnFinal_norm_free (k k' : Clock α) :
    normalizeForIdentity true isZero fTurn (turnFinalRaw w c env s t o k) =
    normalizeForIdentity true isZero fTurn (turnFinalRaw w c env s t o k') := by
  unfold turnFinalRaw normalizeForIdentity durations
  have h1 : (fTurn == fRefl) = false := by decide
  have h2 : identityLogs.contains fTurn = true := by decide
  simp only [Bool.not_true, Bool.false_eq_true, if_false, h1, h2, if_true, beq_self_eq_true]
  simp [zeroMs, popKey, zeroDurations, List.map_append, List.filter_append]

theorem turnYield_norm_free (k k' : Clock α) (st : Clem.Sched.Stage) (r : Clem.Sched.YReason) :
    normalizeForIdentity true isZero fTurn (turnYieldRaw w c env s t o k st r) =
    normalizeForIdentity true isZero fTurn (turnYieldRaw w c env s t o k' st r) := by
  unfold turnYieldRaw normalizeForIdentity durations
  have h1 : (fTurn == fRefl) = false := by decide
  have h2 : identityLogs.contains fTurn = true := by decide
  simp only [Bool.not_true, Bool.false_eq_true, if_false, h1, h2, if_true, beq_self_eq_true]
  simp [zeroMs, popKey, zeroDurations, List.map_append, List.filter_append]

/-! ### the stream -/

/-- every identity record of the list normalises to the same line for the two clocks -/
def ClockFree (k k' : Clock α) (l : List (RecF α)) : Prop :=
  ∀ p ∈ l, identityLogs.contains p.1 = true →
    normalizeForIdentity true isZero p.1 (p.2 k) = normalizeForIdentity true isZero p.1 (p.2 k')

variable {isZero}

theorem cf_append {k k' : Clock α} {a b : List (RecF α)} (ha : ClockFree isZero k k' a) (hb : ClockFree isZero k k' b) :
    ClockFree isZero k k' (a ++ b) := by
  intro p hp
  rcases List.mem_append.1 hp with h | h
  · exact ha p h
  · exact hb p h

theorem cf_nil {k k' : Clock α} : ClockFree isZero k k' ([] : List (RecF α)) := by intro p hp; cases hp

theorem cf_one {k k' : Clock α} (f : Str) (g : Clock α → J α)
    (h : identityLogs.contains f = true →
      normalizeForIdentity true isZero f (g k) = normalizeForIdentity true isZero f (g k')) :
    ClockFree isZero k k' [(f, g)] := by
  intro p hp hid
  simp only [List.mem_singleton] at hp
  subst hp
  exact h hid

theorem cf_cons {k k' : Clock α} (f : Str) (g : Clock α → J α) (l : List (RecF α))
    (h : identityLogs.contains f = true →
      normalizeForIdentity true isZero f (g k) = normalizeForIdentity true isZero f (g k'))
    (hl : ClockFree isZero k k' l) : ClockFree isZero k k' ((f, g) :: l) :=
  cf_append (a := [(f, g)]) (cf_one f g h) hl

theorem cf_opt {k k' : Clock α} (f : Str) (x : Option (Clock α → J α))
    (h : ∀ g, x = some g → identityLogs.contains f = true →
      normalizeForIdentity true isZero f (g k) = normalizeForIdentity true isZero f (g k')) :
    ClockFree isZero k k' (optRecF f x) := by
  cases x with
  | none => exact cf_nil
  | some g => exact cf_one f g (h g rfl)

theorem cf_yield (k k' : Clock α) (st : Clem.Sched.Stage) (r : Clem.Sched.YReason) :
    ClockFree isZero k k' (yieldRecsF w c env s t o st r) := by
  unfold yieldRecsF
  apply cf_append
  · split
    · exact cf_one _ _ (fun h => absurd h (by decide))
    · exact cf_nil
  · exact cf_one _ _ (fun _ => turnYield_norm_free w c env s t o isZero k k' st r)

/-- every identity record of the turn's skeleton normalises to the same line whatever was measured -/
theorem cf_turn (k k' : Clock α) : ClockFree isZero k k' (rawRecordsF w c env s t o) := by
  have hT1 : ClockFree isZero k k' [((fT1, fun k => t1Raw w c env s t k) : RecF α)] :=
    cf_one _ _ (fun _ => t1_norm_free w c env s t isZero k k')
  have hT2 : ClockFree isZero k k' [((fT2, fun k => t2Raw w c env s t o k) : RecF α)] :=
    cf_one _ _ (fun _ => t2_norm_free w c env s t o isZero k k')
  have hGel : ∀ x : Option (Clock α → J α), ClockFree isZero k k' (optRecF fGel x) :=
    fun x => cf_opt _ _ (fun _ _ h => absurd h (by decide))
  have hRefl : ∀ x : Option (Clock α → J α), ClockFree isZero k k' (optRecF fRefl x) :=
    fun x => cf_opt _ _ (fun _ _ h => absurd h (by decide))
  have hT3 : ClockFree isZero k k'
      [((fT3, fun k => t3Raw w c env s t o k) : RecF α), (fT3Plan, fun k => t3PlanRaw w c env s t o k),
       (fT3Dlg, fun k => t3DialogueRaw w c env s t o k)] :=
    cf_cons _ _ _ (fun h => absurd h (by decide)) (cf_cons _ _ _ (fun h => absurd h (by decide))
      (cf_one _ _ (fun h => absurd h (by decide))))
  have hT4 : ClockFree isZero k k' (optRecF fT4 ((runTurn w c s t o).t4.map (fun x k => t4Raw w c env t k x))) := by
    apply cf_opt
    intro g hg _
    cases hx : (runTurn w c s t o).t4 with
    | none => rw [hx] at hg; cases hg
    | some r =>
      rw [hx] at hg
      simp only [Option.map_some, Option.some.injEq] at hg
      subst hg
      exact t4_norm_free w c env t isZero k k' r
  have hAp : ClockFree isZero k k' (optRecF fApply ((runTurn w c s t o).apply.map (fun x k => applyRaw w env t k x))) := by
    apply cf_opt
    intro g hg _
    cases hx : (runTurn w c s t o).apply with
    | none => rw [hx] at hg; cases hg
    | some r =>
      rw [hx] at hg
      simp only [Option.map_some, Option.some.injEq] at hg
      subst hg
      exact apply_norm_free w env t isZero k k' r
  have hFin : ClockFree isZero k k' [((fHealth, fun _ => healthRaw w t) : RecF α),
      (fTurn, fun k => turnFinalRaw w c env s t o k)] :=
    cf_cons _ _ _ (fun h => absurd h (by decide)) (cf_one _ _ (fun _ => turnFinal_norm_free w c env s t o isZero k k'))
  unfold rawRecordsF
  simp only
  repeat' split
  all_goals
    repeat' (first
      | exact cf_nil | exact hT1 | exact hT2 | exact hGel _ | exact hRefl _ | exact hT3 | exact hT4 | exact hAp | exact hFin
      | exact cf_yield w c env s t o k k' _ _ | apply cf_append)

variable (isZero)

/-- **the identity logs of a turn do not depend on the wall clock.**  Under CI (`CI=true`) the lines the turn appends
to t1 / t2 / t4 / apply / turn.jsonl are the same for every value of every `perf_counter` difference: they are a
function of (world, config, printed constants incl. `ctx.now`, state, turn input, oracles). -/
theorem C01_compose_log_identity_clock_free (k k' : Clock α) (hci : env.ci = true) :
    identityStream isZero w c env s t o k = identityStream isZero w c env s t o k' := by
  unfold identityStream emitted rawRecords
  rw [hci]
  have h := cf_turn w c env s t o (isZero := isZero) k k'
  generalize rawRecordsF w c env s t o = l at h
  induction l with
  | nil => rfl
  | cons p r ih =>
    have hr : ClockFree isZero k k' r := fun q hq => h q (List.mem_cons_of_mem _ hq)
    have hp := h p (by simp)
    simp only [List.map_cons, List.filter_cons]
    rw [ih hr]
    by_cases hid : identityLogs.contains p.1 = true
    · simp only [hid, if_true]; rw [hp hid]
    · have hf : identityLogs.contains p.1 = false := by simpa using hid
      simp only [hf]
      rfl

/-- the identity lines of a list of emitted records -/
def identityOf (l : List (Str × J α)) : List (Str × J α) := l.filter (fun p => identityLogs.contains p.1)

/-- **the identity logs of a HISTORY do not depend on the wall clock**: two executions of the same turn list from the
same state (several agents allowed) that measured different times throughout append the same lines to
t1 / t2 / t4 / apply / turn.jsonl, in the same order -/
theorem C01_compose_log_history_clock_free (hci : env.ci = true) (ts : List (TurnIn α × Oracles α)) :
    ∀ (s : State α) (ks ks' : List (Clock α)), ks.length = ts.length → ks'.length = ts.length →
      identityOf (histLog isZero w c env s (ts.zip ks)) = identityOf (histLog isZero w c env s (ts.zip ks')) := by
  induction ts with
  | nil => intro s ks ks' _ _; rfl
  | cons t r ih =>
    intro s ks ks' h h'
    cases ks with
    | nil => cases h
    | cons k kr =>
      cases ks' with
      | nil => cases h'
      | cons k' kr' =>
        simp only [List.zip_cons_cons, histLog, identityOf, List.filter_append]
        have e := C01_compose_log_identity_clock_free (wFor w t.1) c env s t.1 t.2 isZero k k' hci
        unfold identityStream at e
        rw [e]
        have := ih (runTurn (wFor w t.1) c s t.1 t.2).state kr kr' (by simpa using h) (by simpa using h')
        unfold identityOf at this
        rw [this]

/-- **the rollup restates the stage records**: the `t1` / `t2` / `t4` blocks of the final turn record carry the very
values the t1 / t2 / t4 records of the same turn carry -/
theorem C01_compose_log_rollup (k : Clock α) :
    fieldOf (k%"t1") (turnFinalRaw w c env s t o k) = some (t1Roll w c s t) ∧
    fieldOf (k%"t2") (turnFinalRaw w c env s t o k) = some (t2Roll w c s t o) ∧
    fieldOf (k%"t4") (turnFinalRaw w c env s t o k) = some (t4Roll w c s t o) ∧
    fieldOf (k%"pops") (t1Roll w c s t) = fieldOf (k%"pops") (t1Raw w c env s t k) ∧
    fieldOf (k%"iters") (t1Roll w c s t) = fieldOf (k%"iters") (t1Raw w c env s t k) ∧
    fieldOf (k%"graphs_touched") (t1Roll w c s t) = fieldOf (k%"graphs_touched") (t1Raw w c env s t k) ∧
    fieldOf (k%"k_returned") (t2Roll w c s t o) = fieldOf (k%"k_returned") (t2Raw w c env s t o k) ∧
    fieldOf (k%"k_used") (t2Roll w c s t o) = fieldOf (k%"k_used") (t2Raw w c env s t o k) := by
  refine ⟨rfl, rfl, rfl, rfl, rfl, rfl, rfl, rfl⟩

/-- the apply record prints the version the next state carries, and names the snapshot file iff a body was written -/
theorem C01_compose_log_apply_version (k : Clock α) (a : Clem.Apply.Out)
    (ha : (runTurn w c s t o).apply = some a) :
    fieldOf (k%"version_etag") (applyRaw w env t k a) = some (.str (decStr a.version)) ∧
    (nextState w c s t o).ver = .num a.version ∧
    (fieldOf (k%"snapshot") (applyRaw w env t k a) = some (.str (snapName w)) ↔ (runTurn w c s t o).snapBody.isSome = true) := by
  rw [runTurn_apply] at ha
  have hc : commits w c s t o = true := by
    by_cases h : commits w c s t o = true
    · exact h
    · simp [h] at ha
  simp only [hc, if_true, Option.some.injEq] at ha
  subst ha
  refine ⟨rfl, by simp [nextState, hc], ?_⟩
  show (aget (k%"snapshot") _ = _) ↔ _
  have : (runTurn w c s t o).snapBody = snapBody w c s t o := rfl
  rw [this]
  unfold snapBody
  cases hs : (applyOf w c s t o).snap with
  | none => simp [applyRaw, headKV, aget, hs, hc]
  | some x => simp [applyRaw, headKV, aget, hs, hc]

end AnyCarrier



end Clem.Compose
