/-
# C01 (composition) — memory growth is visible to retrieval

`write_reflection_entries` appends the turn's reflection entries to the memory index (`InMemoryIndex.add`: append,
version + 1) under the owner literal `"agent"`.  The composed model keeps them as state (`State.mem`, write order) and
every T2 call of a later turn — the stage and `rag_once`'s second retrieval — runs C11's model on

    epsAt w s.mem o = w.eps ++ zipWith memEp s.mem o.memEps

i.e. the initial episodes followed by everything written on EARLIER turns (this turn's own entries are written by the
tail, after both calls).  The real T2 stage cache carries the index version in its key, so it cannot serve a list
computed on a shorter index; the orchestrator's turn cache is keyed by (version_etag, text) only and CAN (the model
mirrors that: `State.orch`), hence the `orchCacheOn = false` hypothesis of the "exactly" statements.
-/
import Clem.Proofs.Compose
import Clem.Props.C01.ComposeRefl

set_option linter.unusedSectionVars false
set_option linter.unusedVariables false

namespace Clem.Compose

section AnyCarrier
variable {α : Type} [Clem.T1.Num α] [Clem.T2.Num α] [Clem.T3.PyOrd α] [Clem.Py.Num α] [Clem.Py.NumGel α]
variable (w : World α) (c : Cfg α)

theorem nextState_mem (s : State α) (t : TurnIn α) (o : Oracles α) :
    (nextState w c s t o).mem = s.mem ++ (runTurn w c s t o).refl.written := rfl

/-- **the index over a history**: after any history the written part of the memory index is what it was before,
followed by the entries each turn's tail wrote, turn by turn in order (append-only; nothing else touches it) -/
theorem C01_compose_memory_history (ts : List (TurnIn α × Oracles α)) :
    ∀ s : State α, (runTurns w c s ts).state.mem = s.mem ++ (runTurns w c s ts).outs.flatMap (·.refl.written) := by
  induction ts with
  | nil => intro s; simp [runTurns_nil]
  | cons t r ih =>
    intro s
    rw [runTurns_cons]
    simp only [List.flatMap_cons]
    rw [ih, runTurn_state, nextState_mem, List.append_assoc]

/-- the counter of C19's growth theorem is the length of that list -/
theorem C01_compose_memory_count (ts : List (TurnIn α × Oracles α)) :
    ∀ s : State α, (runTurns w c s ts).state.memN + s.mem.length = s.memN + (runTurns w c s ts).state.mem.length := by
  induction ts with
  | nil => intro s; simp [runTurns_nil]
  | cons t r ih =>
    intro s
    rw [runTurns_cons]
    have h := ih (runTurn w c s t.1 t.2).state
    rw [runTurn_state] at h
    have h1 : (nextState w c s t.1 t.2).memN = s.memN + (reflOut w c s t.1 t.2).written.length := rfl
    have h2 : (nextState w c s t.1 t.2).mem.length = s.mem.length + (reflOut w c s t.1 t.2).written.length := by
      show (s.mem ++ (reflOut w c s t.1 t.2).written).length = _
      rw [List.length_append]
    show (runTurns w c (runTurn w c s t.1 t.2).state r).state.memN + s.mem.length =
      s.memN + (runTurns w c (runTurn w c s t.1 t.2).state r).state.mem.length
    rw [runTurn_state]
    omega

/-- a written entry sits in the index under the owner literal `"agent"`, with the text the tail wrote and a vector
iff the writer embedded it -/
theorem memEp_fields (wr : Clem.Refl.Written) (oe : Clem.T2.Ep α) :
    (memEp wr oe).owner = .str sAgentLit ∧ (memEp wr oe).text = wr.text ∧ (memEp wr oe).hasVec = wr.vec ∧
    (memEp wr oe).id = oe.id := ⟨rfl, rfl, rfl, rfl⟩

/-- **what turn k's retrieval reads** (orchestrator cache off): C11's stage model on exactly the initial episodes
followed by the entries written on the turns before k — `pre`'s tails — and nothing of turn k's own tail. -/
theorem C01_compose_memory_index (s : State α) (pre : List (TurnIn α × Oracles α)) (t : TurnIn α) (o : Oracles α)
    (qo : QOracle α) (hc : c.orchCacheOn = false)
    (hq : lookupQ o (qOf w c (runTurns w c s pre).state t) = some qo) :
    (runTurn w c (runTurns w c s pre).state t o).t2 =
      Clem.T2.t2 (t2Cfg w c o qo) c.tiers
        (withCos (w.eps ++ List.zipWith memEp (s.mem ++ (runTurns w c s pre).outs.flatMap (·.refl.written)) o.memEps)
          qo.cos)
        (hybOf c (runTurns w c s pre).state.gel) (qualOf c qo) (t2K c) c.residualCap (gnodes w) := by
  rw [← C01_compose_memory_history]
  rw [runTurn_t2]
  unfold t2Of t2Stage t2Call epsAt
  simp [hq, hc]

theorem mem_withCos {es : List (Clem.T2.Ep α)} {cs : List α} {e : Clem.T2.Ep α} (h : e ∈ withCos es cs) :
    ∃ e0 ∈ es, e.owner = e0.owner ∧ e.id = e0.id ∧ e.text = e0.text := by
  induction es generalizing cs with
  | nil => simp [withCos] at h
  | cons a r ih =>
    cases cs with
    | nil =>
      simp only [withCos, List.mem_cons] at h
      rcases h with h | h
      · exact ⟨a, by simp, by rw [h], by rw [h], by rw [h]⟩
      · obtain ⟨e0, he0, hh⟩ := ih h
        exact ⟨e0, List.mem_cons_of_mem _ he0, hh⟩
    | cons x xs =>
      simp only [withCos, List.mem_cons] at h
      rcases h with h | h
      · exact ⟨a, by simp, by rw [h], by rw [h], by rw [h]⟩
      · obtain ⟨e0, he0, hh⟩ := ih h
        exact ⟨e0, List.mem_cons_of_mem _ he0, hh⟩

theorem mem_zipWith_memEp {m : List Clem.Refl.Written} {oes : List (Clem.T2.Ep α)} {e : Clem.T2.Ep α}
    (h : e ∈ List.zipWith memEp m oes) : ∃ wr ∈ m, e.owner = .str sAgentLit ∧ e.text = wr.text := by
  induction m generalizing oes with
  | nil => simp at h
  | cons a r ih =>
    cases oes with
    | nil => simp at h
    | cons x xs =>
      simp only [List.zipWith_cons_cons, List.mem_cons] at h
      rcases h with h | h
      · exact ⟨a, by simp, by rw [h]; rfl, by rw [h]; rfl⟩
      · obtain ⟨wr, hwr, hh⟩ := ih h
        exact ⟨wr, List.mem_cons_of_mem _ hwr, hh⟩

/-- **retrieval on turn k sees exactly the initial episodes plus the entries written on turns < k that pass the
owner scope** (orchestrator cache off, `k_retrieval ≥ 1`): every hit is (up to its cosine) an initial episode or an
entry one of the earlier tails wrote, is visible under the querying agent's scope and passes the threshold; and a hit
owned by the literal `"agent"` — every reflection entry is — can only appear under `owner_scope = any`, or under
`owner_scope = agent` for an agent whose id is that literal; never under `world`. -/
theorem C01_compose_memory_visible (s : State α) (pre : List (TurnIn α × Oracles α)) (t : TurnIn α) (o : Oracles α)
    (hk : 1 ≤ c.k) (hc : c.orchCacheOn = false) :
    ∀ e ∈ (runTurn w c (runTurns w c s pre).state t o).t2.retrieved,
      ((∃ e0 ∈ w.eps, e.owner = e0.owner ∧ e.id = e0.id ∧ e.text = e0.text) ∨
       (∃ wr ∈ s.mem ++ (runTurns w c s pre).outs.flatMap (·.refl.written),
          e.owner = .str sAgentLit ∧ e.text = wr.text)) ∧
      Clem.T2.visible (Clem.T2.ownerForQuery c.scope (some w.agent)) e = true ∧ Clem.T2.passes c.θ e = true ∧
      (e.owner = .str sAgentLit → c.scope ≠ 2 ∧ (c.scope = 1 → w.agent = sAgentLit)) := by
  intro e he
  rw [runTurn_t2] at he
  have hfresh : t2Of w c (runTurns w c s pre).state t o =
      (t2Call w c o (runTurns w c s pre).state.gel (qOf w c (runTurns w c s pre).state t)
        (runTurns w c s pre).state.mem).getD (emptyT2 c) := by
    unfold t2Of t2Stage
    simp [hc]
  rw [hfresh] at he
  unfold t2Call at he
  split at he
  · simp [emptyT2] at he
  · rename_i qo _
    simp only [Option.getD_some] at he
    have h := Clem.T2.C11_t2_retrieved (t2Cfg w c o qo) c.tiers
      (withCos (epsAt w (runTurns w c s pre).state.mem o) qo.cos) (hybOf c (runTurns w c s pre).state.gel)
      (qualOf c qo) (t2K c) c.residualCap (gnodes w) hk
    obtain ⟨hin, hvis, hpass, _⟩ := h.2.2 e he
    have hvis' : Clem.T2.visible (Clem.T2.ownerForQuery c.scope (some w.agent)) e = true := hvis
    refine ⟨?_, hvis', hpass, ?_⟩
    · obtain ⟨e0, he0, ho, hi, ht⟩ := mem_withCos hin
      unfold epsAt at he0
      rcases List.mem_append.1 he0 with h0 | h0
      · exact Or.inl ⟨e0, h0, ho, hi, ht⟩
      · right
        obtain ⟨wr, hwr, how, htx⟩ := mem_zipWith_memEp h0
        rw [C01_compose_memory_history] at hwr
        exact ⟨wr, hwr, ho.trans how, ht.trans htx⟩
    · intro how
      unfold Clem.T2.visible Clem.T2.ownerForQuery at hvis'
      rw [how] at hvis'
      constructor
      · intro h2
        simp [h2] at hvis'
        revert hvis'; decide
      · intro h1
        simp [h1] at hvis'
        exact hvis'.symm

end AnyCarrier

end Clem.Compose
