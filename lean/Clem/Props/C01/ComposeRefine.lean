/-
# C01 (composition) — refinement: the composed turn IS the stage models, on the inputs the composition hands them

`C01_compose_refines_stages`: for every world, configuration, state, turn input and oracle table, each stage output
of the composed turn equals the stand-alone stage model of its package applied to the stage input the glue builds —
literally the definitions `Clem.T1.addGraph` / `Clem.T1.t1` (C12), `Clem.T2.t2` (C11), `Clem.T3.deliberate` /
`ragOnce` / `speak` (C13), `Clem.T4.t4` (C03), `Clem.Apply.apply` (C04), `Clem.Sched.firstYield` (C17),
`Clem.Gel.run` (C18), `Clem.Refl.tail` (C19), `Clem.Snap.payloadOf` (C06).  Because a turn of a history — one agent
or several — is such a composed turn on a reachable state (`C01_compose_agents_step`), every theorem those packages
prove about their stage model holds for every turn of every history.

Transfer corollaries stated here (the ones not already in `Compose*.lean`):
* C13 `C01_compose_plan_cap`, `C01_compose_plan_head`, `C01_compose_utter_budget`, `C01_compose_line_budget`;
* C03 `C01_compose_t4_delta_order`: T4's whole result — approved list, rejections, reasons, counters — does not depend
  on the ORDER in which the plan lists its deltas (C03's permutation invariance on the glue's T4 input);
* C17 (after the fix `C17_t1_slice_budget_shared_across_graphs`) `C01_compose_slice_t1_total`: the TOTAL pops / layers
  of the turn's T1 record — over all active graphs — stay within the slice budget;
* C15: `Props/C01/ComposeCacheRefine.lean` (`C01_compose_cache_refines_ttl_lru`);
already present elsewhere: C03 `C01_compose_envelope(_numeric)`, C04 `C01_compose_store_once` / `_version`, C11
`C01_compose_retrieval` / `_rerank_perm` / `_memory_visible`, C12 `C01_compose_t1_budgets`, C17 `C01_compose_yield_*` /
`_slice_*`, C18 `C01_compose_gel_*`, C19 `C01_compose_refl_*`, C06 `C01_compose_snap_body` / `_boot_loads`.
-/
import Clem.Proofs.Compose
import Clem.Props.C01.ComposeAgents
import Clem.Props.C13
import Clem.Props.C17
import Clem.Props.C03

set_option linter.unusedSectionVars false
set_option linter.unusedVariables false

namespace Clem.Compose

section AnyCarrier
variable {α : Type} [Clem.T1.Num α] [Clem.T2.Num α] [Clem.T3.PyOrd α] [Clem.Py.Num α] [Clem.Py.NumGel α]
variable (w : World α) (c : Cfg α)

/-- **Refinement.**  Every stage output of the composed turn is the stand-alone stage model on the input the glue
hands it.  (T2: freshly computed, unless the orchestrator's cache serves an entry — which is such a result of an
earlier turn, `GoodState`.) -/
theorem C01_compose_refines_stages (s : State α) (t : TurnIn α) (o : Oracles α) :
    -- C12: T1 = the per-graph fold of the stage model over the active graphs, from the process cache
    (runTurn w c s t o).t1 =
      (t1Graphs w).foldl (Clem.T1.addGraph (t1Cfg c) t.text)
        { Clem.T1.tot0 with cache := if (t1Cfg c).cacheOn then t1Pre s.t1c (t1Graphs w) t.text else [] } ∧
    -- C11: a fresh T2 result is the stage model on the index of this turn under the oracle of the query text
    (∀ qo, lookupQ o (qOf w c s t) = some qo → (t2Stage w c s t o).hit = false →
      (runTurn w c s t o).t2 =
        Clem.T2.t2 (t2Cfg w c o qo) c.tiers (withCos (epsAt w s.mem o) qo.cos) (hybOf c s.gel) (qualOf c qo) (t2K c)
          c.residualCap (gnodes w)) ∧
    -- C13: the plan is `deliberate` on the bundle (+ the hook's ops), refined by `ragOnce`; the utterance is `speak`
    (plan0Of w c s t o).ops =
      (if t3On c t then Clem.T3.deliberate (bundleOf w c s t o) ++ (if t.hook then t.hookOps else []) else []) ∧
    (t3On c t = true → (plan0Of w c s t o).ops.any Clem.T3.Op.isRetrieve = true → 1 ≤ c.maxRagLoops →
      ∃ r2, (planFinal w c s t o).ops =
        (Clem.T3.ragOnce (bundleOf w c s t o) (plan0Of w c s t o).ops r2 false).ops) ∧
    (utterOf c (planFinal w c s t o).ops =
      Clem.T3.strip (Clem.T3.speak (speakCore (planFinal w c s t o).ops) true []
        (opTok (planFinal w c s t o).ops) (some c.tokens)).text) ∧
    -- C03 / C04: T4 and Apply are the stage models on the glue's inputs
    t4Of w c s t o = Clem.T4.t4 c.sqrt c.thr (t4Input w c t (planFinal w c s t o)) ∧
    applyOf w c s t o =
      Clem.Apply.apply (applyIn c s t (t4Of w c s t o).approved (t2Stage w c s t o).size) ∧
    -- C17: the yield decision is the scheduler model on the boundary counters
    (∀ b, c.sched = some b → yieldOf w c s t o = Clem.Sched.firstYield b (boundaries w c s t o)) ∧
    -- C18 / C19 / C06
    (nextState w c s t o).gel = Clem.Gel.run c.gel c.pw s.gel (gelOps w c s t o) ∧
    ((yieldOf w c s t o).isSome = false →
      (runTurn w c s t o).refl = (Clem.Refl.tail true Clem.Refl.CtxSt.fresh (reflIn w c s t o) reflOrc).2) ∧
    (∀ b, (runTurn w c s t o).snapBody = some b →
      b = Clem.Snap.payloadOf c.wops c.cv c.snapB (snapIn w c s t o)) := by
  refine ⟨rfl, ?_, ?_, ?_, ?_, rfl, rfl, ?_, rfl, ?_, ?_⟩
  · intro qo hq hh
    rw [runTurn_t2]
    unfold t2Of
    have : (t2Stage w c s t o).out = (t2Call w c o s.gel (qOf w c s t) s.mem).getD (emptyT2 c) := by
      unfold t2Stage at hh ⊢
      dsimp only at hh ⊢
      by_cases hon : c.orchCacheOn = true
      · rw [if_pos hon] at hh ⊢
        cases hf : s.orch.find? (fun e => okeyEq e.1 (orchKey w c s t)) with
        | some e => rw [hf] at hh; simp at hh
        | none => rfl
      · rw [if_neg hon]
    rw [this]
    unfold t2Call
    simp [hq]
  · unfold plan0Of planOf
    split
    · split <;> simp
    · rfl
  · intro h3 hr hl
    unfold planFinal ragOf
    rw [if_pos h3]
    unfold ragStep
    have : ((plan0Of w c s t o).ops.any Clem.T3.Op.isRetrieve && decide (1 ≤ c.maxRagLoops)) = true := by
      simp [hr, hl]
    rw [if_pos this]
    exact ⟨_, rfl⟩
  · unfold utterOf
    dsimp only
    split
    · rename_i h
      have : (Clem.T3.speak (speakCore (planFinal w c s t o).ops) true [] (opTok (planFinal w c s t o).ops)
          (some c.tokens)).text = [] := by
        cases hx : (Clem.T3.speak (speakCore (planFinal w c s t o).ops) true [] (opTok (planFinal w c s t o).ops)
          (some c.tokens)).text with
        | nil => rfl
        | cons a r => rw [hx] at h; simp at h
      rw [this]; rfl
    · rfl
  · intro b hb
    unfold yieldOf
    rw [hb]
  · intro hy
    show reflOut w c s t o = _
    unfold reflOut
    rw [hy]
    rfl
  · intro b hb
    have : (runTurn w c s t o).snapBody = snapBody w c s t o := rfl
    rw [this] at hb
    unfold snapBody at hb
    split at hb
    · injection hb with hb; exact hb.symm
    · cases hb

/-! ## transfer: C13 (planning and speaking) -/

/-- the stock planner's part of the plan is `deliberate` of the turn's bundle -/
theorem plan0_stock (s : State α) (t : TurnIn α) (o : Oracles α) (h3 : t3On c t = true) (hh : t.hook = false) :
    (plan0Of w c s t o).ops = Clem.T3.deliberate (bundleOf w c s t o) := by
  unfold plan0Of planOf
  rw [if_pos h3]
  simp [hh]

/-- **C13 op cap**, in every turn of every (multi-agent) history: the stock plan has at most
`max 0 (min max_ops_per_turn slice t3_ops)` operations (zero and negative caps included) -/
theorem C01_compose_plan_cap (s : State α) (ts : List (TurnIn α × Oracles α)) :
    ∀ o ∈ (runTurnsMA w c s ts).outs, ∃ t ∈ ts, t.1.hook = false →
      (o.planOps0.length : Int) ≤ max 0 (Clem.T3.capsOps o.bundle) := by
  intro o ho
  obtain ⟨s', t, ht, rfl⟩ := C01_compose_agents_step w c ts s o ho
  refine ⟨t, ht, ?_⟩
  intro hh
  show (((plan0Of (wFor w t.1) c s' t.1 t.2).ops.length : Nat) : Int) ≤
    max 0 (Clem.T3.capsOps (bundleOf (wFor w t.1) c s' t.1 t.2))
  by_cases h3 : t3On c t.1 = true
  · rw [plan0_stock (wFor w t.1) c s' t.1 t.2 h3 hh]
    exact Clem.Props.C13.C13_delib_cap _
  · have : (plan0Of (wFor w t.1) c s' t.1 t.2).ops = [] := by
      unfold plan0Of; simp [h3]
    rw [this]
    simp

/-- **C13 Speak first + intent by thresholds**: a non-empty stock plan starts with the Speak op `speakOf` builds from
the bundle — sorted, de-duplicated topic labels, the configured token budget, the intent dictated by `tau_high` /
`tau_low` for the best similarity of THIS turn's retrieval -/
theorem C01_compose_plan_head (s : State α) (t : TurnIn α) (o : Oracles α) (h3 : t3On c t = true)
    (hh : t.hook = false) :
    (runTurn w c s t o).planOps0 = [] ∨
    ∃ rest, (runTurn w c s t o).planOps0 =
      Clem.T3.speakOf (bundleOf w c s t o) (simMax (t2Of w c s t o)) :: rest := by
  show (plan0Of w c s t o).ops = [] ∨ ∃ rest, (plan0Of w c s t o).ops = _ :: rest
  rw [plan0_stock w c s t o h3 hh]
  exact Clem.Props.C13.C13_delib_head (bundleOf w c s t o)

/-- the utterance of a turn is `speak`'s text through `_sanitize_utterance`'s `.strip()` -/
theorem utterOf_sanitized (ops : List Clem.T3.Op) :
    Clem.T3.Sanitized (Clem.T3.speak (speakCore ops) true [] (opTok ops) (some c.tokens)).text (utterOf c ops) := by
  have h : utterOf c ops = Clem.T3.strip (Clem.T3.speak (speakCore ops) true [] (opTok ops) (some c.tokens)).text := by
    unfold utterOf
    dsimp only
    split
    · rename_i h
      cases hx : (Clem.T3.speak (speakCore ops) true [] (opTok ops) (some c.tokens)).text with
      | nil => rfl
      | cons a r => rw [hx] at h; simp at h
    · rfl
  rw [h]
  exact Clem.T3.Sanitized.done _

/-- **C13 token budget**, composed: the utterance of every turn has at most `max 0 budget` whitespace tokens, where
the budget is the first Speak op's `max_tokens` (when truthy) or the agent's `tokens` cap — whatever the labels,
whatever the plan (stock, hook or refined by `rag_once`) -/
theorem C01_compose_utter_budget (s : State α) (t : TurnIn α) (o : Oracles α) :
    Clem.T3.withinBudget (runTurn w c s t o).utter
      (Clem.T3.speakBudget (opTok (planFinal w c s t o).ops) (some c.tokens)) = true := by
  show Clem.T3.withinBudget (utterOfTurn w c s t o) _ = true
  unfold utterOfTurn
  split
  · exact Clem.Props.C13.C13_turn_line_budget _ _ _ _ _ _ (utterOf_sanitized c _)
  · unfold Clem.T3.withinBudget
    apply decide_eq_true
    show (((Clem.T3.tokenize ([] : Str)).length : Nat) : Int) ≤ _
    have : (Clem.T3.tokenize ([] : Str)).length = 0 := rfl
    rw [this]
    omega

/-- … hence so has the LINE a completed turn returns whenever it carries the utterance (a non-empty one) -/
theorem C01_compose_line_budget (s : State α) (t : TurnIn α) (o : Oracles α)
    (hu : (runTurn w c s t o).utter ≠ []) :
    Clem.T3.withinBudget (runTurn w c s t o).line
      (Clem.T3.speakBudget (opTok (planFinal w c s t o).ops) (some c.tokens)) = true := by
  have hline : (runTurn w c s t o).line = (runTurn w c s t o).utter := by
    show (if (yieldOf w c s t o).isSome || (t.dryRun && c.t4Enabled) then utterOfTurn w c s t o
          else finalLine (utterOfTurn w c s t o) t.text) = utterOfTurn w c s t o
    split
    · rfl
    · unfold finalLine
      have : (utterOfTurn w c s t o).isEmpty = false := by
        cases hx : utterOfTurn w c s t o with
        | nil => exact absurd hx hu
        | cons a r => rfl
      simp [this]
  rw [hline]
  exact C01_compose_utter_budget w c s t o

/-! ## transfer: C17 after the fix `C17_t1_slice_budget_shared_across_graphs` — the slice budgets bind the TOTALS -/

open Clem.T1 in
/-- every entry of the T1 process cache is a per-graph result within the caps it was computed under -/
def T1cOK (s : State α) : Prop := ∀ e ∈ s.t1c, Clem.T1.EOK e.2

open Clem.T1 in
theorem addGraph_per (c0 : Clem.T1.Cfg α) (text : List Nat) (t : Clem.T1.Tot α) (g : Clem.T1.Graph α)
    (ht : t.err = false) : (addGraph c0 text t g).per = t.per ++ [stepRes c0 text t g] := by
  unfold addGraph stepRes
  simp only [ht, Bool.false_eq_true, if_false]
  rfl

open Clem.T1 in
theorem foldl_per_ok (c0 : Clem.T1.Cfg α) (text : List Nat) (gs : List (Clem.T1.Graph α)) :
    ∀ t : Clem.T1.Tot α, TInv c0 t → (∀ r ∈ t.per, EOK r) →
      TInv c0 (gs.foldl (addGraph c0 text) t) ∧ ∀ r ∈ (gs.foldl (addGraph c0 text) t).per, EOK r := by
  induction gs with
  | nil => intro t hI hp; exact ⟨hI, hp⟩
  | cons g gs ih =>
    intro t hI hp
    apply ih (addGraph c0 text t g) (addGraph_inv c0 text t g hI)
    by_cases ht : t.err = true
    · have : addGraph c0 text t g = t := by unfold addGraph; simp [ht]
      rw [this]; exact hp
    · have ht' : t.err = false := by simpa using ht
      rw [addGraph_per c0 text t g ht']
      intro r hr
      rcases List.mem_append.1 hr with h | h
      · exact hp r h
      · rw [List.mem_singleton] at h
        rw [h]
        exact (stepRes_ok c0 text t g hI.cache).1

open Clem.T1 in
/-- the T1 run of a turn from a state with an OK cache: totals within the slice budgets, per-graph results OK -/
theorem t1Of_ok (s : State α) (t : TurnIn α) (hs : T1cOK s) :
    TInv (t1Cfg c) (t1Of w c s t) ∧ ∀ r ∈ (t1Of w c s t).per, EOK r := by
  unfold t1Of t1Run
  apply foldl_per_ok
  · refine ⟨fun _ _ h0 => by simpa [tot0] using h0, fun _ _ h0 => by simpa [tot0] using h0, ?_⟩
    intro e he
    simp only at he
    split at he
    · unfold t1Pre at he
      simp only [List.mem_flatMap, List.mem_map, List.mem_filter] at he
      obtain ⟨g, _, e', ⟨he', _⟩, rfl⟩ := he
      exact hs e' he'
    · cases he
  · intro r hr
    simp [tot0] at hr

open Clem.T1 in
theorem nextState_t1cOK (s : State α) (t : TurnIn α) (o : Oracles α) (hs : T1cOK s) :
    T1cOK (nextState w c s t o) := by
  intro e he
  have he' : e ∈ t1cNext w c s t := he
  unfold t1cNext at he'
  split at he'
  · rcases List.mem_append.1 he' with h | h
    · exact hs e h
    · unfold t1Puts at h
      simp only [List.mem_filterMap] at h
      obtain ⟨p, hp, hsome⟩ := h
      split at hsome
      · injection hsome with hsome
        rw [← hsome]
        exact (t1Of_ok w c s t hs).2 p.2 (List.of_mem_zip hp).2
      · cases hsome
  · exact hs e he'

/-- **C17 (fixed tree), composed: the slice budgets bind the turn's T1 TOTALS.**  In every turn of every multi-agent
history started with an empty (or OK) T1 process cache — result cache on or off, any number of active graphs — the
`pops` / `iters` the t1 record reports (what `_should_yield` compares with the budgets) never exceed a non-negative
`t1_pops` / `t1_iters` slice budget: each graph runs under what the earlier graphs of the turn left.  (Before the fix
only the per-graph clamp `C01_compose_slice_t1` held and the totals could exceed the budget.) -/
theorem C01_compose_slice_t1_total (b : Clem.Sched.Budgets) (hb : c.sched = some b) (s : State α)
    (ts : List (TurnIn α × Oracles α)) (hs : T1cOK s) :
    ∀ o ∈ (runTurnsMA w c s ts).outs,
      (∀ p, b.t1Pops = some p → 0 ≤ p → (o.t1.pops : Int) ≤ p) ∧
      (∀ i, b.t1Iters = some i → 0 ≤ i → o.t1.iters ≤ i) := by
  have hcfg : t1Cfg c = { c.t1 with sliceIters := b.t1Iters, slicePops := b.t1Pops } := by
    unfold t1Cfg; rw [hb]
  induction ts generalizing s with
  | nil => intro o ho; simp [runTurnsMA_nil] at ho
  | cons t r ih =>
    intro o ho
    rw [runTurnsMA_cons] at ho
    simp only [List.mem_cons] at ho
    rcases ho with h | h
    · rw [h]
      have hI := (t1Of_ok (wFor w t.1) c s t.1 hs).1
      constructor
      · intro p hp h0
        exact hI.pops p (by rw [hcfg]; exact hp) h0
      · intro i hi h0
        exact hI.iters i (by rw [hcfg]; exact hi) h0
    · exact ih _ (by rw [runTurn_state]; exact nextState_t1cOK (wFor w t.1) c s t.1 t.2 hs) o h

theorem t1cOK_of_empty (s : State α) (h : s.t1c = []) : T1cOK s := by
  intro e he; rw [h] at he; cases he

/-! ## transfer: C03 (permutation invariance of the meta-filter) -/

/-- **the order of the plan's deltas is irrelevant to the turn**: for every plan the glue hands to T4, listing the
same deltas in another order gives the same `T4Result` (approved list in canonical order, rejected ops, reasons, all
counters of the t4 record) — hence the same store batch, apply record and snapshot.  Carrier: any total order
(`Float` on NaN-free values). -/
theorem C01_compose_t4_delta_order (ho : Clem.T4.LeTotalOrder α) (t : TurnIn α) (p : PlanSt α)
    (ds' : List (Clem.T4.Delta α)) (hp : p.deltas.Perm ds') :
    Clem.T4.t4 c.sqrt c.thr (t4Input w c t ⟨p.ops, ds'⟩) = Clem.T4.t4 c.sqrt c.thr (t4Input w c t p) :=
  Clem.T4.C03_perm_invariant ho c.sqrt c.thr (t4Input w c t p) ds' hp

end AnyCarrier



end Clem.Compose
