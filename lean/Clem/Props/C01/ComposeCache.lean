/-
# C01 (composition) — version discipline and the caches keyed on it

`version_etag` is bumped by exactly one on every turn that reaches Apply — whatever the approved list, whatever the
store answered — and by nothing else; a turn that changed the store did reach Apply, so it bumped the version.  The
orchestrator's turn-level T2 cache is keyed by (version_etag, input text): its keys never run ahead of the current
version (`VerBound`, an invariant of every history), hence after a turn that reached Apply NO entry of the cache
carries the new version — the next lookup, whatever its text, misses and recomputes on the changed graph
(`C01_compose_cache_miss_after_commit`).  With `cache_bust_mode = on-apply` the cache is empty as well.
-/
import Clem.Proofs.Compose

set_option linter.unusedSectionVars false
set_option linter.unusedVariables false

namespace Clem.Compose

section AnyCarrier
variable {α : Type} [Clem.T1.Num α] [Clem.T2.Num α] [Clem.T3.PyOrd α] [Clem.Py.Num α] [Clem.Py.NumGel α]
variable (w : World α) (c : Cfg α)

/-- every key of the orchestrator cache carries a version `≤ v` -/
def KeysLe (v : Int) (l : List (OrchKey α × Clem.T2.Out α)) : Prop :=
  ∀ e ∈ l, ∃ u, e.1.1.1 = .num u ∧ u ≤ v

/-- the version is a number and no cache key runs ahead of it -/
def VerBound (s : State α) : Prop := ∃ v, s.ver = .num v ∧ KeysLe v s.orch

theorem keysLe_mono {v v' : Int} {l : List (OrchKey α × Clem.T2.Out α)} (h : KeysLe v l) (hv : v ≤ v') :
    KeysLe v' l := by
  intro e he
  obtain ⟨u, hu, hle⟩ := h e he
  exact ⟨u, hu, by omega⟩

/-- **the version moves iff the turn reaches Apply, by exactly one**; a turn that changed the store's weights reached
Apply -/
theorem C01_compose_version_step (s : State α) (t : TurnIn α) (o : Oracles α) (v : Int) (h : s.ver = .num v) :
    (nextState w c s t o).ver = .num (if commits w c s t o then v + 1 else v) ∧
    ((nextState w c s t o).w ≠ s.w → commits w c s t o = true) ∧
    ((runTurn w c s t o).storeCalls ≠ [] → commits w c s t o = true) := by
  refine ⟨?_, ?_, ?_⟩
  · rw [nextState_ver, h]
    split <;> rfl
  · intro hne
    by_cases hc : commits w c s t o = true
    · exact hc
    · exact absurd (by simp [nextState, hc]) hne
  · intro hne
    by_cases hc : commits w c s t o = true
    · exact hc
    · exact absurd (by rw [runTurn_storeCalls]; simp [hc]) hne

/-- after any turn the cache's keys are bounded by the version the turn STARTED with -/
theorem orchNext_keysLe (s : State α) (t : TurnIn α) (o : Oracles α) (v : Int) (hv : s.ver = .num v)
    (hk : KeysLe v s.orch) : KeysLe v (nextState w c s t o).orch := by
  show KeysLe v (orchNext w c s t o)
  unfold orchNext
  split
  · exact hk
  · split
    · intro e he; cases he
    · unfold t2Stage
      dsimp only
      split
      · split
        · exact hk
        · intro e he
          rcases List.mem_append.1 he with h | h
          · exact hk e h
          · rw [List.mem_singleton] at h
            exact ⟨v, by rw [h]; exact hv, le_refl _⟩
      · exact hk

theorem nextState_verBound (s : State α) (t : TurnIn α) (o : Oracles α) (h : VerBound s) :
    VerBound (nextState w c s t o) := by
  obtain ⟨v, hv, hk⟩ := h
  refine ⟨if commits w c s t o then v + 1 else v, (C01_compose_version_step w c s t o v hv).1, ?_⟩
  apply keysLe_mono (orchNext_keysLe w c s t o v hv hk)
  split <;> omega

/-- `VerBound` holds along every history that starts with it (e.g. from any state with a numeric version and an
empty cache) -/
theorem C01_compose_verBound_history (ts : List (TurnIn α × Oracles α)) :
    ∀ s : State α, VerBound s → VerBound (runTurns w c s ts).state := by
  induction ts with
  | nil => intro s h; exact h
  | cons t r ih =>
    intro s h
    rw [runTurns_cons]
    exact ih _ (by rw [runTurn_state]; exact nextState_verBound w c s t.1 t.2 h)

theorem verBound_fresh (s : State α) (v : Int) (hv : s.ver = .num v) (h0 : s.orch = []) : VerBound s :=
  ⟨v, hv, by rw [h0]; intro e he; cases he⟩

/-- **every cache keyed on the version misses after a turn that reached Apply** — in particular after every turn
that changed the graph store.  Whatever the next turn's text, agent or oracles: its T2 lookup in the orchestrator's
cache is a miss (the stage recomputes on the state the apply left), because no key carries the bumped version. -/
theorem C01_compose_cache_miss_after_commit (s : State α) (t : TurnIn α) (o : Oracles α) (h : VerBound s)
    (hc : commits w c s t o = true) (w' : World α) (t' : TurnIn α) (o' : Oracles α) :
    (t2Stage w' c (nextState w c s t o) t' o').hit = false ∧
    (runTurn w' c (nextState w c s t o) t' o').orchHit = false := by
  obtain ⟨v, hv, hk⟩ := h
  have hver : (nextState w c s t o).ver = .num (v + 1) := by
    have := (C01_compose_version_step w c s t o v hv).1
    simpa [hc] using this
  have hkeys := orchNext_keysLe w c s t o v hv hk
  have hmiss : (nextState w c s t o).orch.find?
      (fun e => okeyEq e.1 (orchKey w' c (nextState w c s t o) t')) = none := by
    rw [List.find?_eq_none]
    intro e he
    obtain ⟨u, hu, hle⟩ := hkeys e he
    intro heq
    unfold okeyEq at heq
    simp only [Bool.and_eq_true] at heq
    have h1 : e.1.1 = (orchKey w' c (nextState w c s t o) t').1 := by simpa using heq.1.1.1.1
    have h2 : e.1.1.1 = (nextState w c s t o).ver := by rw [h1]; rfl
    rw [hu, hver] at h2
    injection h2 with h3
    omega
  have hhit : (t2Stage w' c (nextState w c s t o) t' o').hit = false := by
    unfold t2Stage
    dsimp only
    split
    · rw [hmiss]
    · rfl
  refine ⟨hhit, ?_⟩
  show (reach w' c (nextState w c s t o) t' o' 0 && (t2Stage w' c (nextState w c s t o) t' o').hit) = false
  rw [hhit, Bool.and_false]

/-- with `cache_bust_mode = on-apply` the cache is also EMPTY after such a turn -/
theorem C01_compose_cache_bust (s : State α) (t : TurnIn α) (o : Oracles α)
    (hc : commits w c s t o = true) (hb : c.bust = true) (ho : c.orchCacheOn = true) :
    (nextState w c s t o).orch = [] := by
  show orchNext w c s t o = []
  unfold orchNext
  have hr : reach w c s t o 0 = true := by
    unfold commits at hc
    have h3 := (Bool.and_eq_true_iff.1 hc).2
    unfold reach at h3 ⊢
    exact decide_eq_true (by have := of_decide_eq_true h3; omega)
  simp [hr, hc, hb, ho]

end AnyCarrier

end Clem.Compose
