import Clem.Proofs.T2
import Clem.Proofs.T2Complete
import Clem.Proofs.T2ParBridge

/-!
# C11 — Retrieval honours scope, thresholds, caps and documented ranking

Property theorems only (helper lemmas live in `Clem/Proofs/T2.lean`).  Every theorem is about the
executable definitions of `Clem/Model/T2.lean` that `clemdrv` runs against the real
`t2_semantic`.  `α` is the numeric carrier; theorems that talk about `≥ θ` or about the order use
`[LinearOrder α] [NumOrd α]` (Boolean comparisons of the model agree with a linear order — the
arithmetic itself is uninterpreted, so rounding is irrelevant to them; NaN is excluded).

`retrieveCore` = tier walk + rescoring + final sort (what enters the rerank layers);
`t2` = the whole stage.
-/

namespace Clem.T2

open Clem.Py

section
variable {α : Type} [Num α]

/-! ## Core retrieval: caps, distinct ids, scope, threshold, tier rules -/

/-- Retrieval returns at most `k` episodes (`k_retrieval ≥ 1`, as the validator enforces). -/
theorem C11_len_le_k (c : Cfg α) (tiers : List Nat) (eps : List (Ep α)) (hk : 1 ≤ c.k) :
    ((retrieveCore c tiers eps).1.length : Int) ≤ c.k := by
  unfold retrieveCore
  simp only
  have h := (rescore_map_fst c eps (walk c.k (fun t => searchTier c t eps) tiers [] []).1).length_eq
  rw [List.length_map] at h
  rw [h]
  exact walk_length (by simp; omega)

/-- … with pairwise distinct ids (dedupe across tiers). -/
theorem C11_ids_nodup (c : Cfg α) (tiers : List Nat) (eps : List (Ep α)) :
    ((retrieveCore c tiers eps).1.map (·.1.id)).Nodup := by
  unfold retrieveCore
  simp only
  have h := (rescore_map_fst c eps (walk c.k (fun t => searchTier c t eps) tiers [] []).1).map (·.id)
  rw [List.map_map] at h
  exact (h.nodup_iff).2 (walk_nodup (by simp))

/-- Every hit is an episode of the index, visible under the query owner, with a vector and a
cosine that passes the threshold test, and it meets the rule (`tierOk`: recency window / member of
a chosen top-m cluster / archive quarter) of one of the configured tiers. -/
theorem C11_hit_explained (c : Cfg α) (tiers : List Nat) (eps : List (Ep α)) :
    ∀ p ∈ (retrieveCore c tiers eps).1,
      p.1 ∈ eps ∧ visible c.owner p.1 = true ∧ passes c.θ p.1 = true
        ∧ (∃ t ∈ tiers, tierOk c eps p.1 t = true)
        ∧ p.2 = combined c eps p.1.id p.1.cos := by
  intro p hp
  unfold retrieveCore at hp
  simp only at hp
  obtain ⟨h1, h2⟩ := rescore_snd hp
  rcases walk_mem h1 with h | ⟨t, ht, _, h3⟩
  · cases h
  · obtain ⟨a, b, c', d⟩ := mem_searchTier h3
    exact ⟨a, b, c', ⟨t, ht, d⟩, h2⟩

/-- Agent scope never yields another owner's memories. -/
theorem C11_scope_agent (c : Cfg α) (tiers : List Nat) (eps : List (Ep α)) (a : Str)
    (hs : c.scope = 1) (ha : c.agent = some a) :
    ∀ p ∈ (retrieveCore c tiers eps).1, p.1.owner = .str a ∧ p.1.ownerStr = a := by
  intro p hp
  have h := (C11_hit_explained c tiers eps p hp).2.1
  have ho : c.owner = some a := by simp [Cfg.owner, ownerForQuery, hs, ha]
  rw [ho] at h
  have : p.1.owner = .str a := by simpa [visible] using h
  exact ⟨this, by simp [Ep.ownerStr, this]⟩

/-- World scope yields only `world`-owned memories. -/
theorem C11_scope_world (c : Cfg α) (tiers : List Nat) (eps : List (Ep α)) (hs : c.scope = 2) :
    ∀ p ∈ (retrieveCore c tiers eps).1, p.1.owner = .str [119, 111, 114, 108, 100] := by
  intro p hp
  have h := (C11_hit_explained c tiers eps p hp).2.1
  have ho : c.owner = some [119, 111, 114, 108, 100] := by simp [Cfg.owner, ownerForQuery, hs]
  rw [ho] at h
  simpa [visible] using h

omit [Num α] in
/-- OBSERVATION (not forbidden by the statement, but worth knowing): `owner_scope = agent` with
`ctx.agent_id = None` applies no owner filter at all. -/
theorem C11_scope_agent_none_unrestricted (c : Cfg α) (hs : c.scope = 1) (ha : c.agent = none)
    (eps : List (Ep α)) : filterOwner c.owner eps = eps := by
  simp [Cfg.owner, ownerForQuery, hs, ha, filterOwner]

/-- The exact tier alone honours the recency window (`te ≥ now − days`, days > 0). -/
theorem C11_exact_recent (c : Cfg α) (eps : List (Ep α)) (hd : 0 < c.days) :
    ∀ p ∈ (retrieveCore c [0] eps).1, recentOk c.days c.nowUs p.1 = true := by
  intro p hp
  obtain ⟨_, _, _, ⟨t, ht, h⟩, _⟩ := C11_hit_explained c [0] eps p hp
  simp only [List.mem_singleton] at ht
  subst ht
  have : ¬ c.days ≤ 0 := by omega
  simpa [tierOk, this] using h

/-- The cluster tier alone serves only members of the chosen clusters, and at most `top_m`
clusters are chosen. -/
theorem C11_cluster_topm (c : Cfg α) (eps : List (Ep α)) (hm : 0 ≤ c.topM) :
    (∀ p ∈ (retrieveCore c [1] eps).1,
        p.1.cluster ∈ chosenClusters c.cscore c.topM (filterOwner c.owner eps))
      ∧ ((chosenClusters c.cscore c.topM (filterOwner c.owner eps)).length : Int) ≤ c.topM := by
  refine ⟨?_, chosenClusters_length _ _ _ hm⟩
  intro p hp
  obtain ⟨_, _, _, ⟨t, ht, h⟩, _⟩ := C11_hit_explained c [1] eps p hp
  simp only [List.mem_singleton] at ht
  subst ht
  simpa [tierOk] using h

end

section
variable {α : Type} [Num α] [LinearOrder α] [NumOrd α]

/-- Every hit has a vector and meets the similarity threshold. -/
theorem C11_threshold (c : Cfg α) (tiers : List Nat) (eps : List (Ep α)) :
    ∀ p ∈ (retrieveCore c tiers eps).1, p.1.hasVec = true ∧ c.θ ≤ p.1.cos := by
  intro p hp
  have h := (C11_hit_explained c tiers eps p hp).2.2.1
  simp only [passes, Bool.and_eq_true] at h
  exact ⟨h.1, (NumOrd.le_iff _ _).1 h.2⟩

/-- The chosen clusters are the best ones: every chosen cluster sorts no later than every
non-chosen candidate cluster under `(−centroid score, cluster id)`. -/
theorem C11_cluster_best (cs : List (Str × α)) (m : Int) (eps : List (Ep α)) :
    ∃ rest, (isort clusterKeyLe (clusterScores cs eps))
        = pySlice m (isort clusterKeyLe (clusterScores cs eps)) ++ rest
      ∧ ∀ a ∈ pySlice m (isort clusterKeyLe (clusterScores cs eps)), ∀ b ∈ rest,
          clusterKeyLe a b = true := by
  obtain ⟨rest, hr⟩ := pySlice_prefix m (isort clusterKeyLe (clusterScores cs eps))
  refine ⟨rest, hr.symm, ?_⟩
  have hs : (isort clusterKeyLe (clusterScores cs eps)).Pairwise
      (fun a b => clusterKeyLe a b = true) :=
    isort_key_pairwise (fun a : Str × α => (Num.neg a.2, a.1)) _
  rw [← hr] at hs
  exact (List.pairwise_append.1 hs).2.2

/-- Each tier's answer is ranked by `(−cosine, id)`. -/
theorem C11_rank_sorted (k : Int) (θ : α) (eps : List (Ep α)) :
    (rankByCosine k θ eps).Pairwise (fun a b => keyLe (rankKey a) (rankKey b) = true) :=
  pySlice_pairwise k ((isort_key_pairwise rankKey _).sublist (dedupIds_sublist _))

/-- The list entering the rerank layers is ordered by the documented combined score, descending,
ties by id ascending; and the score attached to each hit *is* the documented combination
`alpha*(cos+1)/2 + beta*recency + gamma*importance` (`combined`, with the clamps). -/
theorem C11_order (c : Cfg α) (tiers : List Nat) (eps : List (Ep α)) :
    (retrieveCore c tiers eps).1.Pairwise
        (fun a b => keyLe (Num.neg a.2, a.1.id) (Num.neg b.2, b.1.id) = true)
      ∧ ∀ p ∈ (retrieveCore c tiers eps).1, p.2 = combined c eps p.1.id p.1.cos :=
  ⟨isort_key_pairwise combKey _, fun p hp => (C11_hit_explained c tiers eps p hp).2.2.2.2⟩

/-- Spelled out: for hits `a` before `b`, `comb a > comb b`, or equal and `id a ≤ id b`. -/
theorem C11_order_spelled (c : Cfg α) (tiers : List Nat) (eps : List (Ep α)) :
    (retrieveCore c tiers eps).1.Pairwise
      (fun a b => Num.neg a.2 < Num.neg b.2 ∨ (Num.neg a.2 = Num.neg b.2 ∧ lexLe a.1.id b.1.id = true)) :=
  (C11_order c tiers eps).1.imp (fun h => (keyLe_iff _ _).1 h)

end

section
variable {α : Type} [Num α]

/-! ## Rerank layers only permute -/

/-- Hybrid graph rerank: whatever the configuration and the edge set, a successful call returns
a permutation that keeps position 0 and everything beyond `k_max` in place. -/
theorem C11_hybrid_perm (h : HCfg α) (items : List (Ep α)) (o : HOut (Ep α))
    (ho : hybrid h items = .ok o) :
    o.items.Perm items ∧ o.items.head? = items.head?
      ∧ o.items.drop (min (items.length : Int) h.kMax).toNat
          = items.drop (min (items.length : Int) h.kMax).toNat :=
  hybrid_spec h items o ho

/-- Lexical fusion permutes the candidate ids, for every configuration and every oracle table. -/
theorem C11_fuse_perm (q : QCfg α) (items : List (FItem α)) :
    ((fuse q items).map (·.ref.id)).Perm (items.map (·.ref.id)) := fuse_ids q items

/-- MMR permutes the candidate ids, for every `lambda`, `k` and token sets. -/
theorem C11_mmr_perm (q : QCfg α) (items : List (FItem α)) :
    ((maybeMmr q items).map (·.ref.id)).Perm (items.map (·.ref.id)) := maybeMmr_ids q items

/-- `apply_quality` as a whole is a permutation of its input — for every hybrid / fusion / MMR
configuration and for every failure of a layer (`h.fail`, `q.failFuse`, `q.failMmr1`,
`q.failMmr2` are universally quantified inside `h`, `q`): each layer falls back to its input. -/
theorem C11_apply_quality_perm (h : HCfg α) (q : QCfg α) (retrieved : List (Ep α))
    (hn : (retrieved.map (·.id)).Nodup) : (applyQuality h q retrieved).items.Perm retrieved :=
  applyQuality_perm h q hn

/-- The distinct-ids hypothesis is needed by the id→ref rebuilding: with a repeated id the
rebuild maps both items to the last reference (machine-checked witness at `α = Int`). -/
theorem C11_apply_quality_perm_needs_nodup :
    ∃ (l : List (Ep Int)) (items : List (FItem Int)),
      (items.map (·.ref.id)).Perm (l.map (·.id)) ∧ ¬ (@rebuild Int l items).Perm l := by
  let e1 : Ep Int := ⟨[1], .absent, true, 0, .missing, 0, [], 0, [1], []⟩
  let e2 : Ep Int := ⟨[1], .absent, true, 5, .missing, 0, [], 0, [2], []⟩
  refine ⟨[e1, e2], [⟨e1, 0, none⟩, ⟨e2, 0, none⟩], List.Perm.refl _, ?_⟩
  intro hp
  have h1 : e1 ∈ @rebuild Int [e1, e2] [⟨e1, 0, none⟩, ⟨e2, 0, none⟩] := hp.mem_iff.2 (by simp)
  have h2 : @rebuild Int [e1, e2] [⟨e1, 0, none⟩, ⟨e2, 0, none⟩] = [e2, e2] := by
    simp [rebuild, epById, e1, e2]
  rw [h2] at h1
  have : e1.cos = e2.cos := by
    rcases List.mem_cons.1 h1 with h | h
    · rw [h]
    · rcases List.mem_cons.1 h with h | h
      · rw [h]
      · cases h
  simp [e1, e2] at this

/-! ## The whole stage -/

/-- The final `retrieved` is a permutation of the sorted core retrieval. -/
theorem C11_t2_retrieved_perm (c : Cfg α) (tiers : List Nat) (eps : List (Ep α)) (h : HCfg α)
    (q : QCfg α) (t2k : Option Int) (cap : Int) (graphs : List (List GNode)) :
    (t2 c tiers eps h q t2k cap graphs).retrieved.Perm
      ((retrieveCore c tiers eps).1.map (·.1)) := by
  unfold t2
  simp only
  apply applyQuality_perm
  rw [List.map_map]
  exact C11_ids_nodup c tiers eps

/-- Hence the stage's `retrieved` has at most `k` hits, distinct ids, and every hit is visible
under the owner scope, passes the threshold test and meets a configured tier's rule — for every
rerank configuration and layer failure. -/
theorem C11_t2_retrieved (c : Cfg α) (tiers : List Nat) (eps : List (Ep α)) (h : HCfg α)
    (q : QCfg α) (t2k : Option Int) (cap : Int) (graphs : List (List GNode)) (hk : 1 ≤ c.k) :
    let r := (t2 c tiers eps h q t2k cap graphs).retrieved
    (r.length : Int) ≤ c.k ∧ (r.map (·.id)).Nodup
      ∧ ∀ e ∈ r, e ∈ eps ∧ visible c.owner e = true ∧ passes c.θ e = true
          ∧ ∃ t ∈ tiers, tierOk c eps e t = true := by
  intro r
  have hp := C11_t2_retrieved_perm c tiers eps h q t2k cap graphs
  refine ⟨?_, ?_, ?_⟩
  · show ((t2 c tiers eps h q t2k cap graphs).retrieved.length : Int) ≤ c.k
    rw [hp.length_eq, List.length_map]
    exact C11_len_le_k c tiers eps hk
  · have := (hp.map (·.id)).nodup_iff.2 (by rw [List.map_map]; exact C11_ids_nodup c tiers eps)
    exact this
  · intro e he
    have : e ∈ (retrieveCore c tiers eps).1.map (·.1) := hp.mem_iff.1 he
    obtain ⟨p, hp', rfl⟩ := List.mem_map.1 this
    obtain ⟨a, b, c', d, _⟩ := C11_hit_explained c tiers eps p hp'
    exact ⟨a, b, c', d⟩

/-- Agent scope on the stage's final output. -/
theorem C11_t2_scope_agent (c : Cfg α) (tiers : List Nat) (eps : List (Ep α)) (h : HCfg α)
    (q : QCfg α) (t2k : Option Int) (cap : Int) (graphs : List (List GNode)) (a : Str)
    (hs : c.scope = 1) (ha : c.agent = some a) :
    ∀ e ∈ (t2 c tiers eps h q t2k cap graphs).retrieved, e.ownerStr = a := by
  intro e he
  have := (C11_t2_retrieved_perm c tiers eps h q t2k cap graphs).mem_iff.1 he
  obtain ⟨p, hp', rfl⟩ := List.mem_map.1 this
  exact (C11_scope_agent c tiers eps a hs ha p hp').2

/-- The hits used downstream are the first `max 0 t2_k` of `retrieved` (all when there is no cap). -/
theorem C11_used_is_take (c : Cfg α) (tiers : List Nat) (eps : List (Ep α)) (h : HCfg α)
    (q : QCfg α) (t2k : Option Int) (cap : Int) (graphs : List (List GNode)) :
    (t2 c tiers eps h q t2k cap graphs).used
      = match t2k with
        | none => (t2 c tiers eps h q t2k cap graphs).retrieved
        | some k => (t2 c tiers eps h q t2k cap graphs).retrieved.take (max 0 k).toNat := by
  unfold t2 usedHits
  simp only
  cases t2k with
  | none => rfl
  | some k =>
    simp only
    congr 1
    split <;> omega

/-! ## Residual nudges -/

/-- Residual soundness: every residual id is a labelled node of an active graph whose
lower-cased label occurs in the lower-cased text of a hit that was actually USED. -/
theorem C11_residual_sound (c : Cfg α) (tiers : List Nat) (eps : List (Ep α)) (h : HCfg α)
    (q : QCfg α) (t2k : Option Int) (cap : Int) (graphs : List (List GNode)) :
    ∀ nid ∈ (t2 c tiers eps h q t2k cap graphs).residual,
      ∃ g ∈ graphs, ∃ n ∈ g, n.id = nid ∧ n.label.isEmpty = false
        ∧ ∃ e ∈ (t2 c tiers eps h q t2k cap graphs).used,
            isInfix (lowerAscii n.label) (lowerAscii e.text) = true := by
  intro nid hn
  unfold t2 at hn ⊢
  simp only at hn ⊢
  unfold residual at hn
  rw [mem_isort, mem_dedup] at hn
  rcases resOuter_mem hn with h0 | ⟨e, he, p, hp, h1, _, h3⟩
  · cases h0
  · obtain ⟨g, hg, n, hn', h4, h5, h6⟩ := labelMap_sound graphs p hp
    exact ⟨g, hg, n, hn', h4.trans h1, h5, e, he, h6 ▸ h3⟩

/-- Residual cap, order and uniqueness: at most `max cap 0` nudges (with the proposed fix
`C11_residual_cap_zero.diff`; the unpatched loop emits one nudge for `cap = 0`), strictly sorted
(hence duplicate-free). -/
theorem C11_residual_cap_sorted (c : Cfg α) (tiers : List Nat) (eps : List (Ep α)) (h : HCfg α)
    (q : QCfg α) (t2k : Option Int) (cap : Int) (graphs : List (List GNode)) :
    (((t2 c tiers eps h q t2k cap graphs).residual.length : Int) ≤ max cap 0)
      ∧ (t2 c tiers eps h q t2k cap graphs).residual.Pairwise (fun a b => lexLt a b = true) := by
  unfold t2
  simp only
  unfold residual
  constructor
  · rw [length_isort]
    have h1 := dedup_length (resOuter cap (labelMap graphs)
      (usedHits t2k (applyQuality h q ((retrieveCore c tiers eps).1.map (·.1))).items) [])
    have h2 := resOuter_length (cap := cap) (lm := labelMap graphs)
      (es := usedHits t2k (applyQuality h q ((retrieveCore c tiers eps).1.map (·.1))).items)
      (ch := []) (by simp)
    omega
  · apply sorted_nodup_strict
    · exact isort_pairwise lexLe lexLe_total lexLe_trans _
    · exact ((isort_perm lexLe _).nodup_iff).2 (nodup_dedup _)

end

/-! ## Non-vacuity: a concrete carrier satisfying `NumOrd`, and concrete runs -/

def exEp (i : Nat) (o : Str) (cos : Int) : Ep Int :=
  ⟨[101, i], .str o, true, cos, .valid 0, 0, [99], 1, [97, 112, 112, 108, 101], []⟩
def exCfg : Cfg Int :=
  { scope := 1, agent := some [65], k := 2, θ := 1, days := 0, topM := 1, nowUs := 0, quarters := [],
    cscore := [], alpha := 1, beta := 0, gamma := 0 }
def exH : HCfg Int := ⟨false, true, 1, 1, 0, 0, 0, false, 0, 1, [], false⟩
def exQ : QCfg Int := ⟨true, true, 1, [], true, 0, none, false, true, false⟩
def exEps : List (Ep Int) := [exEp 1 [65] 3, exEp 2 [66] 9, exEp 3 [65] 0, exEp 4 [65] 5, exEp 5 [65] 7]

/-- Non-vacuity: with `k = 2`, agent `A`, θ = 1 the model returns exactly two of A's episodes
(the foreign `e2` with the best cosine and the sub-threshold `e3` are absent; integer fusion scores tie, so ids decide), and one
residual nudge; the hypotheses `1 ≤ k`, `scope = 1`, `agent = some a` are satisfiable. -/
example : ((t2 exCfg [0, 1, 2] exEps exH exQ (some 1) 3 [[⟨[110], [65, 112, 112]⟩]]).retrieved.map (·.id))
    = [[101, 4], [101, 5]] := by decide
example : (t2 exCfg [0, 1, 2] exEps exH exQ (some 1) 3 [[⟨[110], [65, 112, 112]⟩]]).residual = [[110]] := by
  decide
example : (1 : Int) ≤ exCfg.k ∧ exCfg.scope = 1 ∧ exCfg.agent = some [65] := by decide
/-- `hybrid` succeeds on some input (hypothesis of `C11_hybrid_perm`). -/
example : ∃ o, hybrid exH exEps = .ok o := ⟨_, rfl⟩

end Clem.T2

/-! ## The monitors evaluated on the real `T2Result` hold of the model's own output

`monCount … monResidual` (`Clem/Model/T2Mon.lean`) are the Boolean predicates the driver
evaluates on the implementation's output; here they are proved `true` of `t2 …` itself. -/

namespace Clem.T2

open Clem.Py

section
variable {α : Type} [Num α]

theorem C11_mon_count (c : Cfg α) (tiers : List Nat) (eps : List (Ep α)) (h : HCfg α)
    (q : QCfg α) (t2k : Option Int) (cap : Int) (graphs : List (List GNode)) (hk : 1 ≤ c.k) :
    monCount c ((t2 c tiers eps h q t2k cap graphs).retrieved.map Ep.toHit) = true := by
  obtain ⟨h1, h2, _⟩ := C11_t2_retrieved c tiers eps h q t2k cap graphs hk
  unfold monCount
  rw [Bool.and_eq_true, nodupB_iff, List.map_map, List.length_map]
  exact ⟨by simpa using h1, h2⟩

theorem C11_mon_scope (c : Cfg α) (tiers : List Nat) (eps : List (Ep α)) (h : HCfg α)
    (q : QCfg α) (t2k : Option Int) (cap : Int) (graphs : List (List GNode)) (hk : 1 ≤ c.k) :
    monScope c ((t2 c tiers eps h q t2k cap graphs).retrieved.map Ep.toHit) = true := by
  obtain ⟨_, _, h3⟩ := C11_t2_retrieved c tiers eps h q t2k cap graphs hk
  unfold monScope
  cases ho : c.owner with
  | none => rfl
  | some o =>
    simp only [List.all_map, List.all_eq_true]
    intro e he
    have hv := (h3 e he).2.1
    rw [ho] at hv
    have : e.owner = .str o := by simpa [visible] using hv
    simp [Ep.toHit, Ep.ownerStr, this]

theorem C11_mon_used (c : Cfg α) (tiers : List Nat) (eps : List (Ep α)) (h : HCfg α)
    (q : QCfg α) (t2k : Option Int) (cap : Int) (graphs : List (List GNode)) :
    monUsed t2k ((t2 c tiers eps h q t2k cap graphs).retrieved.map Ep.toHit)
      (t2 c tiers eps h q t2k cap graphs).used.length = true := by
  unfold monUsed
  rw [usedHits_map, List.length_map]
  simp [t2]

theorem C11_mon_perm (c : Cfg α) (tiers : List Nat) (eps : List (Ep α)) (h : HCfg α)
    (q : QCfg α) (t2k : Option Int) (cap : Int) (graphs : List (List GNode)) :
    monPerm ((t2 c tiers eps h q t2k cap graphs).pre.map (·.1.id))
      ((t2 c tiers eps h q t2k cap graphs).retrieved.map (·.id)) = true := by
  unfold monPerm
  rw [List.isPerm_iff]
  have hp := (C11_t2_retrieved_perm c tiers eps h q t2k cap graphs).map (·.id)
  rw [List.map_map] at hp
  exact hp.symm

theorem C11_mon_hybrid (h : HCfg α) (items : List (Ep α)) (o : HOut (Ep α))
    (ho : hybrid h items = .ok o) :
    monHybrid h.kMax (items.map (·.id)) (o.items.map (·.id)) = true := by
  obtain ⟨h1, h2, h3⟩ := hybrid_spec h items o ho
  unfold monHybrid
  simp only [Bool.and_eq_true, List.isPerm_iff, List.length_map, beq_iff_eq]
  refine ⟨⟨(h1.map _).symm, ?_⟩, ?_⟩
  · rw [List.head?_map, List.head?_map, h2]
  · rw [← List.map_drop, ← List.map_drop, h3]

theorem C11_mon_residual (c : Cfg α) (tiers : List Nat) (eps : List (Ep α)) (h : HCfg α)
    (q : QCfg α) (t2k : Option Int) (cap : Int) (graphs : List (List GNode)) :
    monResidual t2k cap graphs ((t2 c tiers eps h q t2k cap graphs).retrieved.map Ep.toHit)
      (t2 c tiers eps h q t2k cap graphs).residual = true := by
  obtain ⟨h1, h2⟩ := C11_residual_cap_sorted c tiers eps h q t2k cap graphs
  have h3 := C11_residual_sound c tiers eps h q t2k cap graphs
  unfold monResidual
  rw [Bool.and_eq_true, Bool.and_eq_true, pairwiseB_iff]
  refine ⟨⟨?_, by simpa using h1⟩, h2⟩
  rw [List.all_eq_true]
  intro nid hn
  obtain ⟨g, hg, n, hn', h4, h5, e, he, h6⟩ := h3 nid hn
  unfold residualSound
  rw [List.any_eq_true]
  refine ⟨g, hg, ?_⟩
  rw [List.any_eq_true]
  refine ⟨n, hn', ?_⟩
  rw [usedHits_map]
  simp only [Bool.and_eq_true, beq_iff_eq, Bool.not_eq_true', List.any_map, List.any_eq_true]
  refine ⟨⟨h4, h5⟩, e, ?_, h6⟩
  simpa [t2] using he

end

section
variable {α : Type} [Num α] [LinearOrder α] [NumOrd α]

theorem C11_mon_tier_threshold (c : Cfg α) (tiers : List Nat) (eps : List (Ep α)) (h : HCfg α)
    (q : QCfg α) (t2k : Option Int) (cap : Int) (graphs : List (List GNode)) (hk : 1 ≤ c.k) :
    monTier c tiers eps ((t2 c tiers eps h q t2k cap graphs).retrieved.map Ep.toHit) = true
      ∧ monThreshold c ((t2 c tiers eps h q t2k cap graphs).retrieved.map Ep.toHit) = true := by
  obtain ⟨_, _, h3⟩ := C11_t2_retrieved c tiers eps h q t2k cap graphs hk
  constructor
  · unfold monTier
    simp only [List.all_map, List.all_eq_true]
    intro e he
    obtain ⟨a, b, c', t, ht, d⟩ := h3 e he
    simp only [Function.comp, List.any_eq_true]
    refine ⟨e, a, ?_⟩
    unfold explains
    have hb : Num.beq e.cos e.cos = true := (NumOrd.beq_iff _ _).2 rfl
    simp only [Ep.toHit, beq_self_eq_true, hb, b, c', Bool.true_and, List.any_eq_true]
    exact ⟨t, ht, d⟩
  · unfold monThreshold
    simp only [List.all_map, List.all_eq_true]
    intro e he
    have := (h3 e he).2.2.1
    simp only [passes, Bool.and_eq_true] at this
    exact this.2

theorem C11_mon_order (c : Cfg α) (tiers : List Nat) (eps : List (Ep α)) (h : HCfg α)
    (q : QCfg α) (t2k : Option Int) (cap : Int) (graphs : List (List GNode)) :
    monOrder c eps ((t2 c tiers eps h q t2k cap graphs).pre.map (fun p => p.1.toHit)) = true := by
  unfold monOrder
  rw [pairwiseB_iff, List.pairwise_map]
  obtain ⟨h1, h2⟩ := C11_order c tiers eps
  have hpre : (t2 c tiers eps h q t2k cap graphs).pre = (retrieveCore c tiers eps).1 := by simp [t2]
  rw [hpre]
  refine h1.imp_of_mem ?_
  intro a b ha hb hab
  simp only [Ep.toHit]
  rw [← h2 a ha, ← h2 b hb]
  exact hab

end

end Clem.T2

/-! ## Completeness: nothing that qualifies is dropped while there is room -/

namespace Clem.T2

open Clem.Py

section
variable {α : Type} [Num α]

/-- Retrieval completeness (`k ≥ 1`; episode ids MAY repeat in the memory — `_rank_by_cosine` keeps
one entry per id before the `k` cut): with fewer than `k` hits, every episode that is visible under
the scope, has a vector, meets the threshold and the rule of a configured tier is represented in
`retrieved` by a hit with its id — for every rerank configuration. -/
theorem C11_complete (c : Cfg α) (tiers : List Nat) (eps : List (Ep α)) (h : HCfg α)
    (q : QCfg α) (t2k : Option Int) (cap : Int) (graphs : List (List GNode)) (hk : 1 ≤ c.k)
    (hl : ((t2 c tiers eps h q t2k cap graphs).retrieved.length : Int) < c.k) :
    ∀ e ∈ eps, qualifies c tiers eps e = true →
      ∃ r ∈ (t2 c tiers eps h q t2k cap graphs).retrieved, r.id = e.id := by
  intro e he hq
  have hp := C11_t2_retrieved_perm c tiers eps h q t2k cap graphs
  have hlen : ((retrieveCore c tiers eps).1.length : Int) < c.k := by
    have := hp.length_eq
    rw [List.length_map] at this
    omega
  obtain ⟨r, hr, hid⟩ := retrieveCore_complete c tiers eps hk hlen e he hq
  exact ⟨r, hp.mem_iff.2 hr, hid⟩

/-- … and with distinct episode ids the qualifying episode itself is returned. -/
theorem C11_complete_unique (c : Cfg α) (tiers : List Nat) (eps : List (Ep α)) (h : HCfg α)
    (q : QCfg α) (t2k : Option Int) (cap : Int) (graphs : List (List GNode)) (hk : 1 ≤ c.k)
    (hn : (eps.map (·.id)).Nodup)
    (hl : ((t2 c tiers eps h q t2k cap graphs).retrieved.length : Int) < c.k) :
    ∀ e ∈ eps, qualifies c tiers eps e = true → e ∈ (t2 c tiers eps h q t2k cap graphs).retrieved := by
  intro e he hq
  obtain ⟨r, hr, hid⟩ := C11_complete c tiers eps h q t2k cap graphs hk hl e he hq
  have hre : r ∈ eps := ((C11_t2_retrieved c tiers eps h q t2k cap graphs hk).2.2 r hr).1
  have : r = e := List.inj_on_of_nodup_map hn hre he hid
  rw [← this]; exact hr

theorem C11_mon_complete (c : Cfg α) (tiers : List Nat) (eps : List (Ep α)) (h : HCfg α)
    (q : QCfg α) (t2k : Option Int) (cap : Int) (graphs : List (List GNode)) (hk : 1 ≤ c.k) :
    monComplete c tiers eps ((t2 c tiers eps h q t2k cap graphs).retrieved.map Ep.toHit) = true := by
  unfold monComplete
  by_cases hl : ((t2 c tiers eps h q t2k cap graphs).retrieved.length : Int) < c.k
  · have hc := C11_complete c tiers eps h q t2k cap graphs hk hl
    simp only [Bool.or_eq_true, List.all_eq_true, Bool.not_eq_true', List.any_map, List.any_eq_true]
    right
    intro e he
    by_cases hq : qualifies c tiers eps e = true
    · right
      obtain ⟨r, hr, hid⟩ := hc e he hq
      exact ⟨r, hr, by simp [Ep.toHit, hid]⟩
    · left; simpa using hq
  · simp only [Bool.or_eq_true, decide_eq_true_eq, List.length_map]
    left; omega

/-- Residual completeness: fewer than `max cap 0` nudges ⇒ every labelled node of an active graph
whose lower-cased label occurs in a used hit is represented (same lower-cased label). -/
theorem C11_residual_complete (c : Cfg α) (tiers : List Nat) (eps : List (Ep α)) (h : HCfg α)
    (q : QCfg α) (t2k : Option Int) (cap : Int) (graphs : List (List GNode))
    (hl : ((t2 c tiers eps h q t2k cap graphs).residual.length : Int) < max cap 0) :
    ∀ g ∈ graphs, ∀ n ∈ g, n.label.isEmpty = false →
      (∃ e ∈ (t2 c tiers eps h q t2k cap graphs).used,
        isInfix (lowerAscii n.label) (lowerAscii e.text) = true) →
      ∃ nid ∈ (t2 c tiers eps h q t2k cap graphs).residual, ∃ g' ∈ graphs, ∃ n' ∈ g',
        n'.id = nid ∧ lowerAscii n'.label = lowerAscii n.label := by
  unfold t2 at hl ⊢
  simp only at hl ⊢
  exact residual_complete cap graphs _ hl

end

end Clem.T2

namespace Clem.T2

open Clem.Py

/-- Each tier returns the best `k` distinct ids of what qualifies for it under `(−cosine, id)`: a
qualifying episode is represented by a returned copy of its id that sorts no later (itself when ids
are distinct), or `k` episodes sorting no later were returned instead.  No unique-id hypothesis. -/
theorem C11_tier_topk {α : Type} [Num α] [LinearOrder α] [NumOrd α] (c : Cfg α) (t : Nat)
    (eps : List (Ep α)) (e : Ep α) (hk : 0 ≤ c.k) (ht : t ≤ 2) (he : e ∈ eps)
    (hq : qualifies c [t] eps e = true) :
    (∃ h ∈ searchTier c t eps, h.id = e.id ∧ keyLe (rankKey h) (rankKey e) = true)
      ∨ (((searchTier c t eps).length : Int) = c.k
        ∧ ∀ h ∈ searchTier c t eps, keyLe (rankKey h) (rankKey e) = true) := by
  simp only [qualifies, List.any_cons, List.any_nil, Bool.or_false, Bool.and_eq_true,
    decide_eq_true_eq] at hq
  exact searchTier_topk hk ht he hq.1.1 hq.1.2 hq.2.2

/-- A tier's answer never repeats an episode id, whatever the memory holds (re-added ids do not use
up several of the `k` slots). -/
theorem C11_tier_ids_nodup {α : Type} [Num α] (c : Cfg α) (t : Nat) (eps : List (Ep α)) :
    ((searchTier c t eps).map (·.id)).Nodup := searchTier_ids_nodup c t eps

end Clem.T2

namespace Clem.T2

/-- Non-vacuity of the completeness hypotheses: distinct ids, `k = 10`, fewer than `k` hits, and a
qualifying episode (so `C11_complete` / `C11_tier_topk` have instances). -/
example : (exEps.map (·.id)).Nodup
    ∧ ((t2 { exCfg with k := 10 } [0, 1, 2] exEps exH exQ none 3 []).retrieved.length : Int) < 10
    ∧ qualifies { exCfg with k := 10 } [0, 1, 2] exEps (exEp 5 [65] 7) = true := by decide

/-- Non-vacuity of `C11_residual_complete`: cap 3, one nudge. -/
example : ((t2 exCfg [0, 1, 2] exEps exH exQ (some 1) 3 [[⟨[110], [65, 112, 112]⟩]]).residual.length : Int)
    < max 3 0 := by decide

end Clem.T2

namespace Clem.T2

/-- FULL statement wanted: `|residual| ≤ max residual_cap 0`.  It holds of the repaired loop
(`C11_residual_cap_sorted`).  The loop as found in the repository violates it — machine-checked
witness: `residual_cap_per_turn = 0`, one used hit "apple", one node labelled "App" ⇒ one nudge. -/
theorem C11_residual_cap_unpatched_violates :
    ∃ (cap : Int) (graphs : List (List GNode)) (used : List (Ep Int)),
      ¬ (((resOuterUnpatched cap (labelMap graphs) used []).length : Int) ≤ max cap 0) :=
  ⟨0, [[⟨[110], [65, 112, 112]⟩]], [exEp 1 [65] 3], by decide⟩

/-- What the unpatched loop does satisfy (`_partial`): at most `max cap 1` nudges. -/
theorem C11_residual_cap_unpatched_partial {α : Type} [Num α] (cap : Int) (lm : List (Str × Str))
    (used : List (Ep α)) (ch : List Str) (hl : (ch.length : Int) < max cap 1) :
    ((resOuterUnpatched cap lm used ch).length : Int) ≤ max cap 1 := by
  induction used generalizing ch with
  | nil => simp only [resOuterUnpatched]; omega
  | cons e es ih =>
    unfold resOuterUnpatched
    simp only
    have hin : ((resInner cap (lowerAscii e.text) lm ch).length : Int) ≤ max cap 1 := by
      clear ih
      generalize lowerAscii e.text = t
      induction lm generalizing ch with
      | nil => simp only [resInner]; omega
      | cons p ps ihp =>
        unfold resInner
        split
        · split
          · simp only [List.length_append, List.length_cons, List.length_nil]; omega
          · rename_i h2
            apply ihp
            simp only [List.length_append, List.length_cons, List.length_nil] at h2 ⊢
            omega
        · exact ihp _ hl
    split
    · exact hin
    · rename_i h2
      apply ih
      omega

end Clem.T2

namespace Clem.T2

/-- The tier monitor used on results of the parallel (sharded) path is implied by the full one
(it only waives the global top-m cluster rule), so it too is `true` of the model's output. -/
theorem C11_mon_tier_par {α : Type} [Num α] (c : Cfg α) (tiers : List Nat) (eps : List (Ep α))
    (hits : List (Hit α)) (h : monTier c tiers eps hits = true) :
    monTierPar c tiers eps hits = true := by
  unfold monTier at h
  unfold monTierPar
  rw [List.all_eq_true] at h ⊢
  intro x hx
  have hx' := h x hx
  rw [List.any_eq_true] at hx' ⊢
  obtain ⟨e, he, hex⟩ := hx'
  refine ⟨e, he, ?_⟩
  unfold explains at hex
  unfold explainsPar
  simp only [Bool.and_eq_true, List.any_eq_true] at hex ⊢
  obtain ⟨h1, t, ht, hto⟩ := hex
  refine ⟨h1, t, ht, ?_⟩
  unfold tierOkPar
  split
  · rfl
  · exact hto

end Clem.T2

namespace Clem.T2

/-- The one-entry-per-id step of `_rank_by_cosine` in this model is the function C09's fan-out model
uses (`Clem.ParT2.dedupIds`), seen through `(id, score)`. -/
theorem C11_dedup_same_as_fanout {α : Type} (l : List (Ep α)) :
    (dedupIds l).map Ep.toParHit = Clem.ParT2.dedupIds (l.map Ep.toParHit) := dedupIds_eq_par l

end Clem.T2
