/-
C13 (planner part): `deliberate`, `rag_once`, T2 invocations per turn.
All statements are about the definitions of `Clem/Model/T3.lean` that the driver executes, over an arbitrary
carrier `α` of scores with Python's comparison operators (`PyOrd`); where Python float laws are needed they are
the hypothesis `LawfulPyOrd α` (NaN compares false, `<` = `¬ >=` off NaN, `>=` transitive).
-/
import Clem.Proofs.T3

namespace Clem.Props.C13
open Clem.T3

section anyCarrier
variable {α : Type} [PyOrd α]

/-- **Op cap** (`Delib_cap`): for *every* integer value of the two caps (0 and negative included),
`deliberate` emits at most `max 0 (min perTurn perSlice)` operations. -/
theorem C13_delib_cap (b : Bundle α) :
    ((deliberate b).length : Int) ≤ max 0 (capsOps b) := by
  unfold deliberate
  simp only
  obtain ⟨rest, hshape, hrest⟩ := delib_pre_shape b (capsOps b)
  apply capOps_length
  by_cases h : 0 ≤ capsOps b
  · exact Or.inl h
  · right
    rw [hshape, hrest (by omega)]
    simp

/-- **Speak first** (`Delib_head`): a non-empty plan starts with the Speak op carrying the sorted, de-duplicated
topic labels (≤ 5), the configured token budget, and the intent dictated by the thresholds. -/
theorem C13_delib_head (b : Bundle α) :
    deliberate b = [] ∨ ∃ rest, deliberate b = speakOf b b.sMax :: rest := by
  unfold deliberate
  simp only
  obtain ⟨rest, hshape, _⟩ := delib_pre_shape b (capsOps b)
  obtain ⟨k, hk⟩ := capOps_eq_take (delibRetrieve b (capsOps b) (delibEdit b (capsOps b) [speakOf b b.sMax])) (capsOps b)
  rw [hk, hshape]
  cases k with
  | zero => left; rfl
  | succ k => right; exact ⟨rest.take k, rfl⟩

/-- at most one Speak-led plan is empty only when the cap is ≤ 0 -/
theorem C13_delib_nonempty (b : Bundle α) (h : 1 ≤ capsOps b) : deliberate b ≠ [] := by
  unfold deliberate
  simp only
  obtain ⟨rest, hshape, _⟩ := delib_pre_shape b (capsOps b)
  rw [hshape]
  unfold capOps
  split
  · unfold pyTake
    rw [if_pos (by omega)]
    have : (capsOps b).toNat = (capsOps b).toNat - 1 + 1 := by omega
    rw [this]; simp
  · simp

omit [PyOrd α] in
/-- the Speak op carries at most 5 topic labels, the configured token budget, and (`Delib_pure`) the whole plan is
a function of the bundle alone -/
theorem C13_delib_labels_cap (b : Bundle α) : (topicLabels b).length ≤ 5 := by
  unfold topicLabels
  simp only [List.length_take]
  omega

/-- the intent written into the Speak op, clause by clause -/
theorem C13_intent_summary (τh τl s : α) (l : Bool) (h : PyOrd.ge s τh = true) :
    intentOf τh τl s l = .summary := by
  unfold intentOf; rw [if_pos h]

theorem C13_intent_mid (τh τl s : α) (l : Bool) (h1 : PyOrd.ge s τh = false) (h2 : PyOrd.ge s τl = true) :
    intentOf τh τl s l = if l then .assertion else .ack := by
  unfold intentOf; rw [if_neg (by simp [h1]), if_pos h2]

theorem C13_intent_question (τh τl s : α) (l : Bool) (h1 : PyOrd.ge s τh = false) (h2 : PyOrd.ge s τl = false) :
    intentOf τh τl s l = .question := by
  unfold intentOf; rw [if_neg (by simp [h1]), if_neg (by simp [h2])]

/-- **Retrieve only below the low threshold** (`Delib_retrieve_iff`, "only if" direction, no float laws needed) -/
theorem C13_delib_retrieve_only_if (b : Bundle α) (h : (deliberate b).any Op.isRetrieve = true) :
    PyOrd.lt b.sMax b.tauLow = true := by
  unfold deliberate at h
  simp only at h
  rw [List.any_eq_true] at h
  obtain ⟨o, ho, hr⟩ := h
  have ho := mem_capOps ho
  rcases delibRetrieve_cases b (capsOps b) (delibEdit b (capsOps b) [speakOf b b.sMax]) with ⟨h2, _⟩ | ⟨hlt, _, _⟩
  · rw [h2] at ho
    rcases delibEdit_cases b (capsOps b) [speakOf b b.sMax] with h1 | ⟨_, _, ids, c, h1⟩
    · rw [h1] at ho
      simp at ho; subst ho; simp [speakOf, Op.isRetrieve] at hr
    · rw [h1] at ho
      simp at ho
      rcases ho with ho | ho <;> subst ho <;> simp [speakOf, Op.isRetrieve] at hr
  · exact hlt

/-- **Edits only at or above the low threshold** (`Delib_edit_only_if`) -/
theorem C13_delib_edit_only_if (b : Bundle α) (h : (deliberate b).any Op.isEdit = true) :
    PyOrd.ge b.sMax b.tauLow = true := by
  unfold deliberate at h
  simp only at h
  rw [List.any_eq_true] at h
  obtain ⟨o, ho, hr⟩ := h
  have ho := mem_capOps ho
  rcases delibEdit_cases b (capsOps b) [speakOf b b.sMax] with h1 | ⟨hge, _, _, _, _⟩
  · rcases delibRetrieve_cases b (capsOps b) (delibEdit b (capsOps b) [speakOf b b.sMax]) with ⟨h2, _⟩ | ⟨_, _, h2⟩
    · rw [h2, h1] at ho
      simp at ho; subst ho; simp [speakOf, Op.isEdit] at hr
    · rw [h2, h1] at ho
      simp at ho
      rcases ho with ho | ho <;> subst ho <;> simp [speakOf, retrieveOf, Op.isEdit] at hr
  · exact hge

end anyCarrier

section lawful
variable {α : Type} [PyOrd α] [LawfulPyOrd α]
open LawfulPyOrd

/-- NaN similarity ⇒ the planner asks a question (every comparison with NaN is false) -/
theorem C13_intent_nan (τh τl s : α) (l : Bool) (h : isNaN s = true) : intentOf τh τl s l = .question :=
  C13_intent_question τh τl s l (ge_nan_left s τh h) (ge_nan_left s τl h)

/-- NaN thresholds also give a question -/
theorem C13_intent_nan_thresholds (τh τl s : α) (l : Bool) (hh : isNaN τh = true) (hl : isNaN τl = true) :
    intentOf τh τl s l = .question :=
  C13_intent_question τh τl s l (ge_nan_right s τh hh) (ge_nan_right s τl hl)

/-- **Retrieve iff** (`Delib_retrieve_iff`): a RequestRetrieve is planned exactly when the score is below the low
threshold and the cap leaves room for a second op. -/
theorem C13_delib_retrieve_iff (b : Bundle α) :
    (deliberate b).any Op.isRetrieve = true ↔ (PyOrd.lt b.sMax b.tauLow = true ∧ 2 ≤ capsOps b) := by
  constructor
  · intro h
    have hlt := C13_delib_retrieve_only_if b h
    refine ⟨hlt, ?_⟩
    by_contra hc
    have hc : capsOps b ≤ 1 := by omega
    unfold deliberate at h
    simp only at h
    obtain ⟨rest, hshape, hrest⟩ := delib_pre_shape b (capsOps b)
    rw [List.any_eq_true] at h
    obtain ⟨o, ho, hr⟩ := h
    have ho := mem_capOps ho
    rw [hshape, hrest hc] at ho
    simp at ho; subst ho; simp [speakOf, Op.isRetrieve] at hr
  · rintro ⟨hlt, hc⟩
    have hge := lt_not_ge hlt
    have h1 : delibEdit b (capsOps b) [speakOf b b.sMax] = [speakOf b b.sMax] := by
      unfold delibEdit; rw [hge]; simp
    have h2 : delibRetrieve b (capsOps b) [speakOf b b.sMax] = [speakOf b b.sMax, retrieveOf b] := by
      unfold delibRetrieve; rw [hlt]
      simp
      omega
    unfold deliberate
    simp only
    rw [h1, h2, capOps_of_le (by simp; omega)]
    simp [retrieveOf, Op.isRetrieve]

/-- retrieval and graph edits are never planned together -/
theorem C13_delib_not_both (b : Bundle α) :
    ¬ ((deliberate b).any Op.isRetrieve = true ∧ (deliberate b).any Op.isEdit = true) := by
  rintro ⟨h1, h2⟩
  have := lt_not_ge (C13_delib_retrieve_only_if b h1)
  rw [C13_delib_edit_only_if b h2] at this
  cases this

/-- **Monotone in the score**: a larger similarity never lowers the evidence level of the intent
(question < ack/assertion < summary) … -/
theorem C13_intent_monotone (τh τl s s' : α) (l : Bool) (h : PyOrd.ge s' s = true) :
    (intentOf τh τl s l).rank ≤ (intentOf τh τl s' l).rank := by
  unfold intentOf
  by_cases h1 : PyOrd.ge s τh = true
  · rw [if_pos h1, if_pos (ge_trans s' s τh h h1)]
  · rw [if_neg h1]
    by_cases h2 : PyOrd.ge s τl = true
    · rw [if_pos h2]
      have h2' := ge_trans s' s τl h h2
      by_cases h3 : PyOrd.ge s' τh = true
      · rw [if_pos h3]; cases l <;> simp [Intent.rank]
      · rw [if_neg h3, if_pos h2']
    · rw [if_neg h2]; simp [Intent.rank]

/-- … and never adds a retrieval request (same bundle, larger score). -/
theorem C13_retrieve_antitone (b : Bundle α) (s' : α) (h : PyOrd.ge s' b.sMax = true)
    (hr : (deliberate { b with sMax := s' }).any Op.isRetrieve = true) :
    (deliberate b).any Op.isRetrieve = true := by
  rw [C13_delib_retrieve_iff] at hr ⊢
  exact ⟨lt_of_ge_of_lt h hr.1, hr.2⟩

omit [LawfulPyOrd α] in
/-- the monitor evaluated by the harness on the implementation's ops is a theorem of the model -/
theorem C13_delib_planOk (b : Bundle α) : planOk b (deliberate b) = true := by
  unfold planOk
  have hcap : withinCap b (deliberate b) = true := by
    unfold withinCap; exact decide_eq_true (C13_delib_cap b)
  have hgate : gatesOk b (deliberate b) = true := by
    unfold gatesOk
    have a : (!(deliberate b).any Op.isRetrieve || PyOrd.lt b.sMax b.tauLow) = true := by
      cases hr : (deliberate b).any Op.isRetrieve
      · rfl
      · simp [C13_delib_retrieve_only_if b hr]
    have c : (!(deliberate b).any Op.isEdit || PyOrd.ge b.sMax b.tauLow) = true := by
      cases hr : (deliberate b).any Op.isEdit
      · rfl
      · simp [C13_delib_edit_only_if b hr]
    rw [a, c]; rfl
  rcases C13_delib_head b with h | ⟨rest, h⟩
  · rw [hcap, hgate, h]; rfl
  · rw [hcap, hgate, h]
    simp [headIsSpeak, headIntentOk, speakOf, Op.isSpeak]

end lawful

/-! non-vacuity on the concrete lawful carrier `Option Int` (`none` = NaN; thresholds 8 / 4) -/

def exB (s : Option Int) (ops : Int) (slice : SliceV) : Bundle (Option Int) :=
  { baseOps := ops, slice := slice, tokens := 256, tauHigh := some 8, tauLow := some 4, epsEdit := some 1,
    sMax := s, labelsT1 := [[98], [97], [97]],
    nodes := [⟨[110, 50], none, some (some 5)⟩, ⟨[110, 49], none, some (some (-3))⟩, ⟨[110, 51], none, some (some 0)⟩,
              ⟨[110, 52], none, none⟩],
    owner := .other, kRetrieval := 7 }

example : deliberate (exB (some 2) 3 .missing) =
    [.speak .question [[97], [98]] 256, .retrieve .any 3] := by decide
example : deliberate (exB (some 5) 3 .missing) =
    [.speak .assertion [[97], [98]] 256, .edit [[110, 49], [110, 50]] 2] := by decide
example : deliberate (exB (some 9) 1 .missing) = [.speak .summary [[97], [98]] 256] := by decide
example : deliberate (exB none 3 .missing) = [.speak .question [[97], [98]] 256] := by decide
example : deliberate (exB (some 2) 3 (.int 0)) = [] := by decide
example : deliberate (exB (some 2) (-2) .bad) = [] := by decide
example : (deliberate (exB (some 2) 3 .missing)).any Op.isRetrieve = true ∧
    PyOrd.lt (some 2 : Option Int) (some 4) = true ∧ (2 : Int) ≤ capsOps (exB (some 2) 3 .missing) := by decide

end Clem.Props.C13
