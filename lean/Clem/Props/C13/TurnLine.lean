/-
C13 (whole turn): the line a turn emits — `_sanitize_utterance ∘ speak` / `∘ llm_speak` — stays within the token
budget.  The rewrite rules are the table `Clem.Gen.UtterRules.rules`, regenerated from `_UTTER_SANITIZE_RULES`.
-/
import Clem.Proofs.TurnLine
import Clem.Props.C13.Speak

namespace Clem.Props.C13
open Clem.T3 Clem.Gen.UtterRules

/-- **No rewrite rule can add tokens** (computed over the regenerated table): every replacement is a non-empty text
that starts and ends with a non-space character and has no more whitespace tokens than the token-minimal text its
pattern matches, and no pattern can match a text starting with whitespace. -/
theorem C13_rules_no_growth : rulesOk = true := by decide

/-- one `pattern.sub` replacement never increases the token count -/
theorem C13_step_no_growth (hok : rulesOk = true) {s t : Str} (h : Step s t) :
    (tokenize t).length ≤ (tokenize s).length := by
  cases h with
  | mk r left mid right hr hhead hmin =>
    have hrule : ruleOk r = true := List.all_eq_true.mp hok r hr
    simp only [ruleOk, Bool.and_eq_true, decide_eq_true_eq] at hrule
    obtain ⟨⟨⟨⟨_, _⟩, hrh⟩, hrl⟩, hle⟩ := hrule
    rw [tokenize_length, tokenize_length]
    apply cnt_replace_le left mid r.repl right hhead hrh hrl
    rw [← tokenize_length, ← tokenize_length]; omega

/-- `_sanitize_utterance` (any number of replacements, then `.strip()`) never increases the token count -/
theorem C13_sanitized_no_growth (hok : rulesOk = true) {s u : Str} (h : Sanitized s u) :
    (tokenize u).length ≤ (tokenize s).length := by
  induction h with
  | done s => rw [tokenize_length, tokenize_length, cnt_strip]; exact Nat.le_refl _
  | step hst _ ih => exact Nat.le_trans ih (C13_step_no_growth hok hst)

/-- **The turn's line stays within the budget** (`C13_turn_line_budget`): whatever the template expansion / adapter text,
style prefix and budget source, and whatever segments the rules' patterns match, the line obtained from the
utterance of `speak` by `_sanitize_utterance` has at most `max 0 budget` whitespace tokens. -/
theorem C13_turn_line_budget (core : Str) (ths : Bool) (style : Str) (opTok : Option TokV) (agentTok : Option Int)
    (line : Str) (h : Sanitized (speak core ths style opTok agentTok).text line) :
    withinBudget line (speakBudget opTok agentTok) = true := by
  unfold withinBudget
  apply decide_eq_true
  have h1 := C13_sanitized_no_growth C13_rules_no_growth h
  have h2 := C13_truncate_within (speakUtter core ths style) (speakBudget opTok agentTok)
  unfold speak at h1
  omega

/-- the same for the LLM dialogue backend -/
theorem C13_turn_line_budget_llm (text style : Str) (opTok : Option TokV) (agentTok : Option Int)
    (line : Str) (h : Sanitized (llmSpeak text style opTok agentTok).text line) :
    withinBudget line (speakBudget opTok agentTok) = true := by
  unfold withinBudget
  apply decide_eq_true
  have h1 := C13_sanitized_no_growth C13_rules_no_growth h
  have h2 := C13_truncate_within (llmUtter text style) (speakBudget opTok agentTok)
  unfold llmSpeak at h1
  omega

/-! non-vacuity: "hi i'm qwen" at budget 3 — the first rule rewrites the 2-token match, the line has 2 tokens -/
example : Sanitized (llmSpeak [104, 105, 32, 105, 39, 109, 32, 113, 119, 101, 110] [] (some (.int 3)) none).text
    (strip ([104, 105, 32] ++ [91, 70, 73, 76, 84, 69, 82, 69, 68, 93] ++ [])) := by
  have hs : Step ([104, 105, 32] ++ [105, 39, 109, 32, 113, 119, 101, 110] ++ [])
      ([104, 105, 32] ++ (rules.head!).repl ++ []) :=
    Step.mk rules.head! [104, 105, 32] [105, 39, 109, 32, 113, 119, 101, 110] [] (by decide) (by decide) (by decide)
  exact Sanitized.step hs (Sanitized.done _)

end Clem.Props.C13
