/-
C13 (dialogue part): the utterance never exceeds its token budget.
Tokens are those of `str.split()` on code points (`tokenize`), truncation is `" ".join(toks[:max_tokens])`.
-/
import Clem.Proofs.T3Speak

namespace Clem.Props.C13
open Clem.T3

/-- exact characterisation of `_truncate_to_tokens`: the tokens of the returned text are the first
`max_tokens` tokens of the input (none when `max_tokens ≤ 0`) -/
theorem C13_truncate_tokens (s : Str) (m : Int) :
    tokenize (truncate s m).text = if m ≤ 0 then [] else (tokenize s).take m.toNat := by
  unfold truncate
  simp only
  split
  · rfl
  · rename_i hm
    split
    · rename_i hle
      simp only
      rw [List.take_of_length_le (by omega)]
    · simp only
      apply tokenize_joinSp
      intro t ht
      exact tokenize_isTok s t (List.mem_of_mem_take ht)

/-- **Token budget** (`Speak_budget`): the truncated text has at most `max 0 max_tokens` whitespace tokens … -/
theorem C13_truncate_within (s : Str) (m : Int) :
    ((tokenize (truncate s m).text).length : Int) ≤ max 0 m := by
  rw [C13_truncate_tokens]
  split
  · simp only [List.length_nil]; omega
  · rw [List.length_take]; omega

/-- … the reported token count is the real one … -/
theorem C13_truncate_count_exact (s : Str) (m : Int) :
    (truncate s m).tokens = (tokenize (truncate s m).text).length := by
  rw [C13_truncate_tokens]
  unfold truncate
  simp only
  split
  · rfl
  · split
    · simp only; rw [List.take_of_length_le (by omega)]
    · simp only; rw [List.length_take]; omega

/-- … and `truncated` is reported exactly when tokens were dropped or the budget is ≤ 0 -/
theorem C13_truncate_flag (s : Str) (m : Int) :
    (truncate s m).truncated = true ↔ (m ≤ 0 ∨ m < (tokenize s).length) := by
  unfold truncate
  simp only
  split
  · simp [*]
  · split <;> simp <;> omega

/-- text that already fits is returned unchanged (no re-spacing) -/
theorem C13_truncate_fits (s : Str) (m : Int) (h0 : 0 < m) (h : ((tokenize s).length : Int) ≤ m) :
    (truncate s m).text = s := by
  unfold truncate
  simp only
  rw [if_neg (by omega), if_pos h]

/-- **`speak` stays within its budget**, for every template expansion `core`, style prefix and budget source -/
theorem C13_speak_budget (core : Str) (ths : Bool) (style : Str) (opTok : Option TokV) (agentTok : Option Int) :
    withinBudget (speak core ths style opTok agentTok).text (speakBudget opTok agentTok) = true := by
  unfold withinBudget speak
  exact decide_eq_true (C13_truncate_within _ _)

/-- the same for the LLM dialogue backend, whatever text the adapter returns -/
theorem C13_llm_speak_budget (text style : Str) (opTok : Option TokV) (agentTok : Option Int) :
    withinBudget (llmSpeak text style opTok agentTok).text (speakBudget opTok agentTok) = true := by
  unfold withinBudget llmSpeak
  exact decide_eq_true (C13_truncate_within _ _)

/-- for budgets ≥ 1 (everything the validator admits) this is the plain `tokens ≤ budget` -/
theorem C13_speak_budget_pos (core : Str) (ths : Bool) (style : Str) (opTok : Option TokV) (agentTok : Option Int)
    (h : 1 ≤ speakBudget opTok agentTok) :
    ((tokenize (speak core ths style opTok agentTok).text).length : Int) ≤ speakBudget opTok agentTok := by
  have := C13_truncate_within (speakUtter core ths style) (speakBudget opTok agentTok)
  unfold speak; omega

/-- where the budget comes from: the Speak op's `max_tokens` when truthy (256 when `int()` fails on it),
otherwise the agent's token cap (256 when absent/unreadable) -/
theorem C13_speak_budget_source (i : Int) (a : Option Int) :
    speakBudget (some (.int i)) a = i ∧ speakBudget (some .raises) a = 256 ∧
    speakBudget (some .falsy) a = a.getD 256 ∧ speakBudget none a = a.getD 256 := by
  simp [speakBudget, speakDefaultTokens]

/-- **`max_tokens = 0` quirk** (`Speak_budget_zero_quirk`): a Speak op with `max_tokens = 0` is *falsy*, so the
budget silently falls back to the agent cap and the utterance may have tokens although the op asked for none.
(`deliberate` copies `t3.tokens`, which the validator keeps ≥ 1, so validated configs never get here.) -/
theorem C13_speak_budget_zero_quirk :
    speakBudget (some .falsy) (some 5) = 5 ∧
    (tokenize (speak [97, 32, 98, 32, 99] true [] (some .falsy) (some 5)).text).length = 3 ∧
    ¬ withinBudget (speak [97, 32, 98, 32, 99] true [] (some .falsy) (some 5)).text 0 = true := by decide

/-! non-vacuity -/
example : (truncate [97, 32, 32, 98, 9, 99, 32] 2) = ⟨[97, 32, 98], true, 2⟩ := by decide
example : (truncate [97, 32, 32, 98, 9, 99, 32] 3) = ⟨[97, 32, 32, 98, 9, 99, 32], false, 3⟩ := by decide
example : (truncate [97, 32, 98] 0) = ⟨[], true, 0⟩ := by decide
example : (truncate [97, 32, 98] (-3)) = ⟨[], true, 0⟩ := by decide
example : speak [120, 32, 121] false [115] (some (.int 2)) none = ⟨[115, 124, 32, 120], true, 2⟩ := by decide
example : llmSpeak [115, 124, 32, 120, 32, 121] [115] none (some 2) = ⟨[115, 124, 32, 120], true, 2⟩ := by decide

end Clem.Props.C13
