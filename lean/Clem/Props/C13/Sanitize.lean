/-
C13 (sanitiser part): `parse_and_validate` is total and sound; schema constants and enforcement agree.
`json.loads` is an oracle `parse : Str → Option J` that may fail on any input; limits, key tuples, accepted
words and the `try/except` guard flag are read from `Clem.Gen.T3Consts`, regenerated from the source.
-/
import Clem.Proofs.Sanitize

namespace Clem.Props.C13
open Clem.Sanitize Clem.Gen.T3Consts
open Clem.T3 (Str strip)

/-! ### tables regenerated from the source -/

/-- the documented limits -/
theorem C13_documented_limits :
    PLAN_MAX_ITEMS = 16 ∧ PLAN_ITEM_MAX_LEN = 200 ∧ RATIONALE_MAX_LEN = 2000 ∧ MAX_RAW_LEN = 20000 := by decide

/-- **Schema and enforcement agree**: the limits written in the `PLANNER_V1` schema dict are the constants the
sanitiser compares against, the schema's required / allowed keys are the tuples the sanitiser iterates over, and
every `len(..)` comparison in `parse_and_validate` is `>` against the documented constant (or `== 0`). -/
theorem C13_schema_enforcement_agree :
    schemaPlanMaxItems = PLAN_MAX_ITEMS ∧ schemaItemMaxLen = PLAN_ITEM_MAX_LEN ∧
    schemaRationaleMaxLen = RATIONALE_MAX_LEN ∧ schemaPlanMinItems = 0 ∧ schemaItemMinLen = 1 ∧
    schemaRationaleMinLen = 1 ∧ schemaAdditionalProperties = false ∧ schemaTopIsObject = true ∧
    schemaPlanIsArrayOfString = true ∧ schemaRationaleIsString = true ∧
    schemaRequired = requiredKeys ∧ schemaProperties = allowedKeys ∧
    lenChecks = [(0, 0, (MAX_RAW_LEN : Int)), (1, 0, (MAX_RAW_LEN : Int)), (2, 0, (PLAN_MAX_ITEMS : Int)), (3, 4, 0),
                 (5, 4, 0), (3, 0, (PLAN_ITEM_MAX_LEN : Int)), (4, 4, 0), (4, 0, (RATIONALE_MAX_LEN : Int))] := by
  decide

/-- the key tuples, fence languages, boolean-like words and the `json.loads` guard the model relies on -/
theorem C13_sanitize_tables :
    requiredKeys = [kPlan, kRationale] ∧ allowedKeys = [kPlan, kRationale, kReflection] ∧
    jsonLoadsCalls = 1 ∧ jsonLoadsGuarded = true ∧ fenceLangNoneAllowed = true ∧
    fenceLangs = [[], [106, 115, 111, 110], [106, 115, 111, 110, 99]] ∧
    trueWords = [[116, 114, 117, 101], [116], [121, 101, 115], [121], [49]] ∧
    falseWords = [[102, 97, 108, 115, 101], [102], [110, 111], [110], [48]] := by decide

/-! ### totality -/

/-- **No input makes the sanitiser raise** (`Sanitize_total`): for every argument (string or not) and every
behaviour of `json.loads` (any result, or an exception on any input), `parse_and_validate` returns
`(True, obj)` or `(False, reason)`. -/
theorem C13_sanitize_total (parse : Str → Option J) (text : Option Str) :
    parseAndValidate parse text ≠ .raised := by
  unfold parseAndValidate
  split
  · simp
  · split
    · simp
    · simp only
      split
      · simp
      · split
        · simp
        · split
          · have : jsonLoadsGuarded = true := by decide
            simp [onParseError, this]
          · exact validate_ne_raised _

/-! ### soundness -/

/-- **Sanitiser soundness** (`Sanitize_sound`): whatever is accepted is a JSON *object* whose keys are among
`plan`, `rationale`, `reflection`; `plan` is an array of at most 16 strings, each non-blank and at most 200
code points; `rationale` is a non-empty string of at most 2000 code points; `reflection`, when present, is
boolean-like and is returned coerced; the returned plan / rationale are the parsed ones. -/
theorem C13_sanitize_sound (j : J) (a : Accepted) (h : validate j = .ok a) : WithinLimits j a := by
  cases j with
  | obj kvs =>
    simp only [validate, validateObj] at h
    split at h
    · cases h
    · split at h
      · cases h
      · rename_i hall
        split at h
        · rename_i plan rat hp hr
          obtain ⟨items, hplan, hlen, hbad, h2⟩ := checkPlan_ok h
          obtain ⟨r, hrat, hr0, hr1, h3⟩ := checkRationale_ok h2
          obtain ⟨hrefl, hpl, hra⟩ := checkReflection_ok h3
          subst hplan; subst hrat
          refine ⟨kvs, items, r, rfl, ?_, hp, hlen, ?_, hr, hr0, hr1, hrefl, hpl, hra⟩
          · intro kv hkv
            have := List.find?_eq_none.mp hall kv hkv
            simpa using this
          · intro x hx
            apply itemBad_false
            have := List.any_eq_false.mp hbad x hx
            simpa using this
        · cases h
  | _ => simp [validate] at h

/-- the Boolean monitors the harness evaluates on the implementation's accepted outputs follow -/
theorem C13_sanitize_sound_monitors (j : J) (a : Accepted) (h : validate j = .ok a) :
    acceptable j = true ∧ acceptedWithin a = true := by
  obtain ⟨kvs, items, r, hj, hkeys, hp, hlen, hitems, hr, hr0, hr1, hrefl, hpl, hra⟩ := C13_sanitize_sound j a h
  subst hj
  constructor
  · simp only [acceptable, hp, hr, Bool.and_eq_true, List.all_eq_true, decide_eq_true_eq]
    refine ⟨⟨⟨?_, hlen, ?_⟩, hr0, hr1⟩, ?_⟩
    · intro kv hkv; simpa using hkeys kv hkv
    · intro x hx
      obtain ⟨s, hs, h0, h1⟩ := hitems x hx
      subst hs; simp [itemWithin, h0, h1]
    · rcases hrefl with ⟨hn, _⟩ | ⟨v, hv, hc⟩
      · rw [hn]
      · rw [hv]; simp [boolLike, hc]
  · simp only [acceptedWithin, hpl, hra, Bool.and_eq_true, List.all_eq_true, decide_eq_true_eq, List.length_map]
    refine ⟨⟨⟨hlen, ?_⟩, hr0⟩, hr1⟩
    intro s hs
    simp only [List.mem_map] at hs
    obtain ⟨x, hx, hxs⟩ := hs
    obtain ⟨s', hs', h0, h1⟩ := hitems x hx
    subst hs'; simp only [strOf] at hxs; subst hxs
    exact ⟨h0, h1⟩

/-- **Accepted only if it is a single JSON object**: acceptance requires a `str` of at most 20 000 code points
whose *entire* fence-stripped candidate (bare, or one ``` / ```json / ```jsonc block) is parsed by `json.loads`
into a value that passes the validator — any surrounding prose is part of what `json.loads` must accept. -/
theorem C13_sanitize_accept_only_if (parse : Str → Option J) (text : Option Str) (a : Accepted)
    (h : parseAndValidate parse text = .ok a) :
    ∃ t, text = some t ∧ t.length ≤ MAX_RAW_LEN ∧ langOk (stripFences t).2 = true ∧
      ∃ j, parse (stripFences t).1 = some j ∧ validate j = .ok a ∧ WithinLimits j a := by
  unfold parseAndValidate at h
  split at h
  · cases h
  · rename_i t
    split at h
    · cases h
    · rename_i hlen
      simp only at h
      split at h
      · cases h
      · rename_i hlang
        split at h
        · cases h
        · split at h
          · have : jsonLoadsGuarded = true := by decide
            simp [onParseError, this] at h
          · rename_i j hj
            exact ⟨t, rfl, by omega, by simpa using hlang, j, hj, h, C13_sanitize_sound j a h⟩

/-- the second size guard (`"json block too large"`) is dead code: stripping never lengthens the text, so the
raw-size guard already covers it — the documented 20 000-code-point limit applies to the raw text. -/
theorem C13_sanitize_block_guard_unreachable (parse : Str → Option J) (text : Option Str) :
    parseAndValidate parse text ≠ .rejected .blockTooLarge := by
  unfold parseAndValidate
  split
  · simp
  · rename_i t
    split
    · simp
    · rename_i hlen
      simp only
      split
      · simp
      · split
        · rename_i hblk
          have := stripFences_length_le t
          omega
        · split
          · have : jsonLoadsGuarded = true := by decide
            simp [onParseError, this]
          · rename_i j _
            intro h
            cases j <;> simp [validate] at h
            rename_i kvs
            simp only [validateObj] at h
            split at h
            · simp at h
            · split at h
              · simp at h
              · split at h
                · rename_i plan rat _ _
                  cases plan <;> simp [checkPlan] at h
                  rename_i items
                  split at h
                  · simp at h
                  · split at h
                    · simp at h
                    · cases rat <;> simp [checkRationale] at h
                      rename_i r
                      split at h
                      · simp at h
                      · unfold checkReflection at h
                        split at h
                        · simp at h
                        · split at h <;> simp at h
                · simp at h

/-! ### completeness: the validator accepts exactly the acceptable values -/

/-- **The acceptance set is exactly the documented one**: a parsed value is accepted iff it is `acceptable`
(object, only documented keys, plan/rationale within limits, boolean-like reflection) -/
theorem C13_sanitize_accepts_iff (j : J) : (∃ a, validate j = .ok a) ↔ acceptable j = true := by
  constructor
  · rintro ⟨a, h⟩; exact (C13_sanitize_sound_monitors j a h).1
  · intro h
    cases j with
    | obj kvs =>
      simp only [acceptable, Bool.and_eq_true, List.all_eq_true] at h
      obtain ⟨⟨⟨hkeys, hplan⟩, hrat⟩, hrefl⟩ := h
      split at hplan
      · rename_i items hp
        split at hrat
        · rename_i r hr
          simp only [Bool.and_eq_true, decide_eq_true_eq, List.all_eq_true] at hplan hrat
          have hreq : requiredKeys.find? (fun k => !hasKey k kvs) = none := by
            have hk : requiredKeys = [kPlan, kRationale] := by decide
            rw [hk]
            simp [lookup_hasKey _ _ _ hp, lookup_hasKey _ _ _ hr]
          have hall : kvs.find? (fun kv => !allowedKeys.contains kv.1) = none := by
            rw [List.find?_eq_none]
            intro kv hkv
            simpa using hkeys kv hkv
          have hbad : items.any itemBad = false := by
            rw [List.any_eq_false]
            intro x hx
            simp [itemWithin_not_bad (hplan.2 x hx)]
          simp only [validate, validateObj, hreq, hall, hp, hr, checkPlan, checkRationale]
          rw [if_neg (by omega), if_neg (by simp [hbad]),
            if_neg (by simp only [Bool.or_eq_true, beq_iff_eq, decide_eq_true_eq]; omega)]
          unfold checkReflection
          split at hrefl
          · exact ⟨_, rfl⟩
          · rename_i v hv
            simp only [boolLike, Option.isSome_iff_exists] at hrefl
            obtain ⟨bv, hb⟩ := hrefl
            rw [hb]; exact ⟨_, rfl⟩
        · cases hrat
      · cases hplan
    | _ => simp [acceptable] at h

/-! non-vacuity: an accepted object, and the rejections at each limit + 1 -/

def exObj (n : Nat) (item : Str) (rat : Str) (refl : Option J) : J :=
  .obj ([(kPlan, .arr (List.replicate n (.str item))), (kRationale, .str rat)] ++
        (match refl with | some v => [(kReflection, v)] | none => []))

example : validate (exObj 2 [120] [114] none) = .ok ⟨[[120], [120]], [114], false⟩ := by decide
example : validate (exObj 16 [120] [114] (some (.str [32, 89, 69, 83, 32]))) =
    .ok ⟨List.replicate 16 [120], [114], true⟩ := by decide
example : validate (exObj 17 [120] [114] none) = .rejected .planTooLong := by decide
example : validate (exObj 1 [32, 9] [114] none) = .rejected .planItem := by decide
example : validate (exObj 1 [120] [] none) = .rejected .rationale := by decide
example : validate (exObj 1 [120] [114] (some (.int 2))) = .rejected .reflection := by decide
example : validate (exObj 1 [120] [114] (some .float)) = .rejected .reflection := by decide
example : validate (.arr []) = .rejected .notObject := by decide
example : validate (.obj [(kPlan, .arr []), (kRationale, .str [114]), ([122], .null)]) =
    .rejected (.unknownKey [122]) := by decide
example : validate (.obj [(kPlan, .arr [])]) = .rejected (.missingKey kRationale) := by decide
example : parseAndValidate (fun _ => none) (some [123]) = .rejected .nonJson := by decide
example : parseAndValidate (fun _ => some (exObj 0 [] [114] none)) (some ([96, 96, 96, 106, 115, 111, 110, 10, 123, 125, 10, 96, 96, 96])) =
    .ok ⟨[], [114], false⟩ := by decide
example : parseAndValidate (fun _ => some (exObj 0 [] [114] none)) (some ([96, 96, 96, 112, 121, 10, 123, 125, 10, 96, 96, 96])) =
    .rejected .badFence := by decide
example : stripFences [32, 96, 96, 96, 74, 83, 79, 78, 32, 10, 123, 125, 10, 96, 96, 96, 10] = ([123, 125], some [106, 115, 111, 110]) := by decide
example : parseAndValidate (fun _ => none) none = .rejected .nonString := by decide

end Clem.Props.C13
