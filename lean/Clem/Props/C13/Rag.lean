/-
C13 (retrieval refinement part): `rag_once` and the number of T2 invocations of a turn.
`retrieve` is an arbitrary oracle; the model records every payload handed to it (`calls`).
-/
import Clem.Props.C13.Plan

namespace Clem.Props.C13
open Clem.T3

section anyCarrier
variable {α : Type} [PyOrd α]

/-- **At most one retrieval** (`Rag_once`): whatever the plan and the oracle, `retrieve_fn` is called at most once … -/
theorem C13_rag_calls_le_one (b : Bundle α) (plan : List Op) (r : Owner × Int → List (Hit α)) (used : Bool) :
    (ragOnce b plan r used).calls.length ≤ 1 := by
  unfold ragOnce
  split
  · simp
  · split <;> simp [ragRefine]

/-- … and not at all when the one-shot refinement was already used: the plan comes back unchanged, flagged blocked. -/
theorem C13_rag_blocked (b : Bundle α) (plan : List Op) (r : Owner × Int → List (Hit α)) :
    (ragOnce b plan r true).calls = [] ∧ (ragOnce b plan r true).ops = plan ∧
    (ragOnce b plan r true).ragBlocked = true ∧ (ragOnce b plan r true).ragUsed = false := by
  simp [ragOnce]

/-- the oracle is consulted exactly when refinement is still available and the plan requests retrieval;
the payload is the first request, owner normalised and `k ≥ 1` -/
theorem C13_rag_calls_iff (b : Bundle α) (plan : List Op) (r : Owner × Int → List (Hit α)) (used : Bool) :
    (ragOnce b plan r used).calls.length = 1 ↔ (used = false ∧ plan.any Op.isRetrieve = true) := by
  unfold ragOnce
  cases used
  · cases h : firstRR plan with
    | none =>
      have := (firstRR_none_iff plan).mp h
      simp [this]
    | some rr =>
      have : plan.any Op.isRetrieve = true := by
        cases h2 : plan.any Op.isRetrieve
        · rw [(firstRR_none_iff plan).mpr h2] at h; cases h
        · rfl
      simp [ragRefine, this]
  · simp

theorem C13_rag_payload_k_pos (b : Bundle α) (plan : List Op) (r : Owner × Int → List (Hit α)) (used : Bool) :
    ∀ c ∈ (ragOnce b plan r used).calls, 1 ≤ c.2 ∧ c.1 ≠ Owner.other := by
  rcases ragOnce_cases b plan r used with ⟨_, h⟩ | ⟨_, _, h⟩ | ⟨_, rr, _, h⟩
  · rw [h]; simp
  · rw [h]; simp
  · rw [h]
    intro c hc
    simp only [ragRefine, List.mem_singleton] at hc
    subst hc
    refine ⟨?_, ?_⟩
    · simp only [normPayload]; omega
    · simp only [normPayload]
      cases rr.1 <;> simp [normOwner]

/-- without a retrieval request the plan is returned as is -/
theorem C13_rag_noop (b : Bundle α) (plan : List Op) (r : Owner × Int → List (Hit α)) (used : Bool)
    (h : plan.any Op.isRetrieve = false) :
    (ragOnce b plan r used).ops = plan ∧ (ragOnce b plan r used).calls = [] ∧
    (ragOnce b plan r used).ragUsed = false := by
  unfold ragOnce
  split
  · simp
  · rw [(firstRR_none_iff plan).mpr h]; simp

/-- **Refined plan keeps the cap** (`Rag_cap`), any input plan, non-negative caps -/
theorem C13_rag_cap (b : Bundle α) (plan : List Op) (r : Owner × Int → List (Hit α)) (used : Bool)
    (hc : 0 ≤ capsOps b) (hu : (ragOnce b plan r used).ragUsed = true) :
    ((ragOnce b plan r used).ops.length : Int) ≤ capsOps b := by
  rcases ragOnce_cases b plan r used with ⟨_, h⟩ | ⟨_, _, h⟩ | ⟨_, rr, _, h⟩
  · rw [h] at hu; simp at hu
  · rw [h] at hu; simp at hu
  · rw [h]
    simp only [ragRefine]
    have := capOps_length (ragEdit b (capsOps b) (pymax b.sMax (maxScore (sortHits (r (normPayload rr)))))
      (plan.any Op.isEdit) (replaceFirstSpeak (speakOf b (pymax b.sMax (maxScore (sortHits (r (normPayload rr)))))) plan))
      (capsOps b) (Or.inl hc)
    omega

/-- … and for the planner's own plan the cap holds for every integer cap (negative caps give an empty plan,
which requests nothing) -/
theorem C13_rag_cap_delib (b : Bundle α) (r : Owner × Int → List (Hit α)) (used : Bool) :
    ((ragOnce b (deliberate b) r used).ops.length : Int) ≤ max 0 (capsOps b) := by
  rcases ragOnce_cases b (deliberate b) r used with ⟨_, h⟩ | ⟨_, _, h⟩ | ⟨_, rr, hrr, h⟩
  · rw [h]; exact C13_delib_cap b
  · rw [h]; exact C13_delib_cap b
  · by_cases hc : 0 ≤ capsOps b
    · have hu : (ragOnce b (deliberate b) r used).ragUsed = true := by rw [h]; rfl
      have := C13_rag_cap b (deliberate b) r used hc hu; omega
    · have hlen := C13_delib_cap b
      have hnil : deliberate b = [] := by
        apply List.eq_nil_of_length_eq_zero; omega
      rw [hnil] at hrr; simp [firstRR] at hrr

/-- **Speak stays first** (`Rag_cap`, second half): if the plan starts with Speak, so does the refined plan; when a
refinement happened the head is the Speak op recomputed at the post-retrieval score `post_s_max = max(pre, rag)`. -/
theorem C13_rag_head (b : Bundle α) (plan : List Op) (r : Owner × Int → List (Hit α)) (used : Bool)
    (h : headIsSpeak plan = true) :
    headIsSpeak (ragOnce b plan r used).ops = true ∧
    ((ragOnce b plan r used).ragUsed = true →
      (ragOnce b plan r used).ops = [] ∨
      ∃ t, (ragOnce b plan r used).ops = speakOf b (ragOnce b plan r used).postSMax :: t) := by
  rcases ragOnce_cases b plan r used with ⟨_, h'⟩ | ⟨_, _, h'⟩ | ⟨_, rr, hrr, h'⟩
  · rw [h']; exact ⟨h, by simp⟩
  · rw [h']; exact ⟨h, by simp⟩
  · rw [h']
    simp only [ragRefine]
    generalize hpost : pymax b.sMax (maxScore (sortHits (r (normPayload rr)))) = post
    rcases replaceFirstSpeak_head (speakOf b post) plan h with hnil | ⟨t, ht⟩
    · rw [hnil] at hrr; simp [firstRR] at hrr
    · have hedit : ∃ t', ragEdit b (capsOps b) post (plan.any Op.isEdit) (replaceFirstSpeak (speakOf b post) plan)
          = speakOf b post :: t' := by
        unfold ragEdit
        split
        · rcases withEdit_prefix b (capsOps b) (replaceFirstSpeak (speakOf b post) plan) with h2 | ⟨ids, c, h2⟩
          · exact ⟨t, by rw [h2, ht]⟩
          · exact ⟨t ++ [Op.edit ids c], by rw [h2, ht]; rfl⟩
        · exact ⟨t, ht⟩
      obtain ⟨t', ht'⟩ := hedit
      obtain ⟨k, hk⟩ := capOps_eq_take (ragEdit b (capsOps b) post (plan.any Op.isEdit)
        (replaceFirstSpeak (speakOf b post) plan)) (capsOps b)
      rw [hk, ht']
      cases k with
      | zero => exact ⟨rfl, fun _ => Or.inl rfl⟩
      | succ k => exact ⟨by simp [headIsSpeak, speakOf, Op.isSpeak], fun _ => Or.inr ⟨t'.take k, rfl⟩⟩

/-- the refined score never drops below the pre-retrieval score's evidence: it is `max(pre, rag)` of CPython -/
theorem C13_rag_post (b : Bundle α) (plan : List Op) (r : Owner × Int → List (Hit α)) (rr : Owner × Int)
    (h : firstRR plan = some rr) :
    (ragOnce b plan r false).postSMax = pymax b.sMax (maxScore (sortHits (r (normPayload rr)))) := by
  simp [ragOnce, h, ragRefine]

/-! ### T2 invocations per turn -/

/-- **One retrieval refinement per turn** (`Turn_retrieval_count`): the T2 stage runs at most twice in a turn … -/
theorem C13_turn_t2_le_two (t : TurnIn) (b : Bundle α) (plan : List Op) (r : Owner × Int → List (Hit α)) :
    turnT2Calls t b plan r ≤ 2 := by
  unfold turnT2Calls
  have := C13_rag_calls_le_one b plan r false
  split <;> split <;> omega

/-- … and at most `1 + max_rag_loops` times (for every integer `max_rag_loops`; negative values behave as 0) -/
theorem C13_turn_t2_le_loops (t : TurnIn) (b : Bundle α) (plan : List Op) (r : Owner × Int → List (Hit α)) :
    (turnT2Calls t b plan r : Int) ≤ 1 + max 0 t.maxRagLoops := by
  unfold turnT2Calls
  have := C13_rag_calls_le_one b plan r false
  split <;> split
  all_goals (try rename_i h; simp only [Bool.and_eq_true, decide_eq_true_eq] at h)
  all_goals omega

/-- a cached T2 result and a plan without retrieval request cost no T2 call at all -/
theorem C13_turn_t2_zero (t : TurnIn) (b : Bundle α) (plan : List Op) (r : Owner × Int → List (Hit α))
    (hc : t.cacheHit = true) (hp : plan.any Op.isRetrieve = false) : turnT2Calls t b plan r = 0 := by
  simp [turnT2Calls, hc, hp]

end anyCarrier

/-! non-vacuity, and the stated limit of `Rag_cap`: with a *negative* cap and a hand-made plan, Python's
`new_ops[:caps_ops]` only drops `|caps|` ops from the end (outside validated configs; the planner's own plan is
empty there, `C13_rag_cap_delib`). -/

def exHits : Owner × Int → List (Hit (Option Int)) := fun _ => [⟨[109, 49], some 3⟩, ⟨[109, 50], some 9⟩, ⟨[109, 48], some 9⟩]

example : (ragOnce (exB (some 2) 3 .missing) (deliberate (exB (some 2) 3 .missing)) exHits false).ops =
    [.speak .summary [[97], [98]] 256, .retrieve .any 3, .edit [[110, 49], [110, 50]] 2] := by decide
example : (ragOnce (exB (some 2) 3 .missing) (deliberate (exB (some 2) 3 .missing)) exHits false).calls = [(.any, 3)] := by decide
example : (ragOnce (exB (some 2) 3 .missing) (deliberate (exB (some 2) 3 .missing)) exHits false).retrievedIds =
    [[109, 48], [109, 50], [109, 49]] := by decide
example : (ragOnce (exB (some 2) 2 .missing) (deliberate (exB (some 2) 2 .missing)) exHits false).ops =
    [.speak .summary [[97], [98]] 256, .retrieve .any 3] := by decide
example : (ragOnce (exB (some 2) 3 .missing) (deliberate (exB (some 2) 3 .missing)) exHits true).calls = [] := by decide

theorem C13_rag_cap_negative_caps_counterexample :
    ∃ (b : Bundle (Option Int)) (plan : List Op) (r : Owner × Int → List (Hit (Option Int))),
      capsOps b < 0 ∧ (ragOnce b plan r false).ragUsed = true ∧
      ¬ (((ragOnce b plan r false).ops.length : Int) ≤ max 0 (capsOps b)) :=
  ⟨exB (some 2) (-1) .missing, [.speak .question [] 256, .retrieve .any 3, .other], exHits, by decide⟩

example : turnT2Calls ⟨false, true, false, false, 1⟩ (exB (some 2) 3 .missing)
    (deliberate (exB (some 2) 3 .missing)) exHits = 2 := by decide
example : turnT2Calls ⟨false, true, false, false, 0⟩ (exB (some 2) 3 .missing)
    (deliberate (exB (some 2) 3 .missing)) exHits = 1 := by decide

end Clem.Props.C13
