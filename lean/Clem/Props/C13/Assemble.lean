/-
C13 (bundle assembly): the caps the scheduler and the config ask for are the caps the planner enforces —
`deliberate ∘ assemble_bundle` and `rag_once ∘ assemble_bundle`, for every value of `ctx.slice_budgets`.
-/
import Clem.Props.C13.Rag
import Clem.Model.T3Assemble

namespace Clem.Props.C13
open Clem.T3

/-- **Every integer slice cap is forwarded**, 0 and negatives included; only `None` / absent / unreadable values are not -/
theorem C13_assemble_forwards (i : Int) : forwardSlice (.key (.int i)) = .int i := rfl

theorem C13_assemble_forwards_iff (sb : SliceBudgets) :
    (∃ i, forwardSlice sb = .int i) ↔ ∃ i, sb = .key (.int i) := by
  constructor
  · rintro ⟨i, h⟩
    cases sb with
    | key v => cases v <;> simp [forwardSlice] at h ⊢
    | _ => simp [forwardSlice] at h
  · rintro ⟨i, h⟩; exact ⟨i, by rw [h]; rfl⟩

section
variable {α : Type} [PyOrd α]

omit [PyOrd α] in
/-- the cap the planner computes from the assembled bundle is the requested one -/
theorem C13_assemble_capsOps (perTurn : Int) (sb : SliceBudgets) (rest : Bundle α) :
    capsOps (assembled perTurn sb rest) = requestedCap perTurn sb := by
  cases sb with
  | key v => cases v <;> simp [capsOps, assembled, forwardSlice, requestedCap]
  | _ => simp [capsOps, assembled, forwardSlice, requestedCap]

/-- **Op cap from the ctx** (`Delib_cap` through `assemble_bundle`): a plan made from a ctx has at most
`max 0 (min perTurn sliceBudget)` ops, for every integer slice budget — 0 included — and the per-turn cap alone when
no slice budget is given. -/
theorem C13_assemble_cap (perTurn : Int) (sb : SliceBudgets) (rest : Bundle α) :
    withinRequestedCap perTurn sb (deliberate (assembled perTurn sb rest)) = true := by
  unfold withinRequestedCap
  apply decide_eq_true
  have := C13_delib_cap (assembled perTurn sb rest)
  rw [C13_assemble_capsOps] at this
  exact this

/-- a slice budget of 0 gives the empty plan, whatever the per-turn cap and the evidence -/
theorem C13_assemble_cap_zero (perTurn : Int) (rest : Bundle α) :
    deliberate (assembled perTurn (.key (.int 0)) rest) = [] := by
  have h := C13_delib_cap (assembled perTurn (.key (.int 0)) rest)
  rw [C13_assemble_capsOps] at h
  simp only [requestedCap] at h
  apply List.eq_nil_of_length_eq_zero
  omega

/-- the refined plan of `rag_once` keeps the requested cap as well -/
theorem C13_assemble_rag_cap (perTurn : Int) (sb : SliceBudgets) (rest : Bundle α)
    (r : Owner × Int → List (Hit α)) (used : Bool) :
    withinRequestedCap perTurn sb
      (ragOnce (assembled perTurn sb rest) (deliberate (assembled perTurn sb rest)) r used).ops = true := by
  unfold withinRequestedCap
  apply decide_eq_true
  have := C13_rag_cap_delib (assembled perTurn sb rest) r used
  rw [C13_assemble_capsOps] at this
  exact this

end

example : deliberate (assembled 3 (.key (.int 0)) (exB (some 2) 8 .missing)) = [] := by decide
example : (deliberate (assembled 3 (.key .none) (exB (some 2) 8 .missing))).length = 2 := by decide
example : (deliberate (assembled 3 (.key (.int 1)) (exB (some 2) 8 .missing))).length = 1 := by decide
example : (deliberate (assembled 2 (.key (.int 5)) (exB (some 5) 8 .missing))).length = 2 := by decide
example : (deliberate (assembled 3 .absent (exB (some 2) 8 (.int 0)))).length = 2 := by decide

end Clem.Props.C13
