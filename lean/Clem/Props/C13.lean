/-
C13 — Planning and speaking stay within caps; untrusted plans are sanitised.

  Clem/Props/C13/Plan.lean      deliberate: op cap, Speak first + intent by thresholds (NaN ⇒ question),
                                retrieve-iff / edit-only-if, monotonicity in the score
  Clem/Props/C13/Rag.lean       rag_once: ≤ 1 retrieve call (0 when used), cap + Speak first for the refined plan;
                                T2 invocations per turn ≤ 2 and ≤ 1 + max 0 max_rag_loops
  Clem/Props/C13/Speak.lean     token budget of speak / llm_speak down to str.split / " ".join; max_tokens=0 quirk
  Clem/Props/C13/TurnLine.lean  the line of a turn (`_sanitize_utterance ∘ speak`) stays within the budget, over the regenerated
                                table of utterance rewrite rules
  Clem/Props/C13/Sanitize.lean  parse_and_validate: totality, soundness, schema/enforcement agreement

`Delib_pure` is definitional: `deliberate : Bundle α → List Op` is a function of the bundle alone; that the Python
function does not mutate its argument is a monitor on the real code (harness `no_mutation`, `deterministic`).
-/
import Clem.Props.C13.Plan
import Clem.Props.C13.Rag
import Clem.Props.C13.Speak
import Clem.Props.C13.Sanitize
import Clem.Props.C13.TurnLine
import Clem.Props.C13.Assemble

namespace Clem.Props.C13
open Clem.T3 Clem.Gen.T3Consts

/-- literal defaults the model and the driver use are the ones in the source (regenerated table) -/
theorem C13_planner_defaults :
    defaultOps = 3 ∧ bundleDefaultMaxOps = 3 ∧ forwardedSliceKeys = [[116, 51, 95, 111, 112, 115]] ∧ defaultTokens = 256 ∧ defaultKRetrieval = 64 ∧ Clem.Gen.T3Consts.speakDefaultTokens = [Clem.T3.speakDefaultTokens] ∧
    defaultTauHighBits = 4605380978949069210 ∧ defaultTauLowBits = 4600877379321698714 ∧
    defaultEpsEditBits = 4591870180066957722 := by decide

end Clem.Props.C13
