#!/bin/bash
# tools/try_seeded.sh <seeded-dir> [tier] [extra props...] : apply a seeded change to /repo, run the check(s), undo.
d="$(cd "$1" && pwd)"; tier="${2:-quick}"; shift; shift
prop=$(python3 -c "import json,sys;print(json.load(open('$d/meta.json'))['property'])")
cd /verif
if ! git -C /repo diff --quiet -- clematis configs scripts; then echo "REPO DIRTY, refusing"; exit 3; fi
git -C /repo apply "$d/patch.diff" || { echo "patch does not apply"; exit 3; }
evbak=$(mktemp -d); cp -a /verif/evidence/. "$evbak"/   # evidence must only ever come from runs on the unchanged tree
trap 'git -C /repo checkout -- clematis configs scripts; cp -a "$evbak"/. /verif/evidence/; rm -rf "$evbak"' EXIT
for p in $prop "$@"; do
  out=$(./check "$p" --tier "$tier" 2>&1); rc=$?
  echo "$d $p rc=$rc $(echo "$out" | grep -E '^(VIOLATION|INFRA)' | head -3 | tr '\n' ' ')"
done
