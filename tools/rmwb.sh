#!/bin/bash
# tools/rmwb.sh <pkg> : remove a builder's working copy and its /repo worktree.
pkg="$1"; base=/tmp/wb/$pkg
git -C /repo worktree remove --force "$base/repo" 2>/dev/null
rm -rf "$base"
git -C /repo worktree prune
