#!/bin/bash
# tools/mkwb.sh <pkg> : private working copy of the framework + private worktree of /repo for a builder.
#   /tmp/wb/<pkg>/verif  copy of /verif (built; its own git repo so `git status` lists what you changed)
#   /tmp/wb/<pkg>/repo   detached git worktree of /repo HEAD (mutations, proposed fixes)
set -e
pkg="$1"; [ -n "$pkg" ] || { echo "usage: mkwb.sh <pkg>"; exit 2; }
base=/tmp/wb/$pkg
mkdir -p "$base"
if [ ! -d "$base/verif" ]; then
  rsync -a --exclude .git --exclude replays --exclude '__pycache__' /verif/ "$base/verif/"
  ( cd "$base/verif" && git init -q && git add -A && git -c user.name=wb -c user.email=wb@x commit -qm base )
fi
if [ ! -d "$base/repo" ]; then
  git -C /repo worktree add --detach "$base/repo" HEAD >/dev/null
fi
echo "export CLEMATIS3_REPO=$base/repo"
echo "cd $base/verif"
