#!/bin/bash
# tools/merge_wb.sh <pkg> : copy a builder's added/changed files into /verif (generated/shared files excluded).
set -e
pkg="$1"; src=/tmp/wb/$pkg/verif
cd "$src"
git add -A -n . >/dev/null
base=$(git rev-list --max-parents=0 HEAD | tail -1)
{ git diff --name-only "$base"; git ls-files --others --exclude-standard; } | sort -u | while read f; do
  case "$f" in
    lean/Clem.lean|lean/Driver/Main.lean|MANIFEST.json|harness/fingerprints.json|evidence/*|replays/*|DESIGN.md|known_findings.json|harness/core.py|BUILDING.md|lean/Clem/Gen/*) echo "SKIP $f"; continue;;
  esac
  if [ -d "$f" ]; then
    (cd "$src" && find "$f" -type f ! -name '*.pyc') | while read g; do mkdir -p "/verif/$(dirname "$g")"; cp "$src/$g" "/verif/$g"; echo "COPY $g"; done
  elif [ -f "$f" ]; then mkdir -p "/verif/$(dirname "$f")"; cp "$f" "/verif/$f"; echo "COPY $f"
  else echo "GONE $f"; fi
done
