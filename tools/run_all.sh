#!/bin/bash
# tools/run_all.sh [tier] [seed] : run every claimed check (4 at a time), print one line each
tier="${1:-quick}"; seed="${2:-0}"
cd /verif
ids=$(python3 -c "import json;print(' '.join(c['property_id'] for c in json.load(open('MANIFEST.json'))['checks']))")
mkdir -p /tmp/runall
printf "%s\n" $ids | xargs -P 4 -I{} bash -c "VERIF_SEED=$seed ./check {} --tier $tier > /tmp/runall/{}.$tier.$seed.log 2>&1; echo {} rc=\$? \$(grep -E '^(SUMMARY|VIOLATION|INFRA)' /tmp/runall/{}.$tier.$seed.log | cut -c1-220 | tr '\n' ' ')"
