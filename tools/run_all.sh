#!/bin/bash
# tools/run_all.sh [tier] [seed] : run every claimed check (4 at a time), print one line each
tier="${1:-quick}"; seed="${2:-0}"
here="$(cd "$(dirname "$0")/.." && pwd)"; cd "$here"
ids=$(python3 -c "import json;print(' '.join(c['property_id'] for c in json.load(open('MANIFEST.json'))['checks']))")
out="$here/runall_logs"; mkdir -p "$out"
printf "%s\n" $ids | xargs -P 4 -I{} bash -c "VERIF_SEED=$seed ./check {} --tier $tier > $out/{}.$tier.$seed.log 2>&1; echo {} rc=\$? \$(grep -E '^(SUMMARY|VIOLATION|INFRA)' $out/{}.$tier.$seed.log | cut -c1-220 | tr '\n' ' ')"
