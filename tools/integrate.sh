#!/bin/bash
# tools/integrate.sh <pkg> <Cxx> : merge a builder's files, regenerate, build, run the check for 3 seeds
pkg="$1"; prop="$2"
cd /verif
tools/merge_wb.sh "$pkg" | sed 's/^/  /'
export PYTHONPATH=/verif PYTHONDONTWRITEBYTECODE=1
/venv/bin/python -m harness.extract --update >/dev/null
/venv/bin/python -m harness.manifest
./setup.sh 2>&1 | tail -3
for s in 0 1 2; do VERIF_SEED=$s ./check "$prop" --tier quick 2>&1 | grep -E "^(SUMMARY|VIOLATION|KNOWN|INFRA|NOTE)" | cut -c1-300; done
