#!/bin/bash
# tools/confirm_seeded.sh <out-dir-of-variant> : confirm a seeded change independently in a fresh scratch
# worktree (suite passes with it; demo fails with it and passes without), then keep it under /verif/seeded/<id>/.
src="$1"; id=$(basename "$src")
wt=/tmp/confirm/$id
mkdir -p /tmp/confirm
git -C /repo worktree remove --force "$wt" 2>/dev/null
git -C /repo worktree add --detach "$wt" HEAD >/dev/null 2>&1 || { echo "$id: worktree failed"; exit 3; }
cd "$wt"
demo=$(ls "$src" | grep -E '^(demo|test_demo).*\.py$' | head -1)
rundemo() { if [[ "$demo" == test_* ]]; then PYTHONPATH="$wt" /venv/bin/python -m pytest -q -p no:cacheprovider -x "$src/$demo" >/dev/null 2>&1; else PYTHONPATH="$wt" /venv/bin/python "$src/$demo" >/dev/null 2>&1; fi; echo $?; }
clean_rc=$(rundemo)
git apply "$src/patch.diff" || { echo "$id: patch does not apply"; git -C /repo worktree remove --force "$wt"; exit 3; }
patched_rc=$(rundemo)
suite=$(/venv/bin/python -m pytest -q -p no:cacheprovider --timeout=900 2>&1 | tail -1)
cd /; git -C /repo worktree remove --force "$wt"
ok=0
if [ "$clean_rc" = "0" ] && [ "$patched_rc" != "0" ] && echo "$suite" | grep -q "519 passed" && ! echo "$suite" | grep -q failed; then ok=1; fi
echo "$id: demo_clean_rc=$clean_rc demo_patched_rc=$patched_rc suite='$suite' confirmed=$ok"
if [ $ok = 1 ]; then
  mkdir -p /verif/seeded/$id
  cp "$src/patch.diff" "$src/$demo" /verif/seeded/$id/
  python3 - "$src/meta.json" /verif/seeded/$id/meta.json "$clean_rc" "$patched_rc" "$suite" "$demo" <<'PY'
import json,sys
m=json.load(open(sys.argv[1]))
m["confirmed_by_integrator"]={"how":"fresh scratch worktree of /repo HEAD: demo on clean tree, git apply patch.diff, demo again, full pytest suite","demo":sys.argv[6],"demo_rc_clean":int(sys.argv[3]),"demo_rc_patched":int(sys.argv[4]),"suite_with_patch":sys.argv[5]}
json.dump(m,open(sys.argv[2],"w"),indent=1)
PY
fi
