#!/bin/bash
# tools/run_seeded_all.sh [tier] : run every kept seeded change against the check of its property (and the
# extra checks named in seeded/<id>/also.txt) in a private copy of /verif and a scratch worktree of /repo;
# writes seeded/RESULTS.json in /verif.  Nothing is applied to /repo itself.
tier="${1:-quick}"
base=${SEEDRUN_BASE:-/tmp/seedrun}; rm -rf $base/verif; mkdir -p $base
git -C /repo worktree remove --force $base/repo 2>/dev/null; git -C /repo worktree prune
git -C /repo worktree add --detach $base/repo HEAD >/dev/null 2>&1 || exit 3
rsync -a --exclude .git --exclude replays /verif/ $base/verif/
cd $base/verif
export CLEMATIS3_REPO=$base/repo
res=$base/results.jsonl; : > $res
if [ -n "$SEEDED_LIST" ]; then dirs=$(for i in $SEEDED_LIST; do echo /verif/seeded/$i; done); else dirs=$(ls -d /verif/seeded/${SEEDED_GLOB:-C*_*}); fi
for d in $dirs; do
  id=$(basename $d); prop=$(python3 -c "import json;print(json.load(open('$d/meta.json'))['property'])")
  git -C $base/repo checkout -q -- . ; git -C $base/repo clean -fdq -- clematis configs scripts
  if ! git -C $base/repo apply $d/patch.diff 2>/dev/null; then echo "{\"id\":\"$id\",\"applies\":false}" >> $res; echo "$id patch-does-not-apply"; continue; fi
  also=""; [ -f $d/also.txt ] && also=$(cat $d/also.txt)
  for p in $prop $also; do
    out=$(timeout 2400 ./check $p --tier $tier 2>&1); rc=$?
    v=$(echo "$out" | grep -c '^VIOLATION'); nf=$(echo "$out" | grep '^VIOLATION' | grep -c 'no-failing-input-found')
    echo "{\"id\":\"$id\",\"applies\":true,\"check\":\"$p\",\"tier\":\"$tier\",\"rc\":$rc,\"violation_lines\":$v,\"no_failing_input_found\":$nf}" >> $res
    echo "$id $p rc=$rc violations=$v nofail=$nf"
  done
done
git -C /repo worktree remove --force $base/repo
python3 - <<PY
import json
rows=[json.loads(l) for l in open("$res")]
import os
old=[]
if os.path.exists("/verif/seeded/RESULTS.json"):
    old=json.load(open("/verif/seeded/RESULTS.json")).get("results",[])
new_keys={(r["id"],r.get("check")) for r in rows}
new_ids={r["id"] for r in rows}
rows=[r for r in old if (r["id"],r.get("check")) not in new_keys and not (r["id"] in new_ids and not r.get("applies",True))]+rows
rows.sort(key=lambda r:(r["id"],r.get("check") or ""))
json.dump({"tier":"$tier","note":"each seeded change applied to a scratch worktree of /repo HEAD; checks run with CLEMATIS3_REPO pointing at it","results":rows}, open("/verif/seeded/RESULTS.json","w"), indent=1)
PY
rm -rf $base/verif
