import sys
from harness.core import main

if __name__ == "__main__":
    sys.exit(main(sys.argv[1:]))
