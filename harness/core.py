"""
Core of the Clematis3 verification harness.

One check = (1) regenerate tables from /repo and build the Lean project,
(2) audit the property's theorems (axioms, forbidden tokens),
(3) run the correspondence between the executable Lean models (through the
compiled driver `clemdrv`) and the real implementation, evaluating the property
monitors on the implementation's outputs, (4) decide and write evidence.

Exit codes: 0 = held on everything explored, 1 = VIOLATION printed,
2 = infrastructure problem (never a VIOLATION line).
"""
from __future__ import annotations

import fcntl
import hashlib
import importlib
import json
import os
import random
import re
import shutil
import subprocess
import sys
import tempfile
import time
import traceback
from pathlib import Path
from typing import Any, Callable, Dict, Iterable, List, Optional, Tuple

VERIF = Path(__file__).resolve().parent.parent
REPO = Path(os.environ.get("CLEMATIS3_REPO", "/repo"))
LEAN = VERIF / "lean"
DRIVER = LEAN / ".lake" / "build" / "bin" / "clemdrv"
EVIDENCE = VERIF / "evidence"
REPLAYS = VERIF / "replays"
CORPUS = VERIF / "corpus"
KNOWN = VERIF / "known_findings.json"
GUARD = "CLEMATIS3_VERIF"

ALLOWED_AXIOMS = {"propext", "Classical.choice", "Quot.sound"}
FORBIDDEN = re.compile(
    r"\bsorry\b|\badmit\b|^\s*axiom\s|native_decide|bv_decide|implemented_by|\bunsafe\s|maxHeartbeats\s+0|ofReduceBool"
)

if str(REPO) not in sys.path:
    sys.path.insert(0, str(REPO))


class Infra(Exception):
    """Infrastructure failure: exit 2, never a VIOLATION."""


# --------------------------------------------------------------------------
# build + audit
# --------------------------------------------------------------------------

def _run(cmd, cwd=None, timeout=3600, env=None, inp=None):
    p = subprocess.run(cmd, cwd=cwd, capture_output=True, text=True, timeout=timeout,
                       env=env, input=inp)
    return p.returncode, p.stdout, p.stderr


def regenerate_tables() -> Dict[str, Any]:
    """Run the translator (harness/extract.py) against /repo's working tree."""
    from harness import extract
    return extract.main(REPO, LEAN / "Clem" / "Gen")


def build(prop_id: str, log: Callable[[str], None]) -> Dict[str, Any]:
    """Regenerate Gen tables and build (under a lock: several checks may run in
    parallel).  Returns {ok, driver_ok, props_ok, output, drift}."""
    LEAN.mkdir(exist_ok=True)
    lock_path = LEAN / ".build.lock"
    res: Dict[str, Any] = {"ok": True, "driver_ok": True, "props_ok": True, "output": "", "drift": []}
    with open(lock_path, "w") as lk:
        fcntl.flock(lk, fcntl.LOCK_EX)
        try:
            info = regenerate_tables()
            res["drift"] = info.get("drift", [])
            res["tables"] = info.get("tables", {})
            res["extract_errors"] = info.get("errors", [])
        except Exception as e:  # translator could not read the tree
            res["extract_errors"] = [f"extract.main: {type(e).__name__}: {e}"]
            res["drift"] = []
            log(f"NOTE translator failed: {e}")
        from harness import gen_main
        gen_main.main(LEAN)
        t0 = time.time()
        rc, out, err = _run(["lake", "build", "clemdrv"], cwd=LEAN)
        res["output"] += out + err
        if rc != 0:
            # The full driver links every package's models.  If it no longer builds, build a driver
            # with only the modules this property depends on (DRIVER_MODULES): a break in a file the
            # property does not depend on must not raise an alarm for it.
            global DRIVER
            fb = f"clemdrv_{prop_id.lower()}"
            rc2, out2, err2 = (1, "", "")
            if (LEAN / "Driver" / f"Main{prop_id.upper()}.lean").exists():
                rc2, out2, err2 = _run(["lake", "build", fb], cwd=LEAN)
            if rc2 == 0:
                DRIVER = LEAN / ".lake" / "build" / "bin" / fb
                res["fallback_driver"] = fb
                log(f"NOTE full driver does not build (a package this property does not depend on is broken); using {fb}")
            else:
                res["output"] += out2 + err2
                res["driver_ok"] = False
                res["ok"] = False
        mod = f"Clem.Props.{prop_id}"
        rc, out, err = _run(["lake", "build", mod, "Clem.Audit"], cwd=LEAN)
        res["output"] += out + err
        if rc != 0:
            res["props_ok"] = False
            res["ok"] = False
        res["build_s"] = round(time.time() - t0, 2)
        fcntl.flock(lk, fcntl.LOCK_UN)
    return res


def strip_comments(src: str) -> str:
    # remove /- ... -/ (nested) and -- line comments
    out = []
    i, depth, n = 0, 0, len(src)
    while i < n:
        if src.startswith("/-", i):
            depth += 1
            i += 2
        elif depth and src.startswith("-/", i):
            depth -= 1
            i += 2
        elif depth:
            if src[i] == "\n":
                out.append("\n")
            i += 1
        elif src.startswith("--", i):
            while i < n and src[i] != "\n":
                i += 1
        else:
            out.append(src[i])
            i += 1
    return "".join(out)


def forbidden_tokens() -> List[str]:
    hits = []
    for root in (LEAN / "Clem", LEAN / "Driver"):
        for p in sorted(root.rglob("*.lean")):
            if p.name == "Audit.lean":
                continue
            body = strip_comments(p.read_text())
            for ln, line in enumerate(body.splitlines(), 1):
                if FORBIDDEN.search(line):
                    hits.append(f"{p.relative_to(LEAN)}:{ln}: {line.strip()[:120]}")
    return hits


def audit(prop_id: str) -> Dict[str, Any]:
    """`#print axioms`-style audit of every theorem in Clem.Props.<id>."""
    mod = f"Clem.Props.{prop_id}"
    with tempfile.NamedTemporaryFile("w", suffix=".lean", delete=False, dir=str(LEAN)) as f:
        f.write(f"import Clem.Audit\nimport {mod}\n#audit_module {mod}\n")
        tmp = f.name
    try:
        rc, out, err = _run(["lake", "env", "lean", tmp], cwd=LEAN)
    finally:
        os.unlink(tmp)
    theorems: Dict[str, List[str]] = {}
    count = None
    for line in (out + err).splitlines():
        m = re.match(r".*AUDIT (\S+) \[(.*)\]\s*$", line)
        if m:
            axs = [a.strip() for a in m.group(2).split(",") if a.strip()]
            theorems[m.group(1)] = axs
        m = re.match(r".*AUDIT-COUNT (\d+)", line)
        if m:
            count = int(m.group(1))
    bad = {t: a for t, a in theorems.items() if not set(a) <= ALLOWED_AXIOMS}
    return {"rc": rc, "theorems": theorems, "count": count, "bad_axioms": bad,
            "raw": (out + err)[-4000:] if rc != 0 else ""}


def clem_closure(prop_id: str) -> List[str]:
    """All Clem.* modules that Clem.Props.<id> imports transitively (from the `import` lines)."""
    seen: List[str] = []
    todo = [f"Clem.Props.{prop_id}"]
    while todo:
        m = todo.pop()
        if m in seen:
            continue
        f = LEAN / (m.replace(".", "/") + ".lean")
        if not f.exists():
            continue
        seen.append(m)
        for line in f.read_text().splitlines():
            mm = re.match(r"\s*(?:public\s+)?import\s+(Clem\.[\w.]+)", line)
            if mm:
                todo.append(mm.group(1))
    return sorted(seen)


def leanchecker(prop_id: str) -> Dict[str, Any]:
    """Thorough tier: replay the compiled .olean files of the property's own modules (Props, Proofs,
    Model, Gen, Py it depends on) through Lean's independent re-checker."""
    mods = clem_closure(prop_id)
    t0 = time.time()
    try:
        rc, out, err = _run(["lake", "env", "leanchecker"] + mods, cwd=LEAN, timeout=1800)
    except Exception as e:  # not available / timed out: infrastructure, not a verdict
        return {"modules": len(mods), "rc": None, "error": f"{type(e).__name__}: {e}"}
    return {"modules": len(mods), "rc": rc, "seconds": round(time.time() - t0, 1), "output": (out + err)[-1500:] if rc else ""}


# --------------------------------------------------------------------------
# driver
# --------------------------------------------------------------------------

def run_driver(requests: List[dict], timeout: int = 3600) -> List[dict]:
    """Pipe one JSON request per line to clemdrv, return one response per line."""
    if not requests:
        return []
    if not DRIVER.exists():
        raise Infra(f"driver not built: {DRIVER}")
    data = "\n".join(json.dumps(r, separators=(",", ":"), ensure_ascii=True) for r in requests) + "\n"
    p = subprocess.run([str(DRIVER)], input=data, capture_output=True, text=True, timeout=timeout)
    if p.returncode != 0:
        raise Infra(f"driver exited {p.returncode}: {p.stderr[-2000:]}")
    lines = [l for l in p.stdout.split("\n") if l.strip()]  # not splitlines(): U+2028/U+0085/VT/FF inside JSON strings are not line ends
    if len(lines) != len(requests):
        raise Infra(f"driver returned {len(lines)} lines for {len(requests)} requests: {p.stderr[-500:]}")
    return [json.loads(l) for l in lines]


# floats cross the wire as decimal strings of their IEEE-754 bit pattern
import struct


def f2b(x: float) -> str:
    return str(struct.unpack("<Q", struct.pack("<d", float(x)))[0])


def b2f(s: str) -> float:
    return struct.unpack("<d", struct.pack("<Q", int(s)))[0]


# --------------------------------------------------------------------------
# known findings
# --------------------------------------------------------------------------

def load_known() -> List[dict]:
    if KNOWN.exists():
        return json.loads(KNOWN.read_text()).get("findings", [])
    return []


# --------------------------------------------------------------------------
# components and the check context
# --------------------------------------------------------------------------

class Component:
    """One modelled component: generator, implementation adapter, model request,
    comparison and monitors.  Subclasses override what they need."""

    name = "component"
    #: number of generated cases per tier
    budget = {"quick": 200, "thorough": 5000, "search": 20000}
    #: does a model/impl mismatch on this component break the deciding correspondence?
    deciding = True

    def corpus(self, ctx: "Ctx") -> List[dict]:
        return ctx.load_corpus(self.name)

    def gen(self, rng: random.Random, i: int) -> dict:
        raise NotImplementedError

    def impl(self, case: dict) -> Any:
        raise NotImplementedError

    def request(self, case: dict) -> dict:
        r = {"c": self.name}
        r.update(case)
        return r

    def canon_model(self, case: dict, out: Any) -> Any:
        return out

    def compare(self, case: dict, impl_out: Any, model_out: Any) -> Optional[str]:
        """Return None when they agree, else a short description of the difference."""
        a, b = _canon(impl_out), _canon(self.canon_model(case, model_out))
        if a == b:
            return None
        return first_diff(a, b)

    def monitors(self, case: dict, impl_out: Any) -> List[Tuple[str, bool, str]]:
        """Property predicates evaluated on the implementation's output:
        (monitor name, holds, detail).  `name` is also the classifier key."""
        return []

    def monitor_requests(self, case: dict, impl_out: Any) -> List[Tuple[str, dict]]:
        """Monitors evaluated *by Lean* on implementation outputs: (name, request);
        the driver must answer `true`."""
        return []

    def tags(self, case: dict, impl_out: Any) -> List[str]:
        """Branch tags hit by this case (non-empty ⇒ non-trivial)."""
        return ["default"]

    def shrink(self, case: dict) -> Iterable[dict]:
        """Candidate smaller cases."""
        return []


def _canon(x: Any) -> Any:
    if isinstance(x, tuple):
        return [_canon(v) for v in x]
    if isinstance(x, list):
        return [_canon(v) for v in x]
    if isinstance(x, dict):
        return {str(k): _canon(v) for k, v in sorted(x.items(), key=lambda kv: str(kv[0]))}
    if isinstance(x, float):
        return {"f": f2b(x)}
    return x


def first_diff(a: Any, b: Any, path: str = "") -> str:
    if type(a) != type(b):
        return f"{path or '.'}: impl={json.dumps(a)[:200]} model={json.dumps(b)[:200]}"
    if isinstance(a, dict):
        for k in sorted(set(a) | set(b)):
            if k not in a:
                return f"{path}.{k}: missing in impl (model={json.dumps(b[k])[:200]})"
            if k not in b:
                return f"{path}.{k}: missing in model (impl={json.dumps(a[k])[:200]})"
            if a[k] != b[k]:
                return first_diff(a[k], b[k], f"{path}.{k}")
    if isinstance(a, list):
        if len(a) != len(b):
            return f"{path or '.'}: length impl={len(a)} model={len(b)}: impl={json.dumps(a)[:200]} model={json.dumps(b)[:200]}"
        for i, (x, y) in enumerate(zip(a, b)):
            if x != y:
                return first_diff(x, y, f"{path}[{i}]")
    return f"{path or '.'}: impl={json.dumps(a)[:200]} model={json.dumps(b)[:200]}"


class Ctx:
    def __init__(self, prop_id: str, tier: str, seed: int):
        self.prop = prop_id
        self.tier = tier
        self.seed = seed
        self.t0 = time.time()
        self.scratch = Path(tempfile.mkdtemp(prefix=f"clemverif_{prop_id}_"))
        self.notes: List[str] = []
        self.mismatches: List[dict] = []      # correspondence breaks (deciding)
        self.drifts: List[dict] = []          # exact-model drift on non-deciding components
        self.failures: List[dict] = []        # monitor failures on implementation outputs
        self.known_seen: Dict[str, dict] = {}
        self.proof_breaks: List[str] = []
        self.evaluations = 0
        self.traces = 0
        self.distinct: set = set()
        self.tag_hist: Dict[str, int] = {}
        self.samples: List[Any] = []
        self.per_component: Dict[str, dict] = {}
        self.extra: Dict[str, Any] = {}
        self.known = [k for k in load_known() if k.get("property") == prop_id]
        self.budget_scale = float(os.environ.get("VERIF_BUDGET_SCALE", "1"))

    # -- utilities ---------------------------------------------------------
    def log(self, msg: str) -> None:
        print(msg, flush=True)

    def note(self, msg: str) -> None:
        self.notes.append(msg)
        print(f"NOTE {msg}", flush=True)

    def rng_for(self, name: str) -> random.Random:
        h = hashlib.sha256(f"{self.seed}:{self.prop}:{name}".encode()).digest()
        return random.Random(int.from_bytes(h[:8], "big"))

    def load_corpus(self, comp: str) -> List[dict]:
        d = CORPUS / self.prop
        out = []
        if d.is_dir():
            for p in sorted(d.glob(f"{comp}__*.json")):
                try:
                    out.append(json.loads(p.read_text())["case"])
                except Exception:
                    pass
        return out

    def tmpdir(self, name: str = "d") -> Path:
        p = Path(tempfile.mkdtemp(prefix=name + "_", dir=str(self.scratch)))
        return p

    def cleanup(self) -> None:
        shutil.rmtree(self.scratch, ignore_errors=True)

    # -- recording -----------------------------------------------------------
    def record_case(self, comp: str, case: Any, tags: List[str], validated: bool = True) -> None:
        self.evaluations += 1
        if validated:
            self.traces += 1
        for t in tags:
            self.tag_hist[f"{comp}:{t}"] = self.tag_hist.get(f"{comp}:{t}", 0) + 1
        nontrivial = any(t != "default" for t in tags)
        if nontrivial:
            key = hashlib.sha1(json.dumps(_canon(case), sort_keys=True).encode()).hexdigest()
            self.distinct.add(key)
        pc = self.per_component.setdefault(comp, {"cases": 0, "nontrivial": 0})
        pc["cases"] += 1
        pc["nontrivial"] += 1 if nontrivial else 0
        if len([s for s in self.samples if s.get("component") == comp]) < 2 and nontrivial:
            self.samples.append({"component": comp, "case": _trim(case)})

    def mismatch(self, comp: str, case: Any, diff: str, impl_out: Any = None, model_out: Any = None,
                 deciding: bool = True) -> None:
        rec = {"component": comp, "case": case, "diff": diff, "impl": _canon(impl_out),
               "model": _canon(model_out)}
        (self.mismatches if deciding else self.drifts).append(rec)

    def monitor_fail(self, comp: str, monitor: str, case: Any, detail: str, impl_out: Any = None,
                     key: Optional[str] = None) -> None:
        key = key or f"{self.prop}:{comp}:{monitor}"
        for k in self.known:
            if k.get("status", "open") == "open" and k.get("key") == key:
                if key not in self.known_seen:
                    self.known_seen[key] = {"finding": k, "count": 0, "example": _trim(case)}
                self.known_seen[key]["count"] += 1
                return
        self.failures.append({"component": comp, "monitor": monitor, "key": key, "case": case,
                              "detail": detail, "impl": _canon(impl_out)})

    def proof_break(self, what: str) -> None:
        self.proof_breaks.append(what)


def _trim(x: Any, limit: int = 1500) -> Any:
    s = json.dumps(_canon(x))
    if len(s) <= limit:
        return _canon(x)
    return {"truncated": s[:limit]}


# --------------------------------------------------------------------------
# generic component runner
# --------------------------------------------------------------------------

def run_component(ctx: Ctx, comp: Component, n: Optional[int] = None, rng_name: Optional[str] = None,
                  monitors_only: bool = False) -> None:
    tier = ctx.tier
    if n is None:
        n = int(comp.budget.get(tier, comp.budget["quick"]) * ctx.budget_scale)
    rng = ctx.rng_for(rng_name or comp.name)
    cases = list(comp.corpus(ctx))
    ncorpus = len(cases)
    for i in range(n):
        cases.append(comp.gen(rng, i))
    impl_outs = []
    for c in cases:
        try:
            impl_outs.append(comp.impl(c))
        except Exception as e:
            impl_outs.append({"__raised__": type(e).__name__, "msg": str(e)[:200]})
    if not monitors_only:
        reqs = [comp.request(c) for c in cases]
        resps = run_driver(reqs)
    else:
        resps = [None] * len(cases)
    # Lean-evaluated monitors on implementation outputs
    mon_reqs: List[Tuple[int, str, dict]] = []
    for idx, (c, io) in enumerate(zip(cases, impl_outs)):
        if isinstance(io, dict) and "__raised__" in io:
            continue
        for name, rq in comp.monitor_requests(c, io):
            mon_reqs.append((idx, name, rq))
    mon_resps = run_driver([r for _, _, r in mon_reqs]) if mon_reqs else []
    for (idx, name, rq), rs in zip(mon_reqs, mon_resps):
        ok = rs.get("ok") is True
        if not ok:
            ctx.monitor_fail(comp.name, name, cases[idx], f"Lean monitor returned {json.dumps(rs)[:300]}",
                             impl_outs[idx])
    for idx, (c, io, rs) in enumerate(zip(cases, impl_outs, resps)):
        raised = isinstance(io, dict) and "__raised__" in io
        tags = ["raised:" + io["__raised__"]] if raised else comp.tags(c, io)
        ctx.record_case(comp.name, c, tags, validated=not monitors_only)
        if not monitors_only:
            if "err" in rs:
                mo = {"__model_err__": rs["err"]}
            else:
                mo = rs["ok"]
            d = comp.compare(c, io, mo)
            if d is not None:
                ctx.mismatch(comp.name, c, d, io, mo, deciding=comp.deciding)
        if not raised:
            for name, ok, detail in comp.monitors(c, io):
                if not ok:
                    ctx.monitor_fail(comp.name, name, c, detail, io)
    ctx.per_component.setdefault(comp.name, {"cases": 0, "nontrivial": 0})["corpus"] = ncorpus


def shrink_case(comp: Component, case: dict, still_fails: Callable[[dict], bool], limit: int = 400) -> dict:
    cur = case
    steps = 0
    progress = True
    while progress and steps < limit:
        progress = False
        for cand in comp.shrink(cur):
            steps += 1
            if steps >= limit:
                break
            try:
                if still_fails(cand):
                    cur = cand
                    progress = True
                    break
            except Exception:
                continue
    return cur


def generic_replay(ctx: "Ctx", rec: dict, comps: Dict[str, Component]) -> int:
    """Re-run one recorded case on implementation and model; print the verdict."""
    recs = [rec] if "case" in rec else rec.get("broken_correspondence", [])
    rc = 0
    for r in recs:
        comp = comps.get(r.get("component"))
        if comp is None:
            print(f"REPLAY unknown component {r.get('component')}")
            continue
        case = r["case"]
        try:
            io = comp.impl(case)
        except Exception as e:
            io = {"__raised__": type(e).__name__, "msg": str(e)[:200]}
        rs = run_driver([comp.request(case)])[0]
        mo = rs.get("ok", {"__model_err__": rs.get("err")})
        d = comp.compare(case, io, mo)
        print(f"REPLAY component={comp.name} correspondence={'agrees' if d is None else 'DIFFERS ' + d}")
        if not (isinstance(io, dict) and "__raised__" in io):
            for name, ok, detail in comp.monitors(case, io):
                if not ok:
                    print(f"REPLAY monitor {name} FAILS: {detail}")
                    rc = 1
            mr = comp.monitor_requests(case, io)
            for (name, rq), ans in zip(mr, run_driver([q for _, q in mr])):
                if ans.get("ok") is not True:
                    print(f"REPLAY lean-monitor {name} FAILS: {json.dumps(ans)[:200]}")
                    rc = 1
        else:
            print(f"REPLAY implementation raised {io}")
        if d is not None:
            rc = 1
    if rec.get("broken_proof_obligations"):
        print("REPLAY broken proof obligations recorded:")
        for b in rec["broken_proof_obligations"]:
            print("  " + b[:500])
        rc = 1
    return rc


# --------------------------------------------------------------------------
# main entry
# --------------------------------------------------------------------------

def write_replay(ctx: Ctx, kind: str, rec: dict) -> Path:
    d = REPLAYS / ctx.prop
    d.mkdir(parents=True, exist_ok=True)
    body = {"property": ctx.prop, "kind": kind, "seed": ctx.seed, "tier": ctx.tier}
    body.update(rec)
    h = hashlib.sha1(json.dumps(_canon(body), sort_keys=True).encode()).hexdigest()[:12]
    p = d / f"{kind}_{h}.json"
    p.write_text(json.dumps(_canon(body), indent=1, sort_keys=True))
    return p


def trusted_base(prop_mod) -> List[str]:
    base = [
        "Lean 4.33.0 kernel; axioms per theorem as listed under coverage.theorem_axioms (subset of propext, Classical.choice, Quot.sound; no native_decide/bv_decide, no user axioms, no sorry)",
        "harness/extract.py (AST -> Clem/Gen tables and fingerprints) and the correspondence harness incl. its canonicalisation",
        "hand-written executable models in lean/Clem/Model tied to /repo by differential execution through clemdrv (compiled from the same definitions the theorems are about)",
    ]
    base += list(getattr(prop_mod, "TRUSTED", []))
    return base


def _start_watchdog(prop: str, tier: str, replay: bool) -> None:
    """A check must never hang: past the deadline (VERIF_DEADLINE_S, default 20 min quick / 90 min
    thorough / 10 min replay) report an infrastructure error and exit 2 — never a VIOLATION line."""
    import threading
    try:
        limit = float(os.environ.get("VERIF_DEADLINE_S", "0")) or (600 if replay else 1200 if tier == "quick" else 5400)
    except ValueError:
        limit = 1200

    def _bark():
        print(f"INFRA-ERROR check {prop} exceeded its time limit of {int(limit)} s (hang or overload); no verdict", flush=True)
        os._exit(2)

    t = threading.Timer(limit, _bark)
    t.daemon = True
    t.start()


def main(argv: List[str]) -> int:
    import argparse
    ap = argparse.ArgumentParser()
    ap.add_argument("prop")
    ap.add_argument("--tier", default=os.environ.get("VERIF_TIER", "quick"))
    ap.add_argument("--replay", default=None)
    ap.add_argument("--no-build", action="store_true")
    args = ap.parse_args(argv)
    prop = args.prop.upper()
    tier = args.tier if args.tier in ("quick", "thorough") else "quick"
    try:
        seed = int(os.environ.get("VERIF_SEED", "0"))
    except ValueError:
        seed = 0
    os.environ[GUARD] = "1"
    os.environ.setdefault("CI", "true")
    ctx = Ctx(prop, tier, seed)
    _start_watchdog(prop, tier, bool(args.replay))
    os.environ["CLEMATIS_LOG_DIR"] = str(ctx.scratch / "logs")
    os.environ["CLEMATIS_LOGS_DIR"] = str(ctx.scratch / "logs")
    try:
        try:
            return _main(ctx, args)
        except Infra as e:
            print(f"INFRA-ERROR {e}", flush=True)
            return 2
        except Exception:
            traceback.print_exc()
            print("INFRA-ERROR unexpected exception in harness", flush=True)
            return 2
    finally:
        ctx.cleanup()
        if DRIVER.name != "clemdrv":
            try:
                DRIVER.unlink()
            except OSError:
                pass


def _main(ctx: Ctx, args) -> int:
    prop = ctx.prop
    try:
        mod = importlib.import_module(f"harness.props.{prop.lower()}")
    except ModuleNotFoundError as e:
        raise Infra(f"no harness module for {prop}: {e}")

    if args.replay:
        rec = json.loads(Path(args.replay).read_text())
        if not args.no_build:
            build(prop, ctx.log)
        return mod.replay(ctx, rec)

    # 1. tables + build
    if args.no_build:
        b = {"ok": True, "driver_ok": True, "props_ok": True, "output": "", "drift": [], "build_s": 0}
    else:
        b = build(prop, ctx.log)
    for d in b.get("drift", []):
        if prop in d.get("properties", [prop]):
            ctx.note(f"model-drift {d['what']} (source of a hand-modelled function changed; correspondence decides)")
    # a table generator that can no longer read the source breaks the tie for the properties whose
    # module lists it under TABLES (harness/tables/<name>.py); for the others it is only a note
    for e in b.get("extract_errors", []):
        tname = e.split(".", 1)[0]
        from harness.gen_main import _wiring
        tabs = getattr(mod, "TABLES", None) or _wiring().get(prop.lower(), {}).get("tables", [])
        if tname in tabs or tname == "extract":
            ctx.proof_break(f"translator could not regenerate table from the current source: {e}")
        else:
            ctx.note(f"translator error in a table this property does not use: {e[:200]}")
    if not b["driver_ok"]:
        # the models themselves no longer build (a generated table broke a model file)
        ctx.proof_break("lake build clemdrv failed:\n" + b["output"][-3000:])
    if not b["props_ok"]:
        ctx.proof_break(f"lake build Clem.Props.{prop} failed:\n" + b["output"][-3000:])

    # 2. audit
    aud = {"theorems": {}, "count": 0, "bad_axioms": {}}
    if b["props_ok"]:
        aud = audit(prop)
        if aud["rc"] != 0 or aud["count"] is None:
            ctx.proof_break("axiom audit did not run: " + aud.get("raw", "")[-1500:])
        for t, a in aud["bad_axioms"].items():
            ctx.proof_break(f"theorem {t} depends on disallowed axioms {a}")
    forb = forbidden_tokens()
    for h in forb:
        ctx.proof_break(f"forbidden token: {h}")
    lc = None
    if ctx.tier == "thorough" and b["props_ok"]:
        lc = leanchecker(prop)
        if lc.get("rc") not in (0, None):
            ctx.proof_break("leanchecker rejected a compiled module: " + lc.get("output", "")[-800:])
        ctx.extra["leanchecker"] = {k: v for k, v in lc.items() if k != "output"}

    # 3. correspondence + monitors
    if b["driver_ok"]:
        mod.run(ctx)
        if (ctx.mismatches or ctx.proof_breaks) and not ctx.failures:
            # failing-input search: thorough budget, other seeds, monitors on impl
            ctx.log("SEARCH correspondence/proof break without a failing input yet: escalating budgets")
            saved = ctx.tier
            ctx.tier = "search"
            try:
                mod.run(ctx)
            finally:
                ctx.tier = saved
    else:
        # no driver: monitors on the implementation only
        if hasattr(mod, "run_monitors_only"):
            mod.run_monitors_only(ctx)

    # 4. decide
    obligations = (aud.get("count") or 0) + len(getattr(mod, "EXTRA_OBLIGATIONS", []))
    discharged = obligations if not ctx.proof_breaks else max(
        0, (aud.get("count") or 0) - len(aud.get("bad_axioms", {})))
    if ctx.proof_breaks and discharged == obligations:
        discharged = max(0, obligations - 1)
    rc = 0
    lines = []
    for key, ks in sorted(ctx.known_seen.items()):
        lines.append(f"KNOWN-FINDING: property={prop} {ks['finding'].get('what_fails', key)} [key={key}, seen {ks['count']}x]")
    seen_keys = set()
    for f in ctx.failures:
        if f["key"] in seen_keys:
            continue
        seen_keys.add(f["key"])
        p = write_replay(ctx, "failing_input", f)
        lines.append(f"VIOLATION property={prop} replay={p}")
        rc = 1
    if rc == 0 and (ctx.mismatches or ctx.proof_breaks):
        rec = {"broken_proof_obligations": ctx.proof_breaks[:5],
               "broken_correspondence": [
                   {"component": m["component"], "diff": m["diff"], "case": m["case"],
                    "impl": m["impl"], "model": m["model"]} for m in ctx.mismatches[:3]],
               "theorems_no_longer_tied": sorted(aud.get("theorems", {}).keys()),
               "note": "no input violating a property monitor was found; the model the theorems are about no longer describes the code (or a proof obligation no longer checks)"}
        p = write_replay(ctx, "untied", rec)
        lines.append(f"VIOLATION property={prop} replay={p} no-failing-input-found")
        rc = 1
    for d in ctx.drifts[:5]:
        ctx.note(f"exact-model-drift {d['component']}: {d['diff'][:200]}")

    # 5. evidence
    wall = round(time.time() - ctx.t0, 2)
    cov = {
        "obligations": obligations,
        "discharged": discharged,
        "checker_cmd": f"cd lean && lake build Clem.Props.{prop} && lake env lean <#audit_module Clem.Props.{prop}>",
        "trusted_base": trusted_base(mod),
        "theorem_axioms": aud.get("theorems", {}),
        "forbidden_token_hits": forb,
        "evaluations": ctx.evaluations,
        "distinct_nontrivial": len(ctx.distinct),
        "traces_validated_against_impl": ctx.traces,
        "rule": getattr(mod, "RULE", "seeded generators; a case is non-trivial when it hits at least one non-default branch tag; distinct by canonical JSON"),
        "samples": ctx.samples[:8] or [{"note": "no cases run"}],
        "branch_histogram": dict(sorted(ctx.tag_hist.items())),
        "per_component": ctx.per_component,
        "correspondence_mismatches": len(ctx.mismatches),
        "exact_model_drifts": len(ctx.drifts),
        "monitor_failures": len(ctx.failures),
        "known_findings_seen": {k: v["count"] for k, v in ctx.known_seen.items()},
        "model_drift_notes": ctx.notes,
        "build_s": b.get("build_s"),
        "tables": b.get("tables", {}),
    }
    cov.update(ctx.extra)
    ev = {
        "property_id": prop,
        "tier": ctx.tier,
        "seed": ctx.seed,
        "level": "proof",
        "coverage": cov,
        "assumptions": list(getattr(mod, "ASSUMPTIONS", [])),
        "wall_s": wall,
        "violations": sum(1 for l in lines if l.startswith("VIOLATION")),
    }
    EVIDENCE.mkdir(exist_ok=True)
    tmp = EVIDENCE / f".{prop}.json.tmp{os.getpid()}"
    tmp.write_text(json.dumps(ev, indent=1, sort_keys=True))
    os.replace(tmp, EVIDENCE / f"{prop}.json")
    for l in lines:
        print(l, flush=True)
    print(f"SUMMARY property={prop} tier={ctx.tier} seed={ctx.seed} obligations={obligations} discharged={discharged} "
          f"cases={ctx.evaluations} nontrivial={len(ctx.distinct)} mismatches={len(ctx.mismatches)} "
          f"monitor_failures={len(ctx.failures)} known={len(ctx.known_seen)} wall={wall}s rc={rc}", flush=True)
    return rc
