"""Generated table for C08: every file-writing call site of the durable-file modules and
whether it goes through the atomic helper; the name patterns used by snapshot discovery /
log readers / rotation; the retry constants of `atomic_replace`; the shape of `_make_tmp`'s
temp name.  -> lean/Clem/Gen/AtomicCallers.lean (theorems in Props/C08 `decide` over it)."""
from __future__ import annotations

import ast
import errno as _errno
import re
from pathlib import Path

from harness.extract import table

#: modules whose files are "durable artefacts" written through the atomic path
DURABLE_MODULES = ["clematis/engine/snapshot.py", "clematis/io/log.py"]
#: modules scanned for name patterns that discover / read / rotate those artefacts
PATTERN_MODULES = ["clematis/engine/snapshot.py", "clematis/io/log.py", "clematis/scripts/rotate_logs.py",
                   "clematis/scripts/export_logs_for_frontend.py", "clematis/engine/stages/t3/legacy.py"]
#: functions the property names as callers
NAMED_CALLERS = [("clematis/engine/snapshot.py", "write_snapshot"),
                 ("clematis/engine/snapshot.py", "_write_lines"),
                 ("clematis/engine/snapshot.py", "_write_sidecar_meta"),
                 ("clematis/io/log.py", "rewrite_jsonl")]

ATOMIC_FUNCS = {"atomic_write_text", "atomic_write_bytes", "atomic_write_json", "atomic_replace"}
KIND = {"atomic": 0, "append": 1, "raw_open": 2, "write_text": 3, "rename": 4, "unknown": 5}


def _call_name(f: ast.AST) -> str:
    if isinstance(f, ast.Name):
        return f.id
    if isinstance(f, ast.Attribute):
        return _call_name(f.value) + "." + f.attr
    return "?"


def _open_mode(call: ast.Call):
    mode = None
    if len(call.args) >= 2:
        mode = call.args[1]
    for kw in call.keywords:
        if kw.arg == "mode":
            mode = kw.value
    if mode is None:
        return "r"
    if isinstance(mode, ast.Constant) and isinstance(mode.value, str):
        return mode.value
    return None  # dynamic


def classify(call: ast.Call):
    """-> kind name or None (not a file-writing call)."""
    name = _call_name(call.func)
    last = name.split(".")[-1]
    if last in ATOMIC_FUNCS:
        return "atomic"
    if name in ("open", "io.open", "codecs.open", "os.fdopen", "gzip.open", "bz2.open", "lzma.open") or \
            (last == "open" and isinstance(call.func, ast.Attribute) and name not in ("os.open",)):
        m = _open_mode(call)
        if m is None:
            return "unknown"
        if not any(ch in m for ch in "wax+"):
            return None
        if "a" in m and "w" not in m and "+" not in m:
            return "append"
        return "raw_open"
    if name == "os.open":
        return "unknown"
    if last in ("write_text", "write_bytes"):
        return "write_text"
    if name in ("os.replace", "os.rename", "os.renames", "shutil.move", "shutil.copy", "shutil.copy2",
                "shutil.copyfile", "os.link", "os.symlink", "os.truncate") or last in ("rename", "replace") and \
            isinstance(call.func, ast.Attribute) and _call_name(call.func.value) in ("os", "shutil"):
        return "rename"
    if last in ("NamedTemporaryFile", "mkstemp", "TemporaryFile"):
        return "unknown"
    return None


def scan_sites(repo: Path):
    sites = []
    for fid, rel in enumerate(DURABLE_MODULES):
        tree = ast.parse((repo / rel).read_text())
        # map each call to its enclosing top-level function
        for top in ast.walk(tree):
            if not isinstance(top, (ast.FunctionDef, ast.AsyncFunctionDef)):
                continue
            for node in ast.walk(top):
                if isinstance(node, ast.Call):
                    k = classify(node)
                    if k is not None:
                        sites.append((fid, rel, top.name, node.lineno, k))
        # module-level calls
        for node in tree.body:
            if isinstance(node, (ast.FunctionDef, ast.AsyncFunctionDef, ast.ClassDef)):
                continue
            for sub in ast.walk(node):
                if isinstance(sub, ast.Call):
                    k = classify(sub)
                    if k is not None:
                        sites.append((fid, rel, "<module>", sub.lineno, k))
    # nested functions are visited twice by ast.walk(top) – dedupe on (file, line, kind), keep innermost name
    seen = {}
    for s in sites:
        seen[(s[0], s[3], s[4])] = s
    return sorted(seen.values(), key=lambda s: (s[0], s[3]))


_SUFFIX = re.compile(r"^\*?[A-Za-z0-9_\-*]*((?:\.[A-Za-z0-9]+)+)$")


def scan_suffixes(repo: Path):
    """String literals that are used as file-name suffix patterns: `.endswith("…")`, `suffix in {…}`
    / `suffix == "…"`, f-string tails and glob patterns beginning with a dot-extension."""
    out = {}
    for rel in PATTERN_MODULES:
        p = repo / rel
        if not p.exists():
            continue
        tree = ast.parse(p.read_text())
        for node in ast.walk(tree):
            lits = []
            if isinstance(node, ast.Call) and isinstance(node.func, ast.Attribute) and node.func.attr == "endswith":
                for a in node.args:
                    if isinstance(a, ast.Constant) and isinstance(a.value, str):
                        lits.append(a.value)
                    if isinstance(a, ast.Tuple):
                        lits += [e.value for e in a.elts if isinstance(e, ast.Constant) and isinstance(e.value, str)]
            elif isinstance(node, ast.JoinedStr):
                # constant tail of an f-string, e.g. f"{stem}.json.zst"
                if node.values and isinstance(node.values[-1], ast.Constant) and isinstance(node.values[-1].value, str):
                    lits.append(node.values[-1].value)
            elif isinstance(node, ast.Compare):
                names = [_call_name(node.left)] if isinstance(node.left, (ast.Name, ast.Attribute)) else []
                if any("suffix" in n for n in names):
                    for c in node.comparators:
                        if isinstance(c, ast.Constant) and isinstance(c.value, str):
                            lits.append(c.value)
                        if isinstance(c, (ast.Set, ast.Tuple, ast.List)):
                            lits += [e.value for e in c.elts if isinstance(e, ast.Constant) and isinstance(e.value, str)]
            elif isinstance(node, ast.Constant) and isinstance(node.value, str) and "*" in node.value:
                lits.append(node.value)  # glob patterns
            elif isinstance(node, ast.BinOp) and isinstance(node.op, ast.Add) and isinstance(node.right, ast.Constant) \
                    and isinstance(node.right.value, str):
                lits.append(node.right.value)  # p + ".meta"
            for lit in lits:
                m = _SUFFIX.match(lit)
                if m and len(lit) <= 24:
                    out.setdefault(m.group(1), set()).add(rel)
    return out


def scan_atomic(repo: Path):
    tree = ast.parse((repo / "clematis/io/atomic.py").read_text())
    info = {"retries": None, "errnos": [], "perm_retry": False, "prefix_ok": False, "dir_ok": False,
            "delete_false": False, "awb_passes_retries": False}
    for fn in ast.walk(tree):
        if isinstance(fn, ast.FunctionDef) and fn.name == "atomic_replace":
            for a, d in zip(fn.args.kwonlyargs, fn.args.kw_defaults):
                if a.arg == "retries" and isinstance(d, ast.Constant):
                    info["retries"] = int(d.value)
            for node in ast.walk(fn):
                if isinstance(node, ast.Compare) and any(isinstance(o, ast.NotIn) for o in node.ops):
                    for c in node.comparators:
                        if isinstance(c, ast.Set):
                            for e in c.elts:
                                if isinstance(e, ast.Attribute) and hasattr(_errno, e.attr):
                                    info["errnos"].append(getattr(_errno, e.attr))
                if isinstance(node, ast.ExceptHandler) and isinstance(node.type, ast.Name) and node.type.id == "PermissionError":
                    # retried iff the handler does not break/raise/return
                    info["perm_retry"] = not any(isinstance(x, (ast.Break, ast.Raise, ast.Return)) for x in ast.walk(node))
        if isinstance(fn, ast.FunctionDef) and fn.name == "_make_tmp":
            for node in ast.walk(fn):
                if isinstance(node, ast.Call) and _call_name(node.func).endswith("NamedTemporaryFile"):
                    for kw in node.keywords:
                        src = ast.unparse(kw.value)
                        if kw.arg == "prefix":
                            info["prefix_ok"] = src in ("final_path.name + '.'",)
                        if kw.arg == "dir":
                            info["dir_ok"] = src in ("str(final_path.parent)", "final_path.parent")
                        if kw.arg == "delete":
                            info["delete_false"] = src == "False"
        if isinstance(fn, ast.FunctionDef) and fn.name == "atomic_write_bytes":
            for node in ast.walk(fn):
                if isinstance(node, ast.Call) and _call_name(node.func) == "atomic_replace":
                    info["awb_passes_retries"] = any(kw.arg == "retries" for kw in node.keywords) or len(node.args) > 2
    return info


def _codes(s: str) -> str:
    return "[" + ", ".join(str(ord(c)) for c in s) + "]"


@table
def gen(repo: Path):
    import tempfile
    sites = scan_sites(repo)
    suff = scan_suffixes(repo)
    at = scan_atomic(repo)
    chars = getattr(tempfile._RandomNameSequence, "characters", "")
    rlen = len(next(tempfile._get_candidate_names()))
    callers = []
    for rel, fn in NAMED_CALLERS:
        mine = [s for s in sites if s[1] == rel and s[2] == fn]
        callers.append((rel, fn, any(s[4] == "atomic" for s in mine), all(s[4] == "atomic" for s in mine)))
    L = []
    L.append("/-\nGENERATED by harness/tables/atomic_callers.py from the repository under test — do not edit.\n"
             "File-writing call sites of the durable-file modules, discovery name patterns, retry constants.\n-/")
    L.append("namespace Clem.Gen.AtomicCallers\n")
    L.append("/-- kind: 0 = via the atomic helper, 1 = append-mode open (log append, C16), 2 = raw write-mode open,\n"
             "3 = Path.write_text/bytes, 4 = direct rename/copy, 5 = not classifiable -/")
    L.append("structure Site where\n  file : Nat\n  line : Nat\n  kind : Nat\nderiving DecidableEq, Repr\n")
    L.append("def sites : List Site := [")
    rows = []
    for fid, rel, fn, line, k in sites:
        rows.append(f"  ⟨{fid}, {line}, {KIND[k]}⟩  -- {rel}:{fn} ({k})")
    # commas must precede comments
    L.append(",\n".join(r.split("  --")[0] + ("" if i == len(rows) - 1 else "") for i, r in enumerate(rows)))
    L.append("]\n")
    L.append("/- sites, readable:\n" + "\n".join(r for r in rows) + "\n-/\n")
    L.append("/-- (has at least one atomic write, every write is atomic) for write_snapshot, _write_lines, "
             "_write_sidecar_meta, rewrite_jsonl -/")
    L.append("def namedCallers : List (Bool × Bool) := [" + ", ".join(
        f"({str(a).lower()}, {str(b).lower()})" for _, _, a, b in callers) + "]\n")
    L.append("/-- file-name suffix patterns used by snapshot discovery, sidecar lookup, log readers and rotation -/")
    L.append("def discoverySuffixes : List (List Nat) := [")
    srows = [f"  {_codes(s)}" for s in sorted(suff)]
    L.append(",\n".join(srows))
    L.append("]\n/- " + ", ".join(f"{s!r} ({'; '.join(sorted(v))})" for s, v in sorted(suff.items())) + " -/\n")
    L.append(f"def retriesDefault : Nat := {at['retries'] if at['retries'] is not None else 0}")
    L.append(f"def retryErrnos : List Nat := {sorted(set(at['errnos']))}")
    L.append(f"def permissionErrorRetried : Bool := {str(at['perm_retry']).lower()}")
    L.append(f"def awbUsesDefaultRetries : Bool := {str(not at['awb_passes_retries']).lower()}")
    L.append(f"/-- `_make_tmp`: prefix = final.name + \".\", dir = final.parent, delete=False -/")
    L.append(f"def tmpInSameDirWithDotPrefix : Bool := {str(at['prefix_ok'] and at['dir_ok'] and at['delete_false']).lower()}")
    L.append(f"/-- alphabet and length of `tempfile`'s random name component on this interpreter -/")
    L.append(f"def tempChars : List Nat := {_codes(chars)}")
    L.append(f"def tempLen : Nat := {rlen}")
    L.append("\nend Clem.Gen.AtomicCallers\n")
    src = "\n".join(L)
    summary = {"sites": len(sites), "non_atomic": [f"{s[1]}:{s[2]}:{s[3]}:{s[4]}" for s in sites if s[4] != "atomic"],
               "suffixes": sorted(suff), "retries": at["retries"], "errnos": sorted(set(at["errnos"]))}
    return {"AtomicCallers.lean": src}, {"AtomicCallers.lean": summary}
