"""
C01 tables, regenerated from the AST of the working tree on every check  ->  lean/Clem/Gen/Determinism.lean

(c) hash-order sites: every place where the iteration order of a `set`/`frozenset` (which depends on
    PYTHONHASHSEED for str elements) can be observed: `for .. in <set expr>` (statement or comprehension),
    `list/tuple/iter/enumerate/zip/map/filter/join/dict.fromkeys/min/max/sum/any/all/sorted(<set expr>)`,
    `<set>.pop()`, `*<set>`; each tagged with HOW the result is made independent of the order:
        sorted       wrapped in `sorted(...)` (directly, or through list()/a comprehension that is the sorted() argument)
        commutative  consumed by an order-insensitive fold: set/frozenset/any/all/len, min/max WITHOUT key=, a set
                     comprehension, or a `for` whose body only does `.add/.discard/.update`, `x[k] = v` keyed by a value
                     derived from the element, integer counting, `continue/pass` under pure tests
        reviewed     hand-reviewed site pinned by the hash of its source (REVIEWED_SITES below); when the code of the
                     site changes the pin no longer matches and the site falls back to `unordered`
        unordered    none of the above  ->  `C01_hash_sites_canonical` fails
(d) wall-clock / entropy reads: `time.time/perf_counter/monotonic/process_time(_ns)`, `datetime.now/utcnow/today`,
    `date.today`, `uuid.uuid1/uuid4`, module-level `random.*`, unseeded `random.Random()/default_rng()`, `os.urandom`,
    `secrets.*`, `id()`, `hash()`, `os.getpid`, `threading.get_ident`, plus calls through an alias attribute
    (`time_fn=time.time` -> `self._time()`); for each the names it flows to (intra-procedural taint to a fixpoint,
    functions returning a tainted value become sources for their callers) and its SINKS:
        field:<key>        value stored under a dict key (`{"ms": x}`, `m["ms"] = x`)
        decision:<test>    appears in the test of an if/while/ternary/assert/comparison
        entropy-use:<stmt> a builtin hash()/id() value that is USED (anything but a discarded bare call): always `leak`
                           unless pinned — str/bytes hashes depend on PYTHONHASHSEED, id() on the allocator
        return             returned (callers are analysed as readers)
        attr:<name> / arg:<callee>   stored on an object / passed to a call statement
    and a verdict:
        volatile     every sink is a field that `normalize_for_identity` zeroes or drops in the identity logs
                     (`ms`, `now`, `durations_ms.*`) or a field that only exists in a non-canonical stream
        decision     reaches a decision that is DOCUMENTED below (pinned by file/function/test text)
        carrier      only returns the value (its callers are rows of their own)
        fallback     substitutes a missing/unparsable LOGICAL timestamp (pinned)
        offpath      not on the turn path (pinned, with the reason)
        leak         anything else  ->  `C01_clock_reads_only_volatile` fails
"""
from __future__ import annotations

import ast
import hashlib
from pathlib import Path
from typing import Any, Dict, List, Optional, Set, Tuple

from harness.extract import table, lean_str

SCOPE_DIRS = ("clematis", "configs")
EXCLUDE_PREFIXES = ("clematis/scripts/", "clematis/cli/")   # benchmarks / demos / CLI wrappers: not turn execution

# ------------------------------------------------------------------------------------------------------------
# reviewed pins.  key = (relpath, qualified function, sha1(ast.dump(node))[:10]) -> justification
# ------------------------------------------------------------------------------------------------------------
REVIEWED_SITES: Dict[Tuple[str, str, str], str] = {
}

DOCUMENTED_DECISIONS: Dict[Tuple[str, str, str], str] = {}   # (kept for the auto-classifier; pins live in REVIEWED_READS)

# reads pinned by (relpath, function, sha1(source segment of the enclosing statement)[:10]) -> (verdict, why)
_TTL = ("decision", "cache TTL expiry against the wall clock (engine/cache.py time_fn=time.time): hit/miss of the T1/T2 stage caches and of the "
        "turn-level t2:semantic cache; reaches cache_hit/cache_hits/cache_misses/cache_used in t1/t2/turn records -> known finding C01:wallclock:cache-ttl")
_FALLBACK = "wall clock substitutes a missing/unparsable LOGICAL timestamp; unreachable when every turn carries ctx.now and every episode a parsable ts: "
_LANCE = ("offpath", "optional LanceDB backend (t2.backend=lancedb; the lancedb package is not installed here): not exercised, labelled partial")
REVIEWED_READS: Dict[Tuple[str, str, str], Tuple[str, str]] = {
    ("clematis/engine/cache.py", "LRUCache.__contains__", "6fa73813f8"): _TTL,
    ("clematis/engine/cache.py", "LRUCache.items", "4194966837"): _TTL,
    ("clematis/engine/cache.py", "_NamespaceCache.get", "2dfd764616"): _TTL,
    ("clematis/engine/cache.py", "_NamespaceCache.set", "b75fbcc3e1"): ("decision", "entry timestamp for the TTL decision above"),
    ("clematis/engine/orchestrator/core.py", "_run_reflection_if_enabled", "8f1df0ddff"):
        ("decision", "post-hoc reflection wall budget scheduler.budgets.time_ms_reflection (entries dropped, reason=reflection_timeout); "
                     "the ms it stores is forced to 0.0 under CI"),
    ("clematis/engine/orchestrator/core.py", "_should_yield", "ee58a8464a"):
        ("decision", "scheduler slice budgets WALL_MS / QUANTUM_EXCEEDED on perf_counter elapsed (only with scheduler.enabled) "
                     "-> known finding C01:wallclock:scheduler-yield"),
    ("clematis/engine/orchestrator/parallel.py", "_run_turn_compute", "9a3b009551"):
        ("fallback", _FALLBACK + "turn_id invented from time.time() only when the task carries no turn id"),
    ("clematis/engine/snapshot.py", "_deterministic_created_at", "0a53afbd5b"):
        ("offpath", "sidecar <snapshot>.meta created_at: SOURCE_DATE_EPOCH when set, else time.time(); not part of the snapshot body"),
    ("clematis/engine/snapshot.py", "_write_sidecar_meta", "946d8dfcde"):
        ("offpath", "sidecar <snapshot>.meta created_at (see _deterministic_created_at); not part of the snapshot body"),
    ("clematis/engine/stages/t2/core.py", "t2_semantic", "46991df149"):
        ("fallback", _FALLBACK + "`if not now_str` floors today's wall date; with ctx.now set every later use is the logical value"),
    ("clematis/io/atomic.py", "atomic_replace", "db842b1391"):
        ("offpath", "retry back-off jitter: only the sleep duration between os.replace retries"),
    ("clematis/memory/index.py", "InMemoryIndex._filter_quarters", "d7ea81766f"): ("fallback", _FALLBACK + "_parse_iso(bad ts) -> now"),
    ("clematis/memory/index.py", "InMemoryIndex._filter_recent", "d85d0c3482"): ("fallback", _FALLBACK + "_parse_iso(bad ts) -> now"),
    ("clematis/memory/index.py", "InMemoryIndex._search_with_episodes", "4fe46ccdb8"):
        ("fallback", _FALLBACK + "hints['now'] not a str -> datetime.now"),
    ("clematis/memory/lance_index.py", "LanceIndex._iter_shards_for_t2", "c997d0b699"): _LANCE,
    ("clematis/memory/lance_index.py", "LanceIndex.add", "ec42a6da2d"): _LANCE,
    ("clematis/memory/lance_index.py", "LanceIndex.search_tiered", "456cc5d618"): _LANCE,
    ("clematis/memory/lance_index.py", "_LancePartition.search_tiered", "8500dcb78f"): _LANCE,
    ("clematis/world/scenario.py", "run_one_turn", "3dff30c0e0"):
        ("offpath", "demo driver that CHOOSES the logical clock (ctx.now) for a turn; the turn itself then runs on that logical value"),
}

# dict fields that carry a wall-clock value and are read back by other code (`consumed.get("ms")` in `_should_yield`)
CLOCK_FIELDS_READ_BACK = {"ms"}
VOLATILE_FIELDS = {"ms", "now", "durations_ms", "durations_ms.*"}
# keys that only ever appear in streams outside the canonical set (t3*.jsonl, gel.jsonl, scheduler.jsonl consumed.ms)
NONCANON_STREAM_FIELDS = {"ms_plan", "ms_rag", "ms_speak", "ms_deliberate"}
CANON_STREAMS = {"t1.jsonl", "t2.jsonl", "t4.jsonl", "apply.jsonl", "turn.jsonl", "health.jsonl"}


def _h(s: str) -> str:
    return hashlib.sha1(s.encode()).hexdigest()[:10]


def _files(repo: Path) -> List[Tuple[str, Path]]:
    out = []
    for d in SCOPE_DIRS:
        for p in sorted((repo / d).rglob("*.py")):
            rel = str(p.relative_to(repo))
            if any(rel.startswith(x) for x in EXCLUDE_PREFIXES):
                continue
            out.append((rel, p))
    return out


# ------------------------------------------------------------------------------------------------------------
# helpers
# ------------------------------------------------------------------------------------------------------------
def _parents(tree: ast.AST) -> Dict[ast.AST, ast.AST]:
    par: Dict[ast.AST, ast.AST] = {}
    for n in ast.walk(tree):
        for ch in ast.iter_child_nodes(n):
            par[ch] = n
    return par


def _qual(node: ast.AST, par) -> str:
    names = []
    n = node
    while n in par:
        n = par[n]
        if isinstance(n, (ast.FunctionDef, ast.AsyncFunctionDef, ast.ClassDef)):
            names.append(n.name)
    return ".".join(reversed(names)) or "<module>"


def _enclosing_func(node, par):
    n = node
    while n in par:
        n = par[n]
        if isinstance(n, (ast.FunctionDef, ast.AsyncFunctionDef)):
            return n
    return None


def _ann_is_set(ann: Optional[ast.AST]) -> bool:
    if ann is None:
        return False
    try:
        s = ast.unparse(ann)
    except Exception:
        return False
    s = s.replace("typing.", "").replace('"', "").replace("'", "").strip()
    for pre in ("set[", "Set[", "FrozenSet[", "frozenset[", "AbstractSet[", "MutableSet["):
        if s.startswith(pre) or s.startswith("Optional[" + pre):
            return True
    return s in ("set", "Set", "frozenset", "FrozenSet")


SET_METHODS = {"union", "intersection", "difference", "symmetric_difference", "copy"}


class SetTyper:
    """Conservative syntactic 'is this expression a set' judgement."""

    def __init__(self, set_funcs: Set[str]):
        self.set_funcs = set_funcs
        self.names: Set[str] = set()      # local/module names bound to sets (per function scope, rebuilt)
        self.attrs: Set[str] = set()      # self.<attr> bound to sets (per module)

    def is_set(self, e: ast.AST) -> bool:
        if isinstance(e, (ast.Set, ast.SetComp)):
            return True
        if isinstance(e, ast.Call):
            f = e.func
            if isinstance(f, ast.Name) and f.id in ("set", "frozenset"):
                return True
            if isinstance(f, ast.Name) and f.id in self.set_funcs:
                return True
            if isinstance(f, ast.Attribute):
                if f.attr in self.set_funcs:
                    return True
                if f.attr in SET_METHODS and self.is_set(f.value):
                    return True
            return False
        if isinstance(e, ast.BinOp) and isinstance(e.op, (ast.BitOr, ast.BitAnd, ast.Sub, ast.BitXor)):
            def keysview(x):
                return (isinstance(x, ast.Call) and isinstance(x.func, ast.Attribute) and x.func.attr == "keys")
            if self.is_set(e.left) or self.is_set(e.right):
                return True
            if keysview(e.left) or keysview(e.right):
                return True
            return False
        if isinstance(e, ast.Name):
            return e.id in self.names
        if isinstance(e, ast.Attribute):
            return e.attr in self.attrs and isinstance(e.value, ast.Name) and e.value.id == "self"
        if isinstance(e, ast.IfExp):
            return self.is_set(e.body) or self.is_set(e.orelse)
        if isinstance(e, ast.BoolOp):
            return any(self.is_set(v) for v in e.values)
        return False


def _collect_set_funcs(trees: Dict[str, ast.AST]) -> Set[str]:
    out: Set[str] = set()
    for tree in trees.values():
        for n in ast.walk(tree):
            if isinstance(n, (ast.FunctionDef, ast.AsyncFunctionDef)) and _ann_is_set(n.returns):
                out.add(n.name)
    return out


def _bind_names(scope: ast.AST, typer: SetTyper) -> Set[str]:
    """names bound to set expressions inside `scope` (function or module), flow-insensitive fixpoint."""
    names: Set[str] = set()
    if isinstance(scope, (ast.FunctionDef, ast.AsyncFunctionDef)):
        a = scope.args
        for arg in list(a.args) + list(a.kwonlyargs) + list(a.posonlyargs):
            if _ann_is_set(arg.annotation):
                names.add(arg.arg)
    changed = True
    while changed:
        changed = False
        typer.names = names
        for n in ast.walk(scope):
            tgt, val, ann = None, None, None
            if isinstance(n, ast.Assign) and len(n.targets) == 1:
                tgt, val = n.targets[0], n.value
            elif isinstance(n, ast.AnnAssign):
                tgt, val, ann = n.target, n.value, n.annotation
            elif isinstance(n, ast.AugAssign) and isinstance(n.op, (ast.BitOr, ast.BitAnd, ast.Sub, ast.BitXor)):
                tgt, val = n.target, n.value
            if isinstance(tgt, ast.Name) and tgt.id not in names:
                if _ann_is_set(ann) or (val is not None and typer.is_set(val)):
                    names.add(tgt.id)
                    changed = True
    return names


ORDER_INSENSITIVE_CALLS = {"set", "frozenset", "any", "all", "len", "bool"}
ITER_CALLS = {"list", "tuple", "iter", "enumerate", "zip", "map", "filter", "reversed", "next", "sum", "min", "max",
              "sorted", "any", "all"}


def _body_commutative(loop: ast.For, typer: SetTyper) -> bool:
    def ok_stmt(s: ast.stmt) -> bool:
        if isinstance(s, (ast.Pass, ast.Continue)):
            return True
        if isinstance(s, ast.Expr) and isinstance(s.value, ast.Call) and isinstance(s.value.func, ast.Attribute):
            return s.value.func.attr in ("add", "discard", "update")
        if isinstance(s, ast.Expr) and isinstance(s.value, ast.Call) and isinstance(s.value.func, ast.Name) \
                and s.value.func.id == "setattr" and len(s.value.args) == 3 and isinstance(s.value.args[1], ast.Name) \
                and isinstance(loop.target, ast.Name) and s.value.args[1].id == loop.target.id:
            return True   # one distinct attribute per element: the writes commute
        if isinstance(s, ast.AugAssign) and isinstance(s.op, ast.Add) and isinstance(s.value, ast.Constant) \
                and isinstance(s.value.value, int):
            return True
        if isinstance(s, ast.Assign) and len(s.targets) == 1 and isinstance(s.targets[0], ast.Subscript):
            return False   # dict insertion order is observable: needs review
        if isinstance(s, ast.If):
            return all(ok_stmt(x) for x in s.body) and all(ok_stmt(x) for x in s.orelse)
        return False
    return all(ok_stmt(s) for s in loop.body) and not loop.orelse


def _lookup_only_dict(dc: ast.DictComp, par) -> bool:
    a = par.get(dc)
    if not (isinstance(a, ast.Assign) and len(a.targets) == 1 and isinstance(a.targets[0], ast.Name)):
        return False
    name = a.targets[0].id
    fn = _enclosing_func(dc, par)
    if fn is None:
        return False
    for n in ast.walk(fn):
        if isinstance(n, ast.Name) and n.id == name and n is not a.targets[0]:
            p = par.get(n)
            if isinstance(n.ctx, ast.Store):
                return False
            if isinstance(p, ast.Subscript) and p.value is n:
                continue
            if isinstance(p, ast.Compare) and n in p.comparators and all(isinstance(o, (ast.In, ast.NotIn)) for o in p.ops):
                continue
            if isinstance(p, ast.Attribute) and p.attr == "get":
                continue
            return False
    return True


def _wrap_verdict(node: ast.AST, par) -> Tuple[str, str]:
    """Walk outwards from an iteration-producing expression: how is its order consumed?"""
    cur = node
    hops = 0
    while cur in par and hops < 6:
        p = par[cur]
        hops += 1
        if isinstance(p, ast.Call) and cur in p.args and isinstance(p.func, ast.Name):
            fn = p.func.id
            if fn == "sorted":
                return "sorted", "sorted(...)"
            if fn in ORDER_INSENSITIVE_CALLS:
                return "commutative", fn + "(...)"
            if fn in ("min", "max"):
                if any(k.arg == "key" for k in p.keywords):
                    return "unordered", fn + "(..., key=) ties depend on iteration order"
                return "commutative", fn + "(...) without key"
            if fn in ("list", "tuple", "iter", "reversed"):
                cur = p
                continue
            return "unordered", fn + "(...)"
        if isinstance(p, ast.comprehension):
            cur = p
            continue
        if isinstance(p, ast.SetComp):
            return "commutative", "set comprehension"
        if isinstance(p, (ast.ListComp, ast.GeneratorExp)):
            cur = p
            continue
        if isinstance(p, ast.DictComp):
            if _lookup_only_dict(p, par):
                return "commutative", "dict built from the set is only used for key lookup (x[k], k in x, x.get) — never iterated"
            return "unordered", "dict comprehension (insertion order observable)"
        if isinstance(p, ast.Compare) and any(isinstance(o, (ast.In, ast.NotIn)) for o in p.ops):
            return "commutative", "membership"
        break
    return "unordered", "order escapes"


def scan_hash_sites(repo: Path):
    files = _files(repo)
    trees = {rel: ast.parse(p.read_text()) for rel, p in files}
    set_funcs = _collect_set_funcs(trees)
    rows = []
    for rel, tree in trees.items():
        par = _parents(tree)
        typer = SetTyper(set_funcs)
        # self.<attr> sets
        for n in ast.walk(tree):
            tgt, val, ann = None, None, None
            if isinstance(n, ast.Assign) and len(n.targets) == 1:
                tgt, val = n.targets[0], n.value
            elif isinstance(n, ast.AnnAssign):
                tgt, val, ann = n.target, n.value, n.annotation
            if isinstance(tgt, ast.Attribute) and isinstance(tgt.value, ast.Name) and tgt.value.id == "self":
                if _ann_is_set(ann) or (val is not None and SetTyper(set_funcs).is_set(val)):
                    typer.attrs.add(tgt.attr)
        module_names = _bind_names(ast.Module(body=[s for s in tree.body if not isinstance(
            s, (ast.FunctionDef, ast.AsyncFunctionDef, ast.ClassDef))], type_ignores=[]), typer)
        scopes: List[ast.AST] = [tree] + [n for n in ast.walk(tree) if isinstance(n, (ast.FunctionDef, ast.AsyncFunctionDef))]
        seen: Set[int] = set()
        for sc in scopes:
            local = _bind_names(sc, typer) if sc is not tree else set()
            typer.names = set(module_names) | local
            for n in ast.walk(sc):
                if id(n) in seen:
                    continue
                if sc is tree and _enclosing_func(n, par) is not None:
                    continue   # handled in its own function scope (needs the local bindings)
                if sc is not tree and _enclosing_func(n, par) is not sc:
                    f = _enclosing_func(n, par)
                    # nested function: analysed with its own scope later, but let it see the outer bindings too
                    if f is not sc:
                        continue
                site = None
                if isinstance(n, ast.For) and typer.is_set(n.iter):
                    verdict, how = ("commutative", "loop body only accumulates into sets/counters") \
                        if _body_commutative(n, typer) else ("unordered", "for-loop body observes the order")
                    site = ("for", n, n.iter, verdict, how)
                elif isinstance(n, ast.comprehension) and typer.is_set(n.iter):
                    verdict, how = _wrap_verdict(n, par)
                    site = ("comprehension", par.get(n, n), n.iter, verdict, how)
                elif isinstance(n, ast.Call):
                    f = n.func
                    if isinstance(f, ast.Name) and f.id in ITER_CALLS and n.args and typer.is_set(n.args[0]):
                        if f.id == "sorted":
                            site = ("call:sorted", n, n.args[0], "sorted", "sorted(<set>)")
                        elif f.id in ("any", "all"):
                            site = ("call:" + f.id, n, n.args[0], "commutative", f.id + "(<set>)")
                        elif f.id in ("min", "max"):
                            if any(k.arg == "key" for k in n.keywords):
                                site = ("call:" + f.id, n, n.args[0], "unordered", "key= ties depend on order")
                            else:
                                site = ("call:" + f.id, n, n.args[0], "commutative", f.id + " without key")
                        else:
                            verdict, how = _wrap_verdict(n, par)
                            site = ("call:" + f.id, n, n.args[0], verdict, how)
                    elif isinstance(f, ast.Name) and f.id in ("str", "repr", "format") and n.args and typer.is_set(n.args[0]):
                        site = ("call:" + f.id, n, n.args[0], "unordered", "textual form of a set")
                    elif isinstance(f, ast.Attribute) and f.attr == "join" and n.args and typer.is_set(n.args[0]):
                        site = ("call:join", n, n.args[0], "unordered", "str.join(<set>)")
                    elif isinstance(f, ast.Attribute) and f.attr == "fromkeys" and n.args and typer.is_set(n.args[0]):
                        site = ("call:fromkeys", n, n.args[0], "unordered", "dict.fromkeys(<set>)")
                    elif isinstance(f, ast.Attribute) and f.attr == "pop" and not n.args and typer.is_set(f.value):
                        site = ("call:pop", n, f.value, "unordered", "<set>.pop()")
                elif isinstance(n, ast.Starred) and typer.is_set(n.value):
                    site = ("star", n, n.value, "unordered", "*<set>")
                elif isinstance(n, ast.FormattedValue) and typer.is_set(n.value):
                    site = ("fstring", n, n.value, "unordered", "repr of a set inside an f-string")
                if site is None:
                    continue
                seen.add(id(n))
                kind, node, it, verdict, how = site
                qual = _qual(n, par)
                pin = _h(ast.dump(node, include_attributes=False))
                if verdict == "unordered" and (rel, qual, pin) in REVIEWED_SITES:
                    verdict, how = "reviewed", REVIEWED_SITES[(rel, qual, pin)]
                try:
                    src = ast.unparse(it)[:80]
                except Exception:
                    src = "?"
                rows.append({"file": rel, "func": qual, "kind": kind, "expr": src, "canon": verdict, "how": how, "pin": pin,
                             "line": getattr(n, "lineno", getattr(node, "lineno", 0))})
    rows.sort(key=lambda r: (r["file"], r["func"], r["kind"], r["expr"], r["pin"]))
    return rows


# ------------------------------------------------------------------------------------------------------------
# (d) clock / entropy reads
# ------------------------------------------------------------------------------------------------------------
TIME_FUNCS = {"time", "perf_counter", "monotonic", "process_time", "time_ns", "perf_counter_ns", "monotonic_ns",
              "process_time_ns"}
RANDOM_FUNCS = {"random", "uniform", "choice", "choices", "shuffle", "randint", "randrange", "sample", "getrandbits",
                "gauss", "normalvariate", "betavariate", "expovariate", "triangular", "randbytes"}


class ModuleAliases:
    def __init__(self, tree: ast.AST):
        self.mod: Dict[str, str] = {}      # local name -> module ("time", "datetime", "random", "uuid", "os", ...)
        self.obj: Dict[str, str] = {}      # local name -> "module.attr" for from-imports
        for n in ast.walk(tree):
            if isinstance(n, ast.Import):
                for a in n.names:
                    self.mod[a.asname or a.name.split(".")[0]] = a.name
            elif isinstance(n, ast.ImportFrom) and n.module and n.level == 0:
                for a in n.names:
                    self.obj[a.asname or a.name] = f"{n.module}.{a.name}"

    def resolve(self, e: ast.AST) -> Optional[str]:
        """dotted expression -> canonical 'module.attr[.attr]' if its head is an imported module/object."""
        parts = []
        while isinstance(e, ast.Attribute):
            parts.append(e.attr)
            e = e.value
        if not isinstance(e, ast.Name):
            return None
        head = e.id
        if head in self.mod:
            base = self.mod[head]
        elif head in self.obj:
            base = self.obj[head]
        else:
            return None if parts else ("builtins." + head)
        return ".".join([base] + list(reversed(parts)))


def _source_kind(canon: Optional[str], call: Optional[ast.Call]) -> Optional[str]:
    if canon is None:
        return None
    c = canon
    if c.startswith("time.") and c.split(".", 1)[1] in TIME_FUNCS:
        return c
    if c in ("datetime.datetime.now", "datetime.datetime.utcnow", "datetime.datetime.today", "datetime.date.today"):
        return c
    if c in ("uuid.uuid1", "uuid.uuid4", "os.urandom", "os.getpid", "threading.get_ident", "os.times"):
        return c
    if c.startswith("secrets."):
        return c
    if c.startswith("random.") and c.split(".", 1)[1] in RANDOM_FUNCS:
        return c
    if c in ("random.Random", "random.SystemRandom", "numpy.random.default_rng", "numpy.random.RandomState"):
        if call is not None and not call.args and not call.keywords:
            return c + "()"          # unseeded
        if c == "random.SystemRandom":
            return c
        return None
    if c.startswith("numpy.random.") and c.split(".")[-1] in ("rand", "randn", "random", "randint", "choice", "shuffle",
                                                                "permutation", "normal", "uniform"):
        return c
    if c in ("builtins.id", "builtins.hash"):
        return c
    return None


def scan_clock_reads(repo: Path):
    files = _files(repo)
    trees = {rel: ast.parse(p.read_text()) for rel, p in files}
    srcs = {rel: p.read_text() for rel, p in files}
    # pass 0: alias attributes / parameters bound to a clock function reference (time_fn=time.time; self._time = time_fn)
    alias_names: Set[str] = set()
    for rel, tree in trees.items():
        al = ModuleAliases(tree)
        for n in ast.walk(tree):
            if isinstance(n, (ast.FunctionDef, ast.AsyncFunctionDef)):
                a = n.args
                pos = list(a.posonlyargs) + list(a.args)
                for arg, d in zip(pos[len(pos) - len(a.defaults):], a.defaults):
                    if not isinstance(d, ast.Call) and _source_kind(al.resolve(d), None):
                        alias_names.add(arg.arg)
                for arg, d in zip(a.kwonlyargs, a.kw_defaults):
                    if d is not None and not isinstance(d, ast.Call) and _source_kind(al.resolve(d), None):
                        alias_names.add(arg.arg)
    changed = True
    while changed:
        changed = False
        for rel, tree in trees.items():
            al = ModuleAliases(tree)
            for n in ast.walk(tree):
                if isinstance(n, ast.Assign) and len(n.targets) == 1:
                    v, t = n.value, n.targets[0]
                    is_ref = (isinstance(v, ast.Name) and v.id in alias_names) or \
                             (not isinstance(v, ast.Call) and isinstance(v, (ast.Attribute, ast.Name))
                              and _source_kind(al.resolve(v), None) and al.resolve(v) not in ("builtins.id", "builtins.hash")) or \
                             (isinstance(v, ast.Attribute) and v.attr in alias_names)
                    if is_ref:
                        nm = t.attr if isinstance(t, ast.Attribute) else (t.id if isinstance(t, ast.Name) else None)
                        if nm and nm not in alias_names:
                            alias_names.add(nm)
                            changed = True
    # iterate: functions returning tainted values become sources for their callers (by simple name)
    derived: Dict[Tuple[str, str], str] = {}   # (file, function simple name) -> qualified origin
    rows: List[dict] = []
    for _round in range(4):
        rows = []
        new_derived = dict(derived)
        for rel, tree in trees.items():
            al = ModuleAliases(tree)
            par = _parents(tree)
            funcs = [n for n in ast.walk(tree) if isinstance(n, (ast.FunctionDef, ast.AsyncFunctionDef))]
            scopes: List[Any] = funcs + [tree]
            local_defs = {f.name for f in funcs}
            imported: Dict[str, str] = {}
            for n0 in ast.walk(tree):
                if isinstance(n0, ast.ImportFrom):
                    for a0 in n0.names:
                        imported[a0.asname or a0.name] = a0.name
            for fn in scopes:
                own = [n for n in ast.walk(fn) if (_enclosing_func(n, par) is (fn if fn is not tree else None))]

                def read_kind(call: ast.Call) -> Optional[str]:
                    k = _source_kind(al.resolve(call.func), call)
                    if k:
                        return k
                    f = call.func
                    if isinstance(f, ast.Attribute) and f.attr in ("get", "pop") and call.args \
                            and isinstance(call.args[0], ast.Constant) and call.args[0].value in CLOCK_FIELDS_READ_BACK:
                        return "fieldread:" + str(call.args[0].value)
                    if isinstance(f, ast.Attribute) and f.attr in alias_names:
                        return "alias:" + f.attr
                    if isinstance(f, ast.Name) and f.id in alias_names:
                        return "alias:" + f.id
                    nm = f.attr if isinstance(f, ast.Attribute) else (f.id if isinstance(f, ast.Name) else None)
                    if nm is None or (isinstance(fn, ast.FunctionDef) and fn.name == nm):
                        return None
                    if isinstance(f, ast.Name):
                        if nm in local_defs:
                            return ("via:" + nm) if (rel, nm) in derived else None
                        orig = imported.get(nm)
                        if orig and any(k[1] == orig for k in derived):
                            return "via:" + orig
                        return None
                    if nm in local_defs:
                        return ("via:" + nm) if (rel, nm) in derived else None
                    if any(k[1] == nm for k in derived):
                        return "via:" + nm
                    return None

                reads = [(n, read_kind(n)) for n in own if isinstance(n, ast.Call)]
                reads = [(n, k) for n, k in reads if k]
                # `consumed["ms"]` read back (Load) is a source as well
                for n in own:
                    if isinstance(n, ast.Subscript) and isinstance(n.ctx, ast.Load) and isinstance(n.slice, ast.Constant) \
                            and n.slice.value in CLOCK_FIELDS_READ_BACK:
                        reads.append((n, "fieldread:" + str(n.slice.value)))
                if not reads:
                    continue
                read_ids = {id(n) for n, _ in reads}
                tainted: Set[str] = set()

                def is_tainted(e: ast.AST) -> bool:
                    stack = [e]
                    while stack:
                        x = stack.pop()
                        if id(x) in read_ids:
                            return True
                        if isinstance(x, ast.Name) and x.id in tainted:
                            return True
                        if isinstance(x, ast.Dict) and x is not e:
                            continue   # nested dict literal: field-sensitive (its keys are sinks of their own)
                        stack.extend(ast.iter_child_nodes(x))
                    return False

                ch = True
                while ch:
                    ch = False
                    for n in own:
                        tg: List[ast.AST] = []
                        val = None
                        if isinstance(n, ast.Assign):
                            tg, val = n.targets, n.value
                        elif isinstance(n, (ast.AnnAssign, ast.AugAssign)) and n.value is not None:
                            tg, val = [n.target], n.value
                        elif isinstance(n, ast.NamedExpr):
                            tg, val = [n.target], n.value
                        if val is None or isinstance(val, ast.Dict) or not is_tainted(val):
                            continue   # a dict literal absorbs the taint into its KEYS (field sinks below)
                        for t in tg:
                            for x in ast.walk(t):
                                if isinstance(x, ast.Name) and isinstance(x.ctx, ast.Store) and x.id not in tainted:
                                    tainted.add(x.id)
                                    ch = True
                # sinks
                sinks: Set[str] = set()

                def dict_sinks(d: ast.Dict, prefix: str = ""):
                    for k, v in zip(d.keys, d.values):
                        if k is None:
                            if is_tainted(v):
                                sinks.add("field:**spread")
                            continue
                        key = k.value if isinstance(k, ast.Constant) else "?"
                        if isinstance(v, ast.Dict):
                            dict_sinks(v, f"{prefix}{key}.")
                        elif isinstance(v, ast.DictComp):
                            if is_tainted(v):
                                sinks.add(f"field:{prefix}{key}.*")
                        elif is_tainted(v):
                            sinks.add(f"field:{prefix}{key}")

                handled: Set[int] = set()
                for n in own:
                    if isinstance(n, ast.Dict):
                        if id(n) in handled:
                            continue
                        dict_sinks(n)
                        for x in ast.walk(n):
                            handled.add(id(x))
                    elif isinstance(n, ast.Assign) and len(n.targets) == 1 and isinstance(n.targets[0], ast.Subscript) \
                            and is_tainted(n.value) and not isinstance(n.value, ast.Dict):
                        s = n.targets[0].slice
                        key = s.value if isinstance(s, ast.Constant) else "?"
                        sinks.add(f"field:{key}")
                    elif isinstance(n, ast.Assign) and any(isinstance(t, ast.Attribute) for t in n.targets) and is_tainted(n.value):
                        for t in n.targets:
                            if isinstance(t, ast.Attribute):
                                sinks.add(f"attr:{t.attr}")
                    elif isinstance(n, ast.Return) and n.value is not None and is_tainted(n.value):
                        if isinstance(n.value, ast.Dict):
                            pass
                        else:
                            sinks.add("return")
                    elif isinstance(n, (ast.If, ast.While, ast.IfExp, ast.Assert)) and is_tainted(n.test):
                        sinks.add("decision:" + " ".join(ast.unparse(n.test).split())[:90])
                    elif isinstance(n, ast.Compare) and is_tainted(n) and not isinstance(par.get(n), (ast.If, ast.While, ast.IfExp, ast.Assert, ast.BoolOp, ast.UnaryOp)):
                        sinks.add("decision:" + " ".join(ast.unparse(n).split())[:90])
                for n in own:
                    if isinstance(n, ast.Call) and id(n) not in read_ids:
                        f = n.func
                        nm = f.attr if isinstance(f, ast.Attribute) else (f.id if isinstance(f, ast.Name) else "?")
                        if nm in ("setdefault",) and len(n.args) == 2 and is_tainted(n.args[1]):
                            k0 = n.args[0]
                            sinks.add(f"field:{k0.value if isinstance(k0, ast.Constant) else '?'}")
                            continue
                        if nm in ("round", "int", "float", "max", "min", "abs", "str", "bool", "isoformat", "astimezone",
                                  "replace", "timestamp", "fromtimestamp", "total_seconds", "datetime", "timedelta",
                                  "_parse_iso", "parse_iso", "fromisoformat", "strftime", "len", "isinstance", "getattr",
                                  "dict", "list", "tuple", "sorted", "update"):
                            continue   # value-transparent wrappers: the taint is carried by the expression itself
                        args = list(n.args) + [k.value for k in n.keywords]
                        if any(is_tainted(a) and not isinstance(a, ast.Dict) for a in args) and isinstance(par.get(n), ast.Expr):
                            pos_t = any(is_tainted(a) and not isinstance(a, ast.Dict) for a in n.args)
                            for k in n.keywords:
                                if is_tainted(k.value) and not isinstance(k.value, ast.Dict):
                                    sinks.add(f"field:{k.arg}" if k.arg in VOLATILE_FIELDS else f"arg:{nm}.{k.arg}")
                            if pos_t:
                                sinks.add(f"arg:{nm}")
                        elif any(is_tainted(a) and not isinstance(a, ast.Dict) for a in args):
                            for k in n.keywords:
                                if is_tainted(k.value) and not isinstance(k.value, ast.Dict):
                                    sinks.add(f"arg:{nm}.{k.arg}")
                            for i, a in enumerate(n.args):
                                if is_tainted(a) and not isinstance(a, ast.Dict):
                                    sinks.add(f"arg:{nm}#{i}")
                # builtin hash()/id(): PYTHONHASHSEED / address entropy.  The only harmless use is a DISCARDED value
                # (the hashability probe `hash(key)` as a bare statement); any other use — index, modulo, comparison,
                # sort key, stored, returned, passed on — can reach an ordering or an output.
                for n, k in reads:
                    if k in ("builtins.hash", "builtins.id") and not isinstance(par.get(n), ast.Expr):
                        ctxn = par.get(n)
                        hops = 0
                        while ctxn is not None and not isinstance(ctxn, ast.stmt) and hops < 12:
                            ctxn = par.get(ctxn)
                            hops += 1
                        txt = " ".join(ast.unparse(ctxn).split())[:70] if ctxn is not None else "?"
                        sinks.add(f"entropy-use:{k.split('.')[-1]}:{txt}")
                fname = fn.name if fn is not tree else "<module>"
                qual = (_qual(fn, par) + "." + fn.name).lstrip(".") if fn is not tree else "<module>"
                qual = qual.replace("<module>.", "")
                if "return" in sinks and fn is not tree:
                    new_derived.setdefault((rel, fname), f"{rel}:{qual}")
                kinds = sorted({k for _, k in reads})
                rows.append({"file": rel, "func": qual, "reads": kinds, "n": len(reads), "flows": sorted(tainted)[:12],
                             "sinks": sorted(sinks),
                             "pin": _h("|".join(sorted(" ".join(ast.unparse(par.get(n, n)).split())[:200] for n, _ in reads))
                                       + "||" + "|".join(sorted(sinks)))})
        if new_derived == derived:
            break
        derived = new_derived
    rows.sort(key=lambda r: (r["file"], r["func"]))
    return rows, sorted(alias_names), derived


def classify_read(r: dict) -> Tuple[str, str]:
    key = (r["file"], r["func"], r["pin"])
    if key in REVIEWED_READS:
        return REVIEWED_READS[key]
    bad = []
    saw_decision = False
    for s in r["sinks"]:
        if s.startswith("field:"):
            k = s[6:]
            base = k.split(".")[0]
            if k in VOLATILE_FIELDS or base in ("durations_ms",) or k in NONCANON_STREAM_FIELDS:
                continue
            bad.append(s)
        elif s.startswith("decision:"):
            d = (r["file"], r["func"], s[9:])
            if d in DOCUMENTED_DECISIONS:
                saw_decision = True
            else:
                bad.append(s)
        elif s == "return":
            continue   # the callers are rows of their own ("via:<name>")
        else:
            bad.append(s)
    if bad:
        return "leak", "; ".join(bad)[:300]
    if r["sinks"] == ["return"]:
        return "carrier", "only returns the value: its callers are rows of their own (via:<name>)"
    if saw_decision:
        return "decision", "documented decision(s) only"
    return "volatile", "only fields dropped/zeroed by normalize_for_identity or absent from the canonical streams"


def _codes(s: str) -> str:
    return "[" + ", ".join(str(ord(c)) for c in s) + "]"


@table
def gen(repo: Path):
    sites = scan_hash_sites(repo)
    reads, aliases, derived = scan_clock_reads(repo)
    L = ["/- GENERATED by harness/tables/determinism.py from the AST of clematis/ and configs/ — do not edit. -/",
         "import Clem.Model.DetTables", "", "namespace Clem.Gen.Determinism", "open Clem.DetTables", "",
         "/-- (c) every hash-order site (iteration over a set-typed expression) with its canonicalisation tag. -/",
         "def hashSites : List HashSite :="]
    items = []
    for s in sites:
        items.append(f"  ⟨{lean_str(s['file'])}, {lean_str(s['func'])}, {lean_str(s['kind'])}, {lean_str(s['expr'])}, "
                     f"Canon.{s['canon']}, {lean_str(s['how'])}⟩")
    L.append("  [" + (",\n   ".join(x.strip() for x in items)) + "]" if items else "  []")
    L += ["", "/-- (d) every function containing a wall-clock / entropy read, the names the value flows to, its sinks and verdict. -/",
          "def clockReads : List ClockRead :="]
    items = []
    for r in reads:
        v, why = classify_read(r)
        r["verdict"], r["why"] = v, why
        items.append(f"⟨{lean_str(r['file'])}, {lean_str(r['func'])}, {'true' if (r['file'].endswith('orchestrator/core.py') and r['func'] == 'Orchestrator.run_turn') else 'false'}, [{', '.join(lean_str(x) for x in r['reads'])}], "
                     f"[{', '.join(lean_str(x) for x in r['flows'])}], [{', '.join(lean_str(x) for x in r['sinks'])}], "
                     f"Verdict.{v}, {lean_str(why)}⟩")
    L.append("  [" + ",\n   ".join(items) + "]" if items else "  []")
    mono = sum(1 for r in reads for k in r["reads"] if "monotonic" in k)
    L += ["", "/-- number of functions reading `time.monotonic(_ns)` (the differential's adversarial clock leaves it alone) -/",
          f"def monotonicReads : Nat := {mono}"]
    L += ["", f"def scopeExcluded : List String := [{', '.join(lean_str(x) for x in EXCLUDE_PREFIXES)}]",
          f"def clockAliasNames : List String := [{', '.join(lean_str(x) for x in aliases)}]",
          "", "end Clem.Gen.Determinism", ""]
    summary = {"Determinism.lean": {
        "hash_sites": len(sites), "hash_sites_unordered": sum(1 for s in sites if s["canon"] == "unordered"),
        "clock_read_functions": len(reads), "clock_reads_leak": sum(1 for r in reads if r["verdict"] == "leak"),
        "derived_sources": sorted(f"{a}:{b}" for a, b in derived)}}
    return {"Determinism.lean": "\n".join(L)}, summary


if __name__ == "__main__":
    import json
    import os
    import sys
    repo = Path(os.environ.get("CLEMATIS3_REPO", "/repo"))
    sites = scan_hash_sites(repo)
    for s in sites:
        print("SITE", s["canon"].upper() if s["canon"] == "unordered" else s["canon"], s["file"], s["func"], s["kind"], "|", s["expr"], "|", s["how"], s["pin"], "L%d" % s["line"])
    reads, aliases, derived = scan_clock_reads(repo)
    for r in reads:
        v, why = classify_read(r)
        print("READ", v.upper() if v == "leak" else v, r["file"], r["func"], r["reads"], "flows", r["flows"], "sinks", r["sinks"], r["pin"])
    print("aliases", aliases, "derived", derived)
