"""
Translator for C14: walks the AST of `configs/validate.py` and regenerates
`lean/Clem/Gen/ValidRules.lean`:

* `rules : List Rule` in program order — unknown-key checks, numeric rules (location of the value,
  coercion, guard expression tree, documented range parsed from the *message text*), enumeration
  rules; every `_err` site that does not fit a typed pattern is recorded in `opaqueSites`;
* the `ALLOWED_*` key sets, `DEFAULTS`, `CONFIG_VERSION`;
* structural facts: does `_suggest_key` iterate `sorted(allowed)` and pass `str(bad)` to `_lev`,
  which message sites format an unordered `set`.

The walk is a small symbolic execution of `_validate_config_normalize_impl` (straight-line code,
`if`/`elif`, constant-tuple loops unrolled, the local helper `_budget_int_or_none` inlined).
"""
from __future__ import annotations

import ast
import copy
import re
from pathlib import Path
from typing import Any, Dict, List, Optional, Tuple

from harness.extract import table
from harness.lib.c14_enc import lean_int, lean_j, lean_kvs, lean_str, lean_strs

SRC = "configs/validate.py"
FN = "_validate_config_normalize_impl"


class Opaque(Exception):
    pass


# ---- symbolic values -------------------------------------------------------

class Loc:
    def __init__(self, src: str, path: Tuple[str, ...]):
        self.src, self.path = src, tuple(path)

    def lean(self) -> str:
        return f"⟨.{self.src}, {lean_strs(self.path)}⟩"

    def js(self):
        return [self.src, list(self.path)]


class Cond:
    def __init__(self, kind, *a):
        self.kind, self.a = kind, a

    def lean(self) -> str:
        k, a = self.kind, self.a
        if k == "tt":
            return "Cond.tt"
        if k in ("has", "isNone", "isDictAt"):
            return f"(Cond.{k} {a[0].lean()} {lean_str(a[1])})"
        if k == "truthy":
            return f"(Cond.truthy {a[0].lean()})"
        if k == "not":
            return f"(Cond.not {a[0].lean()})"
        if k == "and":
            return f"(Cond.and {a[0].lean()} {a[1].lean()})"
        raise ValueError(k)


OPAQUE_COND = "opaque"


class VE:
    def __init__(self, kind, *a):
        self.kind, self.a = kind, a

    def lean(self) -> str:
        if self.kind == "get":
            l, k, d = self.a
            dd = "none" if d is None else f"(some {lean_j(d)})"
            return f"(VE.get {l.lean()} {lean_str(k)} {dd})"
        c, x, y = self.a
        return f"(VE.ite {c.lean()} {x.lean()} {y.lean()})"

    def single_get(self):
        return self.a[:2] if self.kind == "get" else None


class NE:
    def __init__(self, kind, *a):
        self.kind, self.a = kind, a

    def co(self) -> Optional[str]:
        if self.kind == "co":
            return self.a[0]
        x, y = self.a[1].co(), self.a[2].co()
        return x if x == y else None

    def lean(self) -> str:
        if self.kind == "co":
            c, v, d = self.a
            return f"(NE.co .{c} {v.lean()} {lean_int(d)})"
        c, x, y = self.a
        return f"(NE.ite {c.lean()} {x.lean()} {y.lean()})"

    def single_get(self):
        return self.a[1].single_get() if self.kind == "co" else None


class SE:  # str(x)[.lower()]
    def __init__(self, ve: VE, lower: bool):
        self.ve, self.lower = ve, lower


class Const:
    def __init__(self, v):
        self.v = v


UNKNOWN = object()


# ---- guard / doc -----------------------------------------------------------

def ge_lean(g) -> str:
    k = g[0]
    if k in ("lt", "le", "gt", "ge"):
        return f"(Gd.{k} {lean_int(g[1])})"
    if k == "between":
        return f"(Gd.between {lean_int(g[1])} {str(g[2]).lower()} {lean_int(g[3])} {str(g[4]).lower()})"
    if k == "mem":
        return "(Gd.mem [" + ", ".join(lean_int(c) for c in g[1]) + "])"
    if k == "not":
        return f"(Gd.not {ge_lean(g[1])})"
    raise ValueError(k)


def doc_lean(d) -> str:
    if d is None:
        return "Doc.none"
    k = d[0]
    if k in ("ge", "gt"):
        return f"(Doc.{k} {lean_int(d[1])})"
    if k == "between":
        return f"(Doc.between {lean_int(d[1])} {str(d[2]).lower()} {lean_int(d[3])} {str(d[4]).lower()})"
    if k == "oneOf":
        return "(Doc.oneOf [" + ", ".join(lean_int(c) for c in d[1]) + "])"
    raise ValueError(k)


_NUM = r"(-?\d+(?:\.0+)?)"


def _ival(s: str) -> int:
    return int(float(s))


def parse_doc(msg: str):
    """The range a message documents, or None."""
    m = re.match(rf"^must be >= {_NUM}(?: \(or null\))?$", msg)
    if m:
        return ("ge", _ival(m.group(1)))
    m = re.match(rf"^must be > {_NUM}$", msg)
    if m:
        return ("gt", _ival(m.group(1)))
    m = re.match(rf"^must be in ([\[\(]){_NUM},\s*{_NUM}([\]\)])$", msg)
    if m:
        return ("between", _ival(m.group(2)), m.group(1) == "(", _ival(m.group(3)), m.group(4) == ")")
    m = re.match(rf"^must be {_NUM} or {_NUM}(?: \(.*\))?$", msg)
    if m:
        return ("oneOf", [_ival(m.group(1)), _ival(m.group(2))])
    return None


def parse_enum_doc(msg: str) -> List[str]:
    m = re.match(r"^must be one of \{([A-Za-z0-9_,\-]+)\}", msg)
    if m:
        return m.group(1).split(",")
    m = re.match(r"^must be one of \[(.*)\]$", msg)
    if m:
        return [x.strip().strip("'") for x in m.group(1).split(",")]
    return []


# ---- the walker ------------------------------------------------------------

class Walker:
    def __init__(self, mod: ast.Module, consts: Dict[str, Any]):
        self.consts = consts            # module-level constants (sets, CONFIG_VERSION)
        self.secs: Dict[str, Loc] = {}
        self.param: str = "cfg"
        self.vals: Dict[str, Any] = {}
        self.subs: Dict[Tuple[str, str], Any] = {}
        self.bind: Dict[str, Any] = {}  # loop variables / inlined parameters bound to constants
        self.conds: List[Any] = []
        self.rules: List[dict] = []
        self.opaque: List[dict] = []
        self.hash_sites: List[str] = []
        self.local_defs: Dict[str, ast.FunctionDef] = {}
        self.touched: set = set()       # section path + key that the normaliser reads or writes by name
        self.enum_checks: List[dict] = []   # enumeration checks whose message is not constant text
        self.live: Dict[Tuple[str, str], List[dict]] = {}   # (section var, key) -> numeric rules checked on that cell
        self.mod = mod

    # -- constants ---------------------------------------------------------
    def const(self, e) -> Any:
        if isinstance(e, ast.Constant):
            return e.value
        if isinstance(e, ast.UnaryOp) and isinstance(e.op, ast.USub):
            v = self.const(e.operand)
            if isinstance(v, (int, float)) and not isinstance(v, bool):
                return -v
            raise Opaque("neg")
        if isinstance(e, ast.Name):
            if e.id in self.bind:
                return self.bind[e.id]
            if e.id in self.vals and isinstance(self.vals[e.id], Const):
                return self.vals[e.id].v
            raise Opaque("name " + e.id)
        if isinstance(e, ast.Dict) and not e.keys:
            return {}
        if isinstance(e, ast.List):
            return [self.const(x) for x in e.elts]
        raise Opaque("const")

    def fstr(self, e, site: str = "") -> str:
        if isinstance(e, ast.Constant) and isinstance(e.value, str):
            return e.value
        if isinstance(e, ast.JoinedStr):
            out = ""
            for p in e.values:
                if isinstance(p, ast.Constant):
                    out += str(p.value)
                elif isinstance(p, ast.FormattedValue) and p.conversion == -1 and p.format_spec is None:
                    v = p.value
                    if isinstance(v, ast.Call) and isinstance(v.func, ast.Name) and v.func.id == "sorted" \
                            and len(v.args) == 1 and isinstance(v.args[0], ast.Name) \
                            and isinstance(self.consts.get(v.args[0].id), (set, frozenset)):
                        out += str(sorted(self.consts[v.args[0].id]))
                    elif isinstance(v, ast.Name) and isinstance(self.consts.get(v.id), (set, frozenset)):
                        self.hash_sites.append(f"{site}: message formats the unordered set {v.id}")
                        raise Opaque("set in message")
                    else:
                        c = self.const(v)
                        if not isinstance(c, (str, int)) or isinstance(c, bool):
                            raise Opaque("fmt")
                        out += str(c)
                else:
                    raise Opaque("fmt conv")
            return out
        raise Opaque("not a string")

    def intconst(self, e) -> int:
        v = self.const(e)
        if isinstance(v, bool) or not isinstance(v, (int, float)):
            raise Opaque("non-numeric const")
        if float(v) != int(v):
            raise Opaque("non-integer const")
        return int(v)

    # -- expressions -------------------------------------------------------
    def sec_of(self, e) -> Optional[Tuple[str, Loc]]:
        if isinstance(e, ast.Name) and e.id in self.secs:
            return e.id, self.secs[e.id]
        return None

    def get_call(self, e):
        """X.get("k"[, const]) on a section → (name, loc, key, default) else None."""
        if isinstance(e, ast.Call) and isinstance(e.func, ast.Attribute) and e.func.attr == "get" \
                and 1 <= len(e.args) <= 2 and not e.keywords:
            s = self.sec_of(e.func.value)
            if s is None:
                return None
            try:
                k = self.const(e.args[0])
                d = self.const(e.args[1]) if len(e.args) == 2 else None
            except Opaque:
                return None
            if not isinstance(k, str):
                return None
            self.touched.add(tuple(s[1].path) + (k,))
            return s[0], s[1], k, d
        return None

    def section_expr(self, e) -> Optional[Loc]:
        """_ensure_dict(X.get("k"[, {}])) | _ensure_subdict(X, "k")"""
        if isinstance(e, ast.Call) and isinstance(e.func, ast.Name):
            if e.func.id == "_ensure_dict" and len(e.args) == 1:
                g = self.get_call(e.args[0])
                if g and g[3] in (None, {}) and (g[0], g[2]) not in self.subs:
                    return Loc(g[1].src, g[1].path + (g[2],))
            if e.func.id == "_ensure_subdict" and len(e.args) == 2:
                s = self.sec_of(e.args[0])
                try:
                    k = self.const(e.args[1])
                except Opaque:
                    return None
                if s and isinstance(k, str):
                    self.touched.add(tuple(s[1].path) + (k,))
                if s and isinstance(k, str) and (s[0], k) not in self.subs:
                    return Loc(s[1].src, s[1].path + (k,))
        return None

    def sym(self, e):
        try:
            return self._sym(e)
        except Opaque:
            return UNKNOWN

    def _sym(self, e):
        if isinstance(e, (ast.Constant, ast.UnaryOp)):
            return Const(self.const(e))
        if isinstance(e, ast.Name):
            if e.id in self.bind:
                return Const(self.bind[e.id])
            return self.vals.get(e.id, UNKNOWN)
        if isinstance(e, ast.Subscript):
            s = self.sec_of(e.value)
            if s:
                k = self.const(e.slice)
                return self.subs.get((s[0], k), UNKNOWN)
            return UNKNOWN
        g = self.get_call(e)
        if g:
            name, loc, k, d = g
            if (name, k) in self.subs:
                return self.subs[(name, k)]
            return VE("get", loc, k, d)
        if isinstance(e, ast.Call) and isinstance(e.func, ast.Name):
            f = e.func.id
            if f in ("_coerce_int", "_coerce_float") and 1 <= len(e.args) <= 2 and not e.keywords:
                co = "int" if f == "_coerce_int" else "float"
                inner = self._sym(e.args[0])
                d = self.intconst(e.args[1]) if len(e.args) == 2 else 0
                if isinstance(inner, VE):
                    return NE("co", co, inner, d)
                if isinstance(inner, NE) and inner.co() == co:
                    return inner          # re-coercing a value of that type is the identity
                return UNKNOWN
            if f == "str" and len(e.args) == 1:
                inner = self._sym(e.args[0])
                if isinstance(inner, VE):
                    return SE(inner, False)
                return UNKNOWN
        if isinstance(e, ast.Call) and isinstance(e.func, ast.Attribute) and e.func.attr == "lower" and not e.args:
            inner = self._sym(e.func.value)
            if isinstance(inner, SE):
                return SE(inner.ve, True)
            return UNKNOWN
        if isinstance(e, ast.IfExp):
            c = self.cond(e.test)
            a, b = self._sym(e.body), self._sym(e.orelse)
            if c is not OPAQUE_COND and isinstance(a, SE) and isinstance(b, SE) and a.lower == b.lower:
                return SE(VE("ite", c, a.ve, b.ve), a.lower)
            return UNKNOWN
        return UNKNOWN

    def cond(self, e):
        try:
            return self._cond(e)
        except Opaque:
            return OPAQUE_COND

    def _cond(self, e):
        if isinstance(e, ast.UnaryOp) and isinstance(e.op, ast.Not):
            c = self._cond(e.operand)
            return Cond("not", c)
        if isinstance(e, ast.BoolOp) and isinstance(e.op, ast.And):
            cs = [self._cond(v) for v in e.values]
            out = cs[0]
            for c in cs[1:]:
                out = Cond("and", out, c)
            return out
        if isinstance(e, ast.Name) and e.id in self.secs:
            if any(n == e.id for (n, _k) in self.subs):
                raise Opaque("written section")
            return Cond("truthy", self.secs[e.id])
        if isinstance(e, ast.Compare) and len(e.ops) == 1:
            op, l, r = e.ops[0], e.left, e.comparators[0]
            if isinstance(op, (ast.In, ast.NotIn)):
                s = self.sec_of(r)
                if s:
                    k = self.const(l)
                    if not isinstance(k, str):
                        raise Opaque("key")
                    self.touched.add(tuple(s[1].path) + (k,))
                    if (s[0], k) in self.subs:
                        v = self.subs[(s[0], k)]
                        if v is UNKNOWN or v == "maybe":
                            raise Opaque("maybe-written key")
                        c = Cond("tt")
                    else:
                        c = Cond("has", s[1], k)
                    return c if isinstance(op, ast.In) else Cond("not", c)
            if isinstance(op, (ast.Is, ast.IsNot)) and isinstance(r, ast.Constant) and r.value is None:
                v = self._sym(l)
                if isinstance(v, VE) and v.kind == "get" and v.a[2] is None:
                    c = Cond("isNone", v.a[0], v.a[1])
                    return c if isinstance(op, ast.Is) else Cond("not", c)
        if isinstance(e, ast.Call) and isinstance(e.func, ast.Name) and e.func.id == "isinstance" and len(e.args) == 2:
            g = self.get_call(e.args[0])
            if g and isinstance(e.args[1], ast.Name) and e.args[1].id == "dict" and g[3] is None \
                    and (g[0], g[2]) not in self.subs:
                return Cond("isDictAt", g[1], g[2])
        raise Opaque("cond")

    # -- guards ------------------------------------------------------------
    def guard(self, e):
        """→ ('num', NE, subject-ast, GE) | ('enum', SE, subject-ast, [allowed]) ; raises Opaque"""
        if isinstance(e, ast.UnaryOp) and isinstance(e.op, ast.Not):
            k, v, s, g = self.guard(e.operand)
            if k != "num":
                raise Opaque("not enum")
            return k, v, s, ("not", g)
        if not isinstance(e, ast.Compare):
            raise Opaque("guard form")
        terms = [e.left] + list(e.comparators)
        ops = e.ops
        if len(ops) == 1 and isinstance(ops[0], (ast.In, ast.NotIn)):
            v = self._sym(terms[0])
            r = terms[1]
            if isinstance(r, ast.Name) and isinstance(self.consts.get(r.id), (set, frozenset)):
                members = sorted(self.consts[r.id])
            elif isinstance(r, (ast.Set, ast.Tuple, ast.List)):
                members = [self.const(x) for x in r.elts]
            else:
                raise Opaque("membership rhs")
            neg = isinstance(ops[0], ast.NotIn)
            if isinstance(v, SE):
                if not neg or not all(isinstance(m, str) for m in members):
                    raise Opaque("enum form")
                return "enum", v, terms[0], members
            if isinstance(v, NE):
                if not all(isinstance(m, int) and not isinstance(m, bool) for m in members):
                    raise Opaque("num members")
                g = ("mem", list(members))
                return "num", v, terms[0], ("not", g) if neg else g
            raise Opaque("membership subject")
        if len(ops) == 1:
            v = self._sym(terms[0])
            if not isinstance(v, NE):
                raise Opaque("subject")
            c = self.intconst(terms[1])
            k = {ast.Lt: "lt", ast.LtE: "le", ast.Gt: "gt", ast.GtE: "ge"}.get(type(ops[0]))
            if not k:
                raise Opaque("op")
            return "num", v, terms[0], (k, c)
        if len(ops) == 2 and all(isinstance(o, (ast.Lt, ast.LtE)) for o in ops):
            lo = self.intconst(terms[0])
            v = self._sym(terms[1])
            hi = self.intconst(terms[2])
            if not isinstance(v, NE):
                raise Opaque("subject")
            return "num", v, terms[1], ("between", lo, isinstance(ops[0], ast.Lt), hi, isinstance(ops[1], ast.Lt))
        raise Opaque("guard")

    # -- statements --------------------------------------------------------
    @staticmethod
    def err_call(st) -> Optional[ast.Call]:
        if isinstance(st, ast.Expr) and isinstance(st.value, ast.Call) and isinstance(st.value.func, ast.Name) \
                and st.value.func.id == "_err" and len(st.value.args) == 3:
            return st.value
        return None

    def record_opaque(self, call: ast.Call, why: str):
        try:
            p = self.fstr(call.args[1], "?")
        except Opaque:
            p = ast.unparse(call.args[1])
        self.opaque.append({"line": call.lineno, "path": p, "why": why, "msg": ast.unparse(call.args[2])})

    def cur_conds(self):
        return list(self.conds)

    def root_expr(self, e) -> Optional[Loc]:
        """`_ensure_dict(cfg)` = the raw root; `_deep_merge(<raw root>, defaults)` = the merged root."""
        if isinstance(e, ast.Call) and isinstance(e.func, ast.Name):
            if e.func.id == "_ensure_dict" and len(e.args) == 1 and isinstance(e.args[0], ast.Name) \
                    and e.args[0].id == self.param:
                return Loc("raw", ())
            if e.func.id == "_deep_merge" and len(e.args) == 2:
                s = self.sec_of(e.args[0])
                if s and s[1].src == "raw" and s[1].path == ():
                    return Loc("merged", ())
        return None

    def finalize(self, name: Optional[str] = None):
        """For cells written again after their range check (alias folding, clamping, fallback):
        record the value the cell holds when the section is returned."""
        for (n, k), rules in list(self.live.items()):
            if name is not None and n != name:
                continue
            cur = self.subs.get((n, k))
            for r in rules:
                if r["rewritten"] and cur is not r["val"] and isinstance(cur, NE) and cur.co() == r["co"]:
                    r["final"] = cur
            del self.live[(n, k)]

    def assign_name(self, name: str, value):
        if name in self.secs:
            self.finalize(name)
        root = self.root_expr(value)
        self.secs.pop(name, None)
        loc = root if root is not None else self.section_expr(value)
        if loc is not None:
            self.secs[name] = loc
            self.vals.pop(name, None)
            # a fresh binding of the section: forget writes made through a previous binding
            for key in [k for k in self.subs if k[0] == name]:
                del self.subs[key]
            return
        self.vals[name] = self.sym(value)

    def assign(self, tgt, value):
        if isinstance(tgt, ast.Name):
            self.assign_name(tgt.id, value)
        elif isinstance(tgt, ast.Subscript):
            s = self.sec_of(tgt.value)
            if s:
                try:
                    k = self.const(tgt.slice)
                except Opaque:
                    # unknown key written: forget everything about this section
                    for key in [kk for kk in self.subs if kk[0] == s[0]]:
                        self.subs[key] = UNKNOWN
                    return
                self.touched.add(tuple(s[1].path) + (k,))
                for r in self.live.get((s[0], k), []):
                    r["rewritten"] = True      # a write to a cell after its range check
                self.subs[(s[0], k)] = self.sym(value)
        elif isinstance(tgt, ast.Tuple):
            for t in tgt.elts:
                if isinstance(t, ast.Name):
                    self.vals[t.id] = UNKNOWN
                    self.secs.pop(t.id, None)

    def snapshot(self):
        return dict(self.secs), dict(self.vals), dict(self.subs), {k: list(v) for k, v in self.live.items()}

    def restore(self, snap):
        self.secs, self.vals, self.subs = dict(snap[0]), dict(snap[1]), dict(snap[2])
        self.live = {k: list(v) for k, v in snap[3].items()}

    def merge(self, c, pre, a, b):
        """state after `if c: A else: B` from the two branch states."""
        secs = {k: v for k, v in a[0].items() if k in b[0] and b[0][k] is v}
        for k, v in a[0].items():
            if k in b[0] and b[0][k] is not v and b[0][k].src == v.src and b[0][k].path == v.path:
                secs[k] = v
        vals, subs = {}, {}
        for dst, xa, xb, xp in ((vals, a[1], b[1], pre[1]), (subs, a[2], b[2], pre[2])):
            for k in set(xa) | set(xb):
                va, vb = xa.get(k, "absent"), xb.get(k, "absent")
                if va is vb:
                    dst[k] = va
                    continue
                if c is not OPAQUE_COND and isinstance(va, NE) and isinstance(vb, NE):
                    dst[k] = NE("ite", c, va, vb)
                elif c is not OPAQUE_COND and isinstance(va, SE) and isinstance(vb, SE) and va.lower == vb.lower:
                    dst[k] = SE(VE("ite", c, va.ve, vb.ve), va.lower)
                elif dst is subs and ("absent" in (va, vb)):
                    dst[k] = "maybe"
                else:
                    dst[k] = UNKNOWN
        self.secs, self.vals, self.subs = secs, vals, subs
        live: Dict[Tuple[str, str], List[dict]] = {}
        for side in (a[3], b[3]):
            for k, rs in side.items():
                for r in rs:
                    if not any(r is x for x in live.setdefault(k, [])):
                        live[k].append(r)
        self.live = live

    def block(self, stmts: List[ast.stmt]):
        i = 0
        while i < len(stmts):
            st = stmts[i]
            # `if c: return` inside an inlined helper: the rest runs under `not c`
            if isinstance(st, ast.If) and len(st.body) == 1 and isinstance(st.body[0], ast.Return) and not st.orelse:
                c = self.cond(st.test)
                self.conds.append(OPAQUE_COND if c is OPAQUE_COND else Cond("not", c))
                self.block(stmts[i + 1:])
                self.conds.pop()
                return
            self.stmt(st)
            i += 1

    def stmt(self, st):
        if isinstance(st, ast.Assign):
            for t in st.targets:
                self.assign(t, st.value)
        elif isinstance(st, ast.AnnAssign) and st.value is not None:
            self.assign(st.target, st.value)
        elif isinstance(st, ast.FunctionDef):
            self.local_defs[st.name] = st
        elif isinstance(st, ast.If):
            self.if_stmt(st)
        elif isinstance(st, ast.For):
            self.for_stmt(st)
        elif isinstance(st, ast.Try):
            self.block(st.body)
            for h in st.handlers:
                self.conds.append(OPAQUE_COND)
                self.block(h.body)
                self.conds.pop()
        elif isinstance(st, ast.Expr):
            call = self.err_call(st)
            if call is not None:
                self.record_opaque(call, "unconditional or non-rule-shaped _err")
            elif isinstance(st.value, ast.Call) and isinstance(st.value.func, ast.Name) \
                    and st.value.func.id in self.local_defs:
                self.inline(self.local_defs[st.value.func.id], st.value)
        # Raise / Return / Pass / others: nothing to track

    def inline(self, fd: ast.FunctionDef, call: ast.Call):
        saved = dict(self.bind)
        try:
            for p, a in zip(fd.args.args, call.args):
                self.bind[p.arg] = self.const(a)
        except Opaque:
            self.bind = saved
            self.conds.append(OPAQUE_COND)
            self.block(fd.body)
            self.conds.pop()
            return
        self.block(fd.body)
        self.bind = saved

    def for_stmt(self, st: ast.For):
        # constant tuple → unroll
        if isinstance(st.iter, (ast.Tuple, ast.List)) and isinstance(st.target, ast.Name):
            try:
                items = [self.const(x) for x in st.iter.elts]
            except Opaque:
                items = None
            if items is not None:
                for it in items:
                    saved = dict(self.bind)
                    self.bind[st.target.id] = it
                    self.block(st.body)
                    self.bind = saved
                return
        # unknown-key pattern
        u = self.unknown_key_loop(st)
        if u is not None:
            u["conds"] = self.cur_conds()
            if any(c is OPAQUE_COND for c in u["conds"]):
                self.opaque.append({"line": st.lineno, "path": u["pre"] + "{k}", "why": "unknown-key loop under an untranslated condition"})
            else:
                self.rules.append(u)
            return
        self.conds.append(OPAQUE_COND)
        snap = self.snapshot()
        self.block(st.body)
        after = self.snapshot()
        self.conds.pop()
        self.merge(OPAQUE_COND, snap, after, snap)

    def unknown_key_loop(self, st: ast.For) -> Optional[dict]:
        it = st.iter
        if not (isinstance(it, ast.Call) and isinstance(it.func, ast.Attribute) and it.func.attr == "keys"
                and isinstance(st.target, ast.Name) and len(st.body) == 1 and isinstance(st.body[0], ast.If)):
            return None
        s = self.sec_of(it.func.value)
        if s is None or s[1].src != "raw":
            return None
        kv = st.target.id
        iff = st.body[0]
        t = iff.test
        if not (isinstance(t, ast.Compare) and len(t.ops) == 1 and isinstance(t.ops[0], ast.NotIn)
                and isinstance(t.left, ast.Name) and t.left.id == kv and isinstance(t.comparators[0], ast.Name)):
            return None
        aname = t.comparators[0].id
        allowed = self.consts.get(aname)
        if not isinstance(allowed, (set, frozenset)) or iff.orelse:
            return None
        src = ast.unparse(iff)
        # the two spellings used in the file
        calls = [n for n in ast.walk(iff) if isinstance(n, ast.Call) and isinstance(n.func, ast.Name) and n.func.id == "_err"]
        sug = [n for n in ast.walk(iff) if isinstance(n, ast.Call) and isinstance(n.func, ast.Name) and n.func.id == "_suggest_key"]
        if not calls or len(sug) != 1:
            return None
        sc = sug[0]
        if not (len(sc.args) == 2 and isinstance(sc.args[0], ast.Name) and sc.args[0].id == kv
                and isinstance(sc.args[1], ast.Name) and sc.args[1].id == aname):
            return None
        pre = None
        msg = None
        for c in calls:
            p = c.args[1]
            if isinstance(p, ast.Name) and p.id == kv:
                ppre = ""
            elif isinstance(p, ast.JoinedStr) and len(p.values) == 2 and isinstance(p.values[0], ast.Constant) \
                    and isinstance(p.values[1], ast.FormattedValue) and isinstance(p.values[1].value, ast.Name) \
                    and p.values[1].value.id == kv and p.values[1].conversion == -1:
                ppre = p.values[0].value
            else:
                return None
            m = c.args[2]
            if isinstance(m, ast.Constant):
                base = m.value
            elif isinstance(m, ast.JoinedStr) and isinstance(m.values[0], ast.Constant):
                base = m.values[0].value
                rest = ast.unparse(m)
                if "{hint}" in rest:
                    pass
                elif "(did you mean '" in base:
                    base = base.split(" (did you mean '")[0]
                else:
                    return None
            else:
                return None
            if pre is not None and (pre != ppre or msg != base):
                return None
            pre, msg = ppre, base
        if "did you mean '" not in src:
            return None
        return {"kind": "unk", "loc": s[1], "pre": pre, "msg": msg, "allowed": sorted(allowed), "allowed_name": aname,
                "line": st.lineno}

    def if_stmt(self, st: ast.If):
        errs = [self.err_call(x) for x in st.body]
        first = errs[0] if errs else None
        if first is not None:
            # rule-shaped: `if GUARD: _err(errors, PATH, MSG) [; fallback assignments]`
            made = False
            try:
                kind, v, subj, g = self.guard(st.test)
                path = self.fstr(first.args[1], f"line {first.lineno}")
                msg_prefix = None
                try:
                    msg = self.fstr(first.args[2], path)
                except Opaque:
                    # message formats the offending value (`{x!r}`): no constant text, but the check itself
                    # is still an enumeration rule — keep it for the OUTPUT monitor (`enumChecks`)
                    m = first.args[2]
                    if kind == "enum" and isinstance(m, ast.JoinedStr) and m.values and isinstance(m.values[0], ast.Constant):
                        msg, msg_prefix = None, str(m.values[0].value)
                    else:
                        raise
                conds = self.cur_conds()
                if any(c is OPAQUE_COND for c in conds):
                    raise Opaque("under an untranslated condition")
                out: List[str] = []
                if isinstance(subj, ast.Subscript):
                    s = self.sec_of(subj.value)
                    if s:
                        out = list(s[1].path) + [self.const(subj.slice)]
                if kind == "num":
                    co = v.co()
                    if co is None:
                        raise Opaque("mixed coercions")
                    sg = v.single_get()
                    if sg is not None and not out:
                        out = list(sg[0].path) + [sg[1]]
                    rule = {"kind": "num", "path": path, "msg": msg, "conds": conds, "val": v, "co": co,
                            "guard": g, "doc": parse_doc(msg), "out": out, "line": st.lineno,
                            "final": None, "rewritten": False}
                    self.rules.append(rule)
                    if isinstance(subj, ast.Subscript) and self.sec_of(subj.value):
                        self.live.setdefault((self.sec_of(subj.value)[0], self.const(subj.slice)), []).append(rule)
                else:
                    sg = v.ve.single_get()
                    if sg is not None and not out:
                        out = list(sg[0].path) + [sg[1]]
                    erule = {"kind": "enum", "path": path, "msg": msg if msg is not None else "", "conds": conds, "val": v.ve,
                             "lower": v.lower, "allowed": list(g),
                             "doc": parse_enum_doc(msg if msg is not None else msg_prefix), "out": out,
                             "line": st.lineno, "subj_src": ast.unparse(subj),
                             "subj_is_cell": isinstance(subj, ast.Subscript) and self.sec_of(subj.value) is not None}
                    if msg is None:
                        self.enum_checks.append(erule)
                        raise Opaque("message formats the value (kept as an output-only enumeration check)")
                    self.rules.append(erule)
                made = True
            except Opaque as ex:
                self.record_opaque(first, str(ex))
            # the rest of the body / orelse: executed under an untranslated condition
            snap = self.snapshot()
            self.conds.append(OPAQUE_COND)
            self.block([x for x in st.body[1:]])
            a = self.snapshot()
            self.restore(snap)
            self.block(st.orelse)
            b = self.snapshot()
            self.conds.pop()
            self.merge(OPAQUE_COND, snap, a, b)
            _ = made
            return
        c = self.cond(st.test)
        snap = self.snapshot()
        self.conds.append(c)
        self.block(st.body)
        a = self.snapshot()
        self.conds.pop()
        self.restore(snap)
        self.conds.append(OPAQUE_COND if c is OPAQUE_COND else Cond("not", c))
        self.block(st.orelse)
        b = self.snapshot()
        self.conds.pop()
        self.merge(c, snap, a, b)


# ---- module-level facts ----------------------------------------------------

def module_consts(mod: ast.Module) -> Dict[str, Any]:
    out: Dict[str, Any] = {}
    for st in mod.body:
        tgt = None
        if isinstance(st, ast.Assign) and len(st.targets) == 1 and isinstance(st.targets[0], ast.Name):
            tgt, val = st.targets[0].id, st.value
        elif isinstance(st, ast.AnnAssign) and isinstance(st.target, ast.Name) and st.value is not None:
            tgt, val = st.target.id, st.value
        if tgt:
            try:
                out[tgt] = ast.literal_eval(val)
            except Exception:
                pass
    return out


def suggest_facts(mod: ast.Module) -> Dict[str, bool]:
    """Does `_suggest_key` iterate sorted(allowed)?  Does it hand `str(bad)` to `_lev`?"""
    fn = next((n for n in mod.body if isinstance(n, ast.FunctionDef) and n.name == "_suggest_key"), None)
    facts = {"sorted": False, "strwrap": False}
    if fn is None:
        return facts
    bad = fn.args.args[0].arg
    allowed = fn.args.args[1].arg
    wrapped_names = {bad} if False else set()
    for n in ast.walk(fn):
        # bad = str(bad)
        if isinstance(n, ast.Assign) and len(n.targets) == 1 and isinstance(n.targets[0], ast.Name) \
                and isinstance(n.value, ast.Call) and isinstance(n.value.func, ast.Name) and n.value.func.id == "str" \
                and len(n.value.args) == 1 and isinstance(n.value.args[0], ast.Name) and n.value.args[0].id == bad:
            wrapped_names.add(n.targets[0].id)
    for n in ast.walk(fn):
        if isinstance(n, ast.For):
            it = n.iter
            if isinstance(it, ast.Call) and isinstance(it.func, ast.Name) and it.func.id == "sorted" \
                    and len(it.args) == 1 and isinstance(it.args[0], ast.Name) and it.args[0].id == allowed \
                    and not it.keywords:
                facts["sorted"] = True
        if isinstance(n, ast.Call) and isinstance(n.func, ast.Name) and n.func.id == "_lev" and n.args:
            a0 = n.args[0]
            if isinstance(a0, ast.Call) and isinstance(a0.func, ast.Name) and a0.func.id == "str":
                facts["strwrap"] = True
            if isinstance(a0, ast.Name) and a0.id in wrapped_names:
                facts["strwrap"] = True
    return facts


def enum_folded(fn: ast.FunctionDef, r: dict) -> bool:
    """Is the value that was tested (e.g. the lower-cased copy) also what is stored at the rule's
    output path?  True when the tested expression is the cell itself, or when a later assignment
    `X["<last key of out>"] = <the tested expression>` exists."""
    if r.get("subj_is_cell"):
        return True
    key = (r["out"] or r["path"].split("."))[-1]
    for n in ast.walk(fn):
        if isinstance(n, ast.Assign) and n.lineno > r["line"] and ast.unparse(n.value) == r["subj_src"]:
            for t in n.targets:
                if isinstance(t, ast.Subscript) and isinstance(t.slice, ast.Constant) and t.slice.value == key:
                    return True
    return False


def duplicate_capable_sites(fn: ast.FunctionDef) -> Dict[str, List[str]]:
    """`_err` sites that can put the SAME line into the error list more than once:
    `same` = one (path, message) source text reported by two or more sites;
    `loop` = a site inside a data-driven `for` loop (one line per offending element)."""
    sites: List[Tuple[str, str, bool, int]] = []

    def visit(node, in_loop):
        for ch in ast.iter_child_nodes(node):
            loop = in_loop
            if isinstance(ch, ast.For) and not isinstance(ch.iter, (ast.Tuple, ast.List)):
                loop = True
            if isinstance(ch, ast.Call) and isinstance(ch.func, ast.Name) and ch.func.id == "_err" and len(ch.args) == 3:
                sites.append((ast.unparse(ch.args[1]), ast.unparse(ch.args[2]), in_loop, ch.lineno))
            visit(ch, loop)
    visit(fn, False)
    count: Dict[Tuple[str, str], int] = {}
    for p, m, _l, _n in sites:
        count[(p, m)] = count.get((p, m), 0) + 1
    same = sorted({p.strip("'\"") for (p, m), c in count.items() if c >= 2})
    loop = sorted({p for p, _m, l, _n in sites if l})
    return {"same": same, "loop": loop}


def translate(repo: Path) -> dict:
    mod = ast.parse((repo / SRC).read_text())
    consts = module_consts(mod)
    fn = next(n for n in mod.body if isinstance(n, ast.FunctionDef) and n.name == FN)
    w = Walker(mod, consts)
    w.param = fn.args.args[0].arg
    w.block(fn.body)
    w.finalize()
    for r in list(w.rules) + w.enum_checks:
        if r["kind"] == "enum":
            r["folded"] = enum_folded(fn, r)
    for r in w.rules:
        if r["kind"] == "num":
            r["aliases"] = alias_paths(r)
    total_err = sum(1 for n in ast.walk(fn) if isinstance(n, ast.Call) and isinstance(n.func, ast.Name) and n.func.id == "_err")
    return {"consts": consts, "rules": w.rules, "opaque": w.opaque, "hash_sites": w.hash_sites,
            "facts": suggest_facts(mod), "total_err_sites": total_err, "touched": w.touched,
            "dup_sites": duplicate_capable_sites(fn), "enum_checks": w.enum_checks}


# ---- Lean emission ---------------------------------------------------------

def conds_lean(cs) -> str:
    return "[" + ", ".join(c.lean() for c in cs) + "]"


def rule_lean(r: dict) -> str:
    if r["kind"] == "unk":
        return (f"  -- line {r['line']}: unknown keys of {'.'.join(r['loc'].path) or '<top>'} vs {r['allowed_name']}\n"
                f"  .unk ⟨{r['loc'].lean()}, {lean_str(r['pre'])}, {lean_str(r['msg'])}, allowed_{r['allowed_name']}, {conds_lean(r['conds'])}⟩")
    if r["kind"] == "num":
        return (f"  -- line {r['line']}: {r['path']} {r['msg']}\n"
                f"  .num ⟨{lean_str(r['path'])}, {lean_str(r['msg'])}, {conds_lean(r['conds'])},\n"
                f"    {r['val'].lean()},\n"
                f"    .{r['co']}, {ge_lean(r['guard'])}, {doc_lean(r['doc'])}, {lean_strs(r['out'])},\n"
                f"    {'none' if r.get('final') is None else '(some ' + r['final'].lean() + ')'}, "
                f"{'true' if r.get('rewritten') else 'false'}, "
                f"[{', '.join(lean_strs(a) for a in r.get('aliases', []))}]⟩")
    return (f"  -- line {r['line']}: {r['path']} {r['msg']}\n"
            f"  .enum ⟨{lean_str(r['path'])}, {lean_str(r['msg'])}, {conds_lean(r['conds'])},\n"
            f"    {r['val'].lean()},\n"
            f"    {'true' if r['lower'] else 'false'}, {lean_strs(r['allowed'])}, {lean_strs(r['doc'])}, {lean_strs(r['out'])}, "
            f"{'true' if r.get('folded') else 'false'}⟩")


def _locs(x):
    if isinstance(x, NE):
        if x.kind == "co":
            yield from _locs(x.a[1])
        else:
            yield from _locs(x.a[1])
            yield from _locs(x.a[2])
    elif isinstance(x, VE):
        if x.kind == "get":
            yield tuple(x.a[0].path)
        else:
            yield from _locs(x.a[1])
            yield from _locs(x.a[2])


def known_sections(t: dict) -> List[Tuple[str, ...]]:
    secs = set()

    def walk(d, p=()):
        for k, v in d.items():
            if isinstance(v, dict) and v and isinstance(k, str):
                secs.add(p + (k,))
                walk(v, p + (k,))
    walk(t["consts"].get("DEFAULTS", {}))
    for r in t["rules"]:
        if r["kind"] in ("num", "enum"):
            for p in _locs(r["val"]):
                if p:
                    secs.add(p)
    return sorted(secs)


def _gets(x):
    """(section path, key) of every `.get` a value expression reads."""
    if isinstance(x, NE):
        if x.kind == "co":
            yield from _gets(x.a[1])
        else:
            yield from _gets(x.a[1])
            yield from _gets(x.a[2])
    elif isinstance(x, VE):
        if x.kind == "get":
            yield tuple(x.a[0].path) + (x.a[1],)
        else:
            yield from _gets(x.a[1])
            yield from _gets(x.a[2])


def alias_paths(r: dict) -> List[Tuple[str, ...]]:
    """Other keys whose value can end up in the rule's canonical leaf (alias folding)."""
    canon = tuple(r["out"])
    seen: List[Tuple[str, ...]] = []
    for x in (r["val"], r.get("final")):
        if x is None:
            continue
        for p in _gets(x):
            if p != canon and p not in seen:
                seen.append(p)
    return seen if canon else []


def emit(t: dict) -> str:
    c = t["consts"]
    sets = sorted(k for k, v in c.items() if isinstance(v, (set, frozenset)) and all(isinstance(x, str) for x in v))
    L = ["/-", "GENERATED by harness/tables/validator.py from configs/validate.py — do not edit.",
         "Rule table of `_validate_config_normalize_impl`, allowed-key sets, DEFAULTS, structural facts.", "-/",
         "import Clem.Model.Valid", "", "namespace Clem.Gen.ValidRules", "open Clem.Valid", ""]
    L.append(f"def version : Str := {lean_str(str(c.get('CONFIG_VERSION', '')))}")
    L.append("")
    for s in sets:
        L.append(f"def allowed_{s} : List Str := {lean_strs(sorted(c[s]))}")
    L.append("")
    L.append("def allowedSets : List (List Str) := [" + ", ".join(f"allowed_{s}" for s in sets) + "]")
    L.append("/-- The `ALLOWED_*` key sets (one per config section). -/")
    L.append("def allowedKeySets : List (List Str) := [" + ", ".join(f"allowed_{s}" for s in sets if s.startswith("ALLOWED_")) + "]")
    L.append("")
    L.append(f"def defaults : List (K × J) := {lean_kvs(c.get('DEFAULTS', {}))}")
    L.append("")
    L.append("/-- `_suggest_key` iterates `sorted(allowed)` (not the raw `set`). -/")
    L.append(f"def suggestSorted : Bool := {'true' if t['facts']['sorted'] else 'false'}")
    L.append("/-- `_suggest_key` hands `str(bad)` to `_lev` (non-string keys cannot raise `TypeError`). -/")
    L.append(f"def suggestStrWrap : Bool := {'true' if t['facts']['strwrap'] else 'false'}")
    L.append("/-- Message sites that format an unordered `set` (hash-seed dependent text). -/")
    L.append(f"def hashOrderSites : List Str := {lean_strs(t['hash_sites'])}")
    L.append("/-- `_err` sites outside the typed patterns (recorded, not range-proved): their paths. -/")
    L.append(f"def opaqueSites : List Str := {lean_strs(sorted(set(o['path'] for o in t['opaque'])))}")
    L.append(f"def totalErrSites : Nat := {t['total_err_sites']}")
    L.append("/-- Sections the code knows: non-empty dicts of DEFAULTS and every section a typed rule reads. -/")
    L.append(f"def knownSections : List (List Str) := [" + ", ".join(lean_strs(p) for p in known_sections(t)) + "]")
    L.append("")
    L.append("def rules : List Rule := [")
    L.append(",\n".join(rule_lean(r) for r in t["rules"]))
    L.append("]")
    L.append("")
    L.append("/-- Enumeration checks whose message formats the offending value (no constant text): not part of")
    L.append("the message model, but their verdict and the value they leave at the output path are monitored. -/")
    L.append("def enumChecks : List EnumRule := [")
    L.append(",\n".join(rule_lean(r)[rule_lean(r).index("  .enum ") + 8:] for r in t.get("enum_checks", [])))
    L.append("]")
    L.append("")
    L.append("end Clem.Gen.ValidRules")
    return "\n".join(L) + "\n"


def summary(t: dict) -> dict:
    kinds: Dict[str, int] = {}
    for r in t["rules"]:
        kinds[r["kind"]] = kinds.get(r["kind"], 0) + 1
    return {"rules": kinds, "opaque_sites": len(t["opaque"]), "err_sites": t["total_err_sites"],
            "hash_order_sites": len(t["hash_sites"]), "suggest_sorted": t["facts"]["sorted"],
            "suggest_strwrap": t["facts"]["strwrap"],
            "undocumented_num_rules": [r["path"] for r in t["rules"] if r["kind"] == "num" and r["doc"] is None],
            "enum_checks": [r["path"] for r in t.get("enum_checks", [])],
            "enum_unfolded": [r["path"] for r in list(t["rules"]) + t.get("enum_checks", [])
                              if r["kind"] == "enum" and r["lower"] and not r.get("folded")],
            "duplicate_capable_sites": {k: len(v) for k, v in t.get("dup_sites", {}).items()},
            "rewritten_after_check": [r["path"] for r in t["rules"] if r["kind"] == "num" and r.get("rewritten")],
            "alias_rules": {r["path"]: [".".join(a) for a in r["aliases"]] for r in t["rules"]
                            if r["kind"] == "num" and r.get("aliases")}}


def typed_messages(t: dict) -> List[str]:
    return [f"{r['path']} {r['msg']}" for r in t["rules"] if r["kind"] in ("num", "enum")]


@table
def gen(repo: Path):
    t = translate(repo)
    return {"ValidRules.lean": emit(t)}, {"ValidRules.lean": summary(t)}
