"""Tables for C16 (log streams), regenerated from the source on every check:
STAGE_ORD, the default ordinal of `default_key_for`, both copies of `_IDENTITY_LOGS`,
the stream-name literals compared in `normalize_for_identity`, the record fields it writes/pops,
and the sort-key components of `LogStager.drain_sorted`."""
from __future__ import annotations

import ast
from pathlib import Path

from harness.extract import table


def _cp(s: str) -> str:
    return "[" + ", ".join(str(ord(c)) for c in s) + "]"


def _strs(xs) -> str:
    return "[" + ",\n   ".join(f"{_cp(x)} /- {x!r} -/" for x in xs) + "]"


def _module_assign(tree: ast.Module, name: str):
    for n in tree.body:
        if isinstance(n, ast.Assign) and any(isinstance(t, ast.Name) and t.id == name for t in n.targets):
            return n.value
        if isinstance(n, ast.AnnAssign) and isinstance(n.target, ast.Name) and n.target.id == name:
            return n.value
    raise KeyError(name)


def _func(tree, name):
    for n in ast.walk(tree):
        if isinstance(n, ast.FunctionDef) and n.name == name:
            return n
    raise KeyError(name)


@table
def gen(repo: Path):
    iol = ast.parse((repo / "clematis/engine/util/io_logging.py").read_text())
    log = ast.parse((repo / "clematis/io/log.py").read_text())
    stage_ord = ast.literal_eval(_module_assign(iol, "STAGE_ORD"))
    ident_io = sorted(ast.literal_eval(_module_assign(iol, "_IDENTITY_LOGS")))
    ident_log = sorted(ast.literal_eval(_module_assign(log, "_IDENTITY_LOGS")))
    # default ordinal: STAGE_ORD.get(name, <d>) inside default_key_for
    dk = _func(iol, "default_key_for")
    default_ord = None
    for n in ast.walk(dk):
        if (isinstance(n, ast.Call) and isinstance(n.func, ast.Attribute) and n.func.attr == "get"
                and isinstance(n.func.value, ast.Name) and n.func.value.id == "STAGE_ORD" and len(n.args) == 2):
            default_ord = ast.literal_eval(n.args[1])
    if not isinstance(default_ord, int):
        raise ValueError("default ordinal of default_key_for not found")
    # normalize_for_identity: name literals compared, fields written / popped
    nf = _func(iol, "normalize_for_identity")
    name_lits, written, popped = [], set(), set()
    for n in ast.walk(nf):
        if isinstance(n, ast.Compare) and isinstance(n.left, ast.Name) and n.left.id == "name":
            for c in n.comparators:
                if isinstance(c, ast.Constant) and isinstance(c.value, str) and c.value not in name_lits:
                    name_lits.append(c.value)
        if isinstance(n, ast.Assign):
            for t in n.targets:
                if isinstance(t, ast.Subscript) and isinstance(t.slice, ast.Constant) and isinstance(t.slice.value, str):
                    written.add(t.slice.value)
        if (isinstance(n, ast.Call) and isinstance(n.func, ast.Attribute) and n.func.attr == "pop" and n.args
                and isinstance(n.args[0], ast.Constant) and isinstance(n.args[0].value, str)):
            popped.add(n.args[0].value)
    name_lits = sorted(name_lits)
    # drain_sorted: attribute chain of the sort key
    ds = _func(iol, "drain_sorted")
    comps = []
    for n in ast.walk(ds):
        if isinstance(n, ast.Lambda) and isinstance(n.body, ast.Tuple):
            for e in n.body.elts:
                parts = []
                while isinstance(e, ast.Attribute):
                    parts.append(e.attr)
                    e = e.value
                comps.append(".".join(reversed(parts)))
    # atomic_replace: the errno values it retries (`e.errno not in {…}`; the set literal may be hoisted to a
    # module constant) and whether PermissionError is retried
    atom = ast.parse((repo / "clematis/io/atomic.py").read_text())
    ar = _func(atom, "atomic_replace")

    def _errno_names(node):
        if isinstance(node, ast.Call) and node.args:  # frozenset({...}) / set([...])
            node = node.args[0]
        if isinstance(node, (ast.Set, ast.List, ast.Tuple)):
            return sorted(e.attr for e in node.elts if isinstance(e, ast.Attribute))
        if isinstance(node, ast.Name):
            return _errno_names(_module_assign(atom, node.id))
        raise ValueError("retry errno set of atomic_replace not found")
    retry = None
    for n in ast.walk(ar):
        if (isinstance(n, ast.Compare) and isinstance(n.left, ast.Attribute) and n.left.attr == "errno"
                and len(n.ops) == 1 and isinstance(n.ops[0], (ast.NotIn, ast.In))):
            retry = _errno_names(n.comparators[0])
    if retry is None:
        raise ValueError("retry errno set of atomic_replace not found")
    retries_perm = any(isinstance(h.type, ast.Name) and h.type.id == "PermissionError"
                       for n in ast.walk(ar) if isinstance(n, ast.Try) for h in n.handlers)
    # the clean-up `tmp_path.unlink()` of atomic_replace is guarded by its `unlink_on_failure` flag …
    guarded = False
    for n in ast.walk(ar):
        if isinstance(n, ast.If) and any(isinstance(x, ast.Name) and x.id == "unlink_on_failure" for x in ast.walk(n.test)):
            if any(isinstance(c, ast.Call) and isinstance(c.func, ast.Attribute) and c.func.attr == "unlink" for c in ast.walk(n)):
                guarded = True
    unguarded_unlink = [c for c in ast.walk(ar) if isinstance(c, ast.Call) and isinstance(c.func, ast.Attribute)
                        and c.func.attr == "unlink"]
    guarded = guarded and len(unguarded_unlink) == 1
    # … and every atomic_replace call of rotate_one passes unlink_on_failure=False
    rl = ast.parse((repo / "clematis/scripts/rotate_logs.py").read_text())
    r1 = _func(rl, "rotate_one")
    calls = [c for c in ast.walk(r1) if isinstance(c, ast.Call) and isinstance(c.func, ast.Name) and c.func.id == "atomic_replace"]
    keeps = bool(calls) and all(any(k.arg == "unlink_on_failure" and isinstance(k.value, ast.Constant) and k.value.value is False
                                    for k in c.keywords) for c in calls)
    items = sorted(stage_ord.items(), key=lambda kv: (kv[1], kv[0]))
    src = f"""/- GENERATED by harness/tables/logs.py from clematis/engine/util/io_logging.py and clematis/io/log.py — do not edit. -/
namespace Clem.Gen.Logs

/-- `STAGE_ORD` (stream basename as code points, ordinal). -/
def stageOrd : List (List Nat × Nat) :=
  [{(",\n   ".join(f"({_cp(k)} /- {k!r} -/, {v})" for k, v in items))}]

/-- default ordinal in `default_key_for` (`STAGE_ORD.get(name, d)`). -/
def stageOrdDefault : Nat := {default_ord}

/-- `_IDENTITY_LOGS` in engine/util/io_logging.py (sorted). -/
def identityLogsIo : List (List Nat) :=
  {_strs(ident_io)}

/-- `_IDENTITY_LOGS` in io/log.py (sorted). -/
def identityLogsLog : List (List Nat) :=
  {_strs(ident_log)}

/-- stream names compared literally (`name == "…"`) in `normalize_for_identity` (sorted). -/
def normalizeNameLiterals : List (List Nat) :=
  {_strs(name_lits)}

/-- record fields assigned (`out["k"] = …`) in `normalize_for_identity` (sorted). -/
def normalizeWritten : List (List Nat) :=
  {_strs(sorted(written))}

/-- record fields popped (`out.pop("k", None)`) in `normalize_for_identity` (sorted). -/
def normalizePopped : List (List Nat) :=
  {_strs(sorted(popped))}

/-- components of the `drain_sorted` sort key, in order (as attribute paths, code points). -/
def drainKey : List (List Nat) :=
  {_strs(comps)}

/-- errno names `atomic_replace` (io/atomic.py) treats as transient and retries (sorted). -/
def replaceRetryErrnos : List (List Nat) :=
  {_strs(retry)}

/-- `atomic_replace` also retries `PermissionError`. -/
def replaceRetriesPermissionError : Bool := {"true" if retries_perm else "false"}

/-- the clean-up `unlink` of `atomic_replace` is under `if unlink_on_failure …`. -/
def replaceUnlinkGuardedByFlag : Bool := {"true" if guarded else "false"}

/-- every `atomic_replace(...)` call in `rotate_one` passes `unlink_on_failure=False`. -/
def rotateKeepsSourceOnFailure : Bool := {"true" if keeps else "false"}

end Clem.Gen.Logs
"""
    summary = {"Logs.lean": {"stage_ord": len(items), "identity_io": ident_io, "identity_log": ident_log,
                             "name_literals": name_lits, "written": sorted(written), "popped": sorted(popped),
                             "drain_key": comps, "default_ord": default_ord,
                             "replace_retry_errnos": retry, "retries_permission_error": retries_perm,
                             "unlink_guarded": guarded, "rotate_keeps_source": keeps}}
    return {"Logs.lean": src}, summary
