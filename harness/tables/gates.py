"""
Gate table for C02 — regenerated from the repository's AST on every check.

For every gated call / emit site listed in SITES the generator locates the node in the current source and
extracts its *dominating predicate*: the conjunction of the enclosing `if` tests (negated in `else` branches),
of the negated tests of preceding early-exit `if … return` statements of the same block, and of the test of a
conditional expression.  Names are resolved through the function's own single assignments down to configuration
reads (`_cfg_get(root, [...], default)`, `<subtree alias>.get("k", default)`), calls of gate predicates
(`_m5_enabled`, `gate_on`, `_t1_parallel_enabled`, `t2_parallel_enabled`, …) are replaced by the predicate
extracted from *their* bodies, `X is not None` for a variable initialised to None is replaced by the disjunction
of the guards of its non-None assignments.  Whatever is not recognised becomes an opaque external atom
(`ext "<source text>"`), which can never establish a gate.  Output: lean/Clem/Gen/Gates.lean (leaf names,
features, sites as `Clem.Py.GExpr` trees); the theorems of Clem.Props.C02 `decide` over it.

What is declared by hand here (and only checked for presence): which sites exist, which feature owns them, the
artefacts they emit and the configuration leaves whose value they consume.
"""
from __future__ import annotations

import ast
from pathlib import Path
from typing import Any, Dict, List, Optional, Tuple

from harness.extract import table, lean_str

ORCH = "clematis/engine/orchestrator/core.py"
T1 = "clematis/engine/stages/t1.py"
T2C = "clematis/engine/stages/t2/core.py"
T2M = "clematis/engine/stages/t2/metrics.py"
T2Q = "clematis/engine/stages/t2/quality.py"
T2QO = "clematis/engine/stages/t2/quality_ops.py"
T2CA = "clematis/engine/stages/t2/cache.py"
T2P = "clematis/engine/stages/t2/parallel.py"
T2CFG = "clematis/engine/stages/t2/config.py"
HYB = "clematis/engine/stages/hybrid.py"
UMET = "clematis/engine/util/metrics.py"
PAR = "clematis/engine/orchestrator/parallel.py"

# ---------------------------------------------------------------------------------------------
# features (gates): flag leaf, subtree prefix, leaves under the prefix NOT owned by the gate, artefacts
# ---------------------------------------------------------------------------------------------
FEATURES = [
    # name, flag, prefix, not-owned leaves
    # perf.* without the perf.parallel block: what the code actually gates by the master switch
    ("perf", "perf.enabled", "perf.", ["perf.parallel.enabled", "perf.parallel.t1", "perf.parallel.t2",
                                       "perf.parallel.max_workers", "perf.parallel.agents"]),
    # the full subtree, as the property statement words it (the parallel predicates ignore the master switch)
    ("perf.full", "perf.enabled", "perf.", []),
    ("perf.parallel", "perf.parallel.enabled", "perf.parallel.", []),
    ("graph", "graph.enabled", "graph.", []),
    ("t2.quality", "t2.quality.enabled", "t2.quality.",
     ["t2.quality.shadow", "t2.quality.trace_dir", "t2.quality.redact"]),
    ("t2.hybrid", "t2.hybrid.enabled", "t2.hybrid.", []),
    ("t3.reflection", "t3.allow_reflection", "t3.reflection.", []),
    # documented (docs/m10/reflection.md) as reflection's own budgets although they live under scheduler.budgets
    ("scheduler", "scheduler.enabled", "scheduler.",
     ["scheduler.budgets.ops_reflection", "scheduler.budgets.time_ms_reflection"]),
    # the full subtree, as the property statement words it (kept to state the negative result)
    ("scheduler.full", "scheduler.enabled", "scheduler.", []),
    # shadow tracing: its artefact is documented as gated by the perf master switch
    ("shadow", "perf.enabled", "t2.quality.shadow", []),
]
ARTEFACTS = ["gel.jsonl", "t3_reflection.jsonl", "scheduler.jsonl", "rq_traces.jsonl", "t1.perf_keys",
             "t1.parallel_keys", "t2.perf_keys", "t2q.keys", "t2.hybrid_info", "turn.slice_keys", "t2.q_digest"]
FEATURE_ARTEFACTS = {
    "perf": ["rq_traces.jsonl", "t1.perf_keys", "t1.parallel_keys", "t2.perf_keys", "t2q.keys"],
    "perf.parallel": [],
    "perf.full": ["rq_traces.jsonl", "t1.perf_keys", "t1.parallel_keys", "t2.perf_keys", "t2q.keys"],
    "graph": ["gel.jsonl"],
    "t2.quality": ["t2q.keys", "t2.q_digest"],
    "t2.hybrid": ["t2.hybrid_info"],
    "t3.reflection": ["t3_reflection.jsonl"],
    "scheduler": ["scheduler.jsonl", "turn.slice_keys"],
    "scheduler.full": ["scheduler.jsonl", "turn.slice_keys"],
    "shadow": ["rq_traces.jsonl"],
}

LEAVES_EXTRA = [
    "perf.enabled", "perf.metrics.report_memory", "perf.parallel.enabled", "perf.parallel.t1", "perf.parallel.t2",
    "perf.parallel.max_workers", "perf.parallel.agents", "perf.t1.caps.frontier", "perf.t1.caps.visited",
    "perf.t1.dedupe_window", "perf.t1.queue_cap", "perf.t1.cache.max_entries", "perf.t1.cache.max_bytes",
    "perf.t2.cache.max_entries", "perf.t2.cache.max_bytes", "perf.t2.embed_dtype", "perf.t2.embed_store_dtype",
    "perf.t2.precompute_norms", "perf.t2.reader.partitions.enabled", "perf.t2.reader.partitions.layout",
    "perf.t2.reader.partitions.path", "perf.t2.reader.partitions.by", "perf.snapshots.compression",
    "perf.snapshots.level", "perf.snapshots.delta_mode", "perf.snapshots.every_n_turns",
    "graph.enabled", "graph.coactivation_threshold", "graph.observe_top_k", "graph.pair_cap_per_obs",
    "graph.update.mode", "graph.update.alpha", "graph.update.clamp_min", "graph.update.clamp_max",
    "graph.decay.half_life_turns", "graph.decay.floor", "graph.merge.enabled", "graph.merge.min_size",
    "graph.merge.min_avg_w", "graph.merge.max_diameter", "graph.merge.cap_per_turn", "graph.split.enabled",
    "graph.split.weak_edge_thresh", "graph.split.min_component_size", "graph.split.cap_per_turn",
    "graph.promotion.enabled", "graph.promotion.label_mode", "graph.promotion.topk_label_ids",
    "graph.promotion.attach_weight", "graph.promotion.cap_per_turn",
    "t2.quality.enabled", "t2.quality.shadow", "t2.quality.trace_dir", "t2.quality.redact",
    "t2.quality.normalizer.enabled", "t2.quality.normalizer.stemmer", "t2.quality.normalizer.min_token_len",
    "t2.quality.aliasing.enabled", "t2.quality.aliasing.map_path", "t2.quality.aliasing.max_expansions_per_token",
    "t2.quality.lexical.enabled", "t2.quality.lexical.bm25_k1", "t2.quality.lexical.bm25_b",
    "t2.quality.lexical.stopwords", "t2.quality.lexical.bm25.k1", "t2.quality.lexical.bm25.b",
    "t2.quality.lexical.bm25.doclen_floor", "t2.quality.fusion.enabled", "t2.quality.fusion.alpha_semantic",
    "t2.quality.fusion.score_norm", "t2.quality.mmr.enabled", "t2.quality.mmr.lambda", "t2.quality.mmr.k",
    "t2.quality.mmr.diversity_by_owner", "t2.quality.mmr.diversity_by_token", "t2.quality.cache.salt",
    "t2.hybrid.enabled", "t2.hybrid.use_graph", "t2.hybrid.anchor_top_m", "t2.hybrid.walk_hops",
    "t2.hybrid.edge_threshold", "t2.hybrid.lambda_graph", "t2.hybrid.damping", "t2.hybrid.degree_norm",
    "t2.hybrid.max_bonus", "t2.hybrid.k_max",
    "t3.allow_reflection", "t3.reflection.backend", "t3.reflection.summary_tokens", "t3.reflection.embed",
    "t3.reflection.log", "t3.reflection.topk_snippets",
    "scheduler.enabled", "scheduler.policy", "scheduler.quantum_ms", "scheduler.budgets.t1_pops",
    "scheduler.budgets.t1_iters", "scheduler.budgets.t2_k", "scheduler.budgets.t3_ops", "scheduler.budgets.wall_ms",
    "scheduler.budgets.ops_reflection", "scheduler.budgets.time_ms_reflection",
    "scheduler.fairness.max_consecutive_turns", "scheduler.fairness.aging_ms",
]

# names that denote the configuration root / a configuration subtree when they are parameters
ROOT_NAMES = {"cfg", "cfg_root", "cfg_obj", "cfg_root_raw", "full_cfg", "cfg_snapshot"}
PARAM_SUBTREE = {"cfg_t2": "t2", "cfg_t1": "t1", "qcfg": "t2.quality"}
# per-function overrides of the alias environment (data flow the resolver cannot see)
ALIAS_OVERRIDE: Dict[Tuple[str, str], Dict[str, Any]] = {
    (ORCH, "_run_reflection_if_enabled"): {"cfg": ("root",)},
    (HYB, "rerank_with_gel"): {"cfg": ("subtree", "t2.hybrid")},
    (T2M, "assemble_metrics"): {"gate_on": ("bind", T2C, "t2_semantic", "gate_on")},
}
# external atoms that are really "a value stored by another site": replaced by that site's guard
EXT_LINK = {
    "getattr(ctx, '_reflection_result', None) is not None":
        (ORCH, "_run_reflection_if_enabled", ("call", "setattr", 0, "_reflection_result")),
}
PREDICATES = {
    "_m5_enabled": (ORCH, "_m5_enabled"),
    "gate_on": (UMET, "gate_on"), "metrics_gate_on": (UMET, "gate_on"),
    "_metrics_gate_on": (T2CFG, "metrics_gate_on"),
    "_t1_parallel_enabled": (T1, "_t1_parallel_enabled"),
    "_t2_parallel_enabled": (T2P, "t2_parallel_enabled"), "t2_parallel_enabled": (T2P, "t2_parallel_enabled"),
    "_agents_parallel_enabled": (PAR, "_agents_parallel_enabled"),
}


def _graph_leaves():
    return [l for l in LEAVES_EXTRA if l.startswith("graph.") and l != "graph.enabled"]


def _pref(p):
    return [l for l in LEAVES_EXTRA if l.startswith(p)]


SCHED_BUDGETS = ["scheduler.budgets.t1_pops", "scheduler.budgets.t1_iters", "scheduler.budgets.t2_k",
                 "scheduler.budgets.t3_ops", "scheduler.budgets.wall_ms", "scheduler.quantum_ms"]

# (site name, file, function, locator, emits, reads)
SITES: List[Tuple[str, str, str, tuple, List[str], List[str]]] = [
    # ---- GEL (graph.enabled) ----
    ("gel.observe", ORCH, "Orchestrator.run_turn", ("call", "gel_observe", 0, None), [], _graph_leaves()),
    ("gel.log.observe", ORCH, "Orchestrator.run_turn", ("call", "_append_jsonl", 0, "gel.jsonl"), ["gel.jsonl"], []),
    ("gel.tick", ORCH, "Orchestrator.run_turn", ("call", "gel_tick", 0, None), [], _graph_leaves()),
    ("gel.log.tick", ORCH, "Orchestrator.run_turn", ("call", "_append_jsonl", 1, "gel.jsonl"), ["gel.jsonl"], []),
    ("gel.merge", ORCH, "Orchestrator.run_turn", ("call", "gel_merge_candidates", 0, None), [], _graph_leaves()),
    ("gel.apply_merge", ORCH, "Orchestrator.run_turn", ("call", "gel_apply_merge", 0, None), [], _graph_leaves()),
    ("gel.split", ORCH, "Orchestrator.run_turn", ("call", "gel_split_candidates", 0, None), [], _graph_leaves()),
    ("gel.apply_split", ORCH, "Orchestrator.run_turn", ("call", "gel_apply_split", 0, None), [], _graph_leaves()),
    ("gel.promote", ORCH, "Orchestrator.run_turn", ("call", "gel_promote_clusters", 0, None), [], _graph_leaves()),
    ("gel.apply_promotion", ORCH, "Orchestrator.run_turn", ("call", "gel_apply_promotion", 0, None), [], _graph_leaves()),
    ("gel.log.msp", ORCH, "Orchestrator.run_turn", ("call", "_append_jsonl", 2, "gel.jsonl"), ["gel.jsonl"], []),
    # ---- scheduler (scheduler.enabled) ----
    ("sched.slice_budgets", ORCH, "Orchestrator.run_turn", ("call", "setattr", 0, "slice_budgets"), [], SCHED_BUDGETS),
    ("sched.slice_idx", ORCH, "Orchestrator.run_turn", ("call", "setattr", 0, "slice_idx"), [], []),
] + [
    (f"sched.yield{i}", ORCH, "Orchestrator.run_turn", ("call", "_write_or_capture_scheduler_event", i, None),
     ["scheduler.jsonl", "turn.slice_keys"], SCHED_BUDGETS + ["scheduler.policy"]) for i in range(5)
] + [
    ("sched.turn_keys", ORCH, "Orchestrator.run_turn", ("ifexp_with_const", "yielded", 0), ["turn.slice_keys"], []),
    # ---- reflection (t3.allow_reflection) ----
    ("refl.call", ORCH, "_run_reflection_if_enabled", ("call", "reflect_fn", 0, None), [],
     _pref("t3.reflection.") + ["scheduler.budgets.ops_reflection", "scheduler.budgets.time_ms_reflection"]),
    ("refl.stash", ORCH, "_run_reflection_if_enabled", ("call", "setattr", 0, "_reflection_result"), [], []),
    ("refl.write", ORCH, "Orchestrator.run_turn", ("call", "write_reflection_entries", 0, None), [],
     ["scheduler.budgets.ops_reflection"]),
    ("refl.log", ORCH, "Orchestrator.run_turn", ("call", "log_t3_reflection", 0, None), ["t3_reflection.jsonl"],
     ["t3.reflection.backend", "t3.reflection.embed"]),
    # ---- perf master switch: T1 ----
    ("t1.bytes_cache", T1, "_get_cache", ("return", 0), [], ["perf.t1.cache.max_entries", "perf.t1.cache.max_bytes"]),
    ("t1.frontier_cap", T1, "t1_propagate", ("assign", "effective_frontier_cap", 1), [], ["perf.t1.caps.frontier"]),
    ("t1.dedupe_ring", T1, "t1_propagate", ("ifexp_assign", "ring"), [], ["perf.t1.dedupe_window"]),
    ("t1.visited_lru", T1, "t1_propagate", ("ifexp_assign", "visited_lru"), [], ["perf.t1.caps.visited"]),
    ("t1.perf_metrics", T1, "t1_propagate", ("dictkey", "t1_frontier_evicted", 0), ["t1.perf_keys"], []),
    ("t1.parallel_metrics", T1, "t1_propagate", ("call", "metrics_update_gated", 0, None), ["t1.parallel_keys"], []),
    # the value reported as parallel_workers: max_workers, unless overwritten when the parallel gate is closed
    ("t1.requested_workers", T1, "t1_propagate", ("assign_unless_killed", "requested_workers"), [],
     ["perf.parallel.max_workers"]),
    ("t1.run_parallel", T1, "t1_propagate", ("call", "run_parallel", 0, None), [], ["perf.parallel.max_workers"]),
    # ---- perf master switch: T2 ----
    ("t2.bytes_cache", T2CA, "get_cache", ("return", 0), [], ["perf.t2.cache.max_entries", "perf.t2.cache.max_bytes"]),
    ("t2.open_reader", T2C, "t2_semantic", ("call", "open_reader", 0, None), [], _pref("perf.t2.reader.") +
     ["perf.t2.embed_store_dtype"]),
    ("t2.reader_path", T2C, "t2_semantic", ("call", "iter_blocks", 0, None), [], _pref("perf.t2.reader.")),
    ("t2.run_parallel", T2C, "t2_semantic", ("call", "run_parallel", 0, None), [], ["perf.parallel.max_workers"]),
    ("t2.diversity_metric", T2C, "t2_semantic", ("subscript_assign", "t2q.diversity_avg_pairwise", 0), ["t2q.keys"],
     ["t2.quality.mmr.lambda"]),
    ("t2.cache_metrics", T2C, "t2_semantic", ("subscript_assign", "t2.cache_evictions", 0), ["t2.perf_keys"], []),
    ("t2.q_digest", T2C, "t2_semantic", ("subscript_assign", "q_digest", 0), ["t2.q_digest"],
     _pref("t2.quality.lexical") + _pref("t2.quality.fusion") + _pref("t2.quality.mmr")),
    ("t2.metrics.perf", T2M, "assemble_metrics", ("subscript_assign", "t2.embed_dtype", 0), ["t2.perf_keys"],
     ["perf.t2.precompute_norms", "perf.t2.embed_store_dtype"]),
    ("t2.metrics.fusion", T2M, "assemble_metrics", ("subscript_assign", "t2q.fusion_mode", 0), ["t2q.keys"],
     ["t2.quality.fusion.alpha_semantic"]),
    ("t2.metrics.mmr", T2M, "assemble_metrics", ("subscript_assign", "t2q.mmr.lambda", 0), ["t2q.keys"],
     ["t2.quality.mmr.lambda"]),
    # ---- quality / hybrid / shadow ----
    ("t2.hybrid.rerank", T2Q, "apply_quality", ("call", "rerank_with_gel", 0, None), ["t2.hybrid_info"],
     [l for l in _pref("t2.hybrid.") if l != "t2.hybrid.enabled"]),
    ("hybrid.reorder", HYB, "rerank_with_gel", ("return", -1), [], [l for l in _pref("t2.hybrid.") if l != "t2.hybrid.enabled"]),
    ("t2.quality.fuse", T2Q, "apply_quality", ("call", "quality_fuse", 0, None), [],
     [l for l in _pref("t2.quality.") if l not in ("t2.quality.enabled", "t2.quality.shadow", "t2.quality.trace_dir", "t2.quality.redact")]),
    ("t2.quality.mmr", T2Q, "apply_quality", ("call", "quality_mmr", 0, None), [], _pref("t2.quality.mmr")),
    # the fallback call site itself is NOT gated by t2.quality.enabled; the work it does is (next entry)
    ("t2.quality.mmr_fallback_call", T2Q, "apply_quality", ("call", "quality_mmr_fallback", 0, None), [], []),
    ("t2.quality.mmr_work", T2QO, "maybe_apply_mmr", ("call", "mmr_reorder_full", 0, None), [],
     _pref("t2.quality.mmr") + _pref("t2.quality.lexical") + _pref("t2.quality.normalizer") + _pref("t2.quality.aliasing")),
    ("t2.shadow_trace", T2Q, "apply_quality", ("call", "_emit_quality_trace", 0, None), ["rq_traces.jsonl"],
     ["t2.quality.shadow", "t2.quality.trace_dir", "t2.quality.redact"]),
    # ---- agent batch driver: compute-then-commit path behind perf.parallel.{enabled,agents,max_workers} ----
    ("agents.batch_path", PAR, "_run_agents_parallel_batch", ("call", "_make_readonly_snapshot", 0, None), [],
     ["perf.parallel.max_workers", "perf.parallel.agents"]),
]

# which feature each site is expected to be gated by (documented gate): checked by C02_gate_table_consistent
SITE_GATES: Dict[str, List[str]] = {}
for _n, *_ in SITES:
    if _n.startswith("gel."):
        SITE_GATES[_n] = ["graph"]
    elif _n.startswith("sched."):
        SITE_GATES[_n] = ["scheduler"]
    elif _n.startswith("refl."):
        SITE_GATES[_n] = ["t3.reflection"]
SITE_GATES.update({
    "t1.bytes_cache": ["perf"], "t1.frontier_cap": ["perf"], "t1.dedupe_ring": ["perf"], "t1.visited_lru": ["perf"],
    "t1.perf_metrics": ["perf"], "t1.parallel_metrics": ["perf"], "t1.requested_workers": ["perf.parallel"],
    "t1.run_parallel": ["perf.parallel"], "t2.bytes_cache": ["perf"], "t2.open_reader": ["perf"],
    "t2.reader_path": ["perf"], "t2.run_parallel": ["perf.parallel"], "t2.diversity_metric": ["perf", "t2.quality"],
    "t2.cache_metrics": ["perf"], "t2.q_digest": ["t2.quality"], "t2.metrics.perf": ["perf"],
    "t2.metrics.fusion": ["perf", "t2.quality"], "t2.metrics.mmr": ["perf", "t2.quality"],
    "t2.hybrid.rerank": ["t2.hybrid"], "hybrid.reorder": ["t2.hybrid"], "t2.quality.fuse": ["t2.quality"],
    "t2.quality.mmr": ["t2.quality"], "t2.quality.mmr_fallback_call": [], "t2.quality.mmr_work": ["t2.quality"],
    "t2.shadow_trace": ["perf", "shadow"], "agents.batch_path": ["perf.parallel"],
})
# configs/validate.py: "agents=true while perf.enabled=false; agent-level driver remains disabled (identity path)"
EXPECTED_AGENTS_MASTER = ["agents.batch_path"]
# call sites that are not themselves gated: the callee's early return carries the gate (listed as its own site)
ADVISORY = ["t2.quality.mmr_fallback_call"]
# documented but NOT implemented by the code (DESIGN §5 #9): the parallel predicates ignore perf.enabled
EXPECTED_MASTER = ["t1.run_parallel", "t2.run_parallel"]


# ---------------------------------------------------------------------------------------------
# AST machinery
# ---------------------------------------------------------------------------------------------
class GateExtractError(Exception):
    pass


def _find_func(tree: ast.AST, qual: str) -> ast.AST:
    node: Any = tree
    for p in qual.split("."):
        nxt = None
        for ch in getattr(node, "body", []):
            if isinstance(ch, (ast.FunctionDef, ast.ClassDef)) and ch.name == p:
                nxt = ch
                break
        if nxt is None:
            raise GateExtractError(f"function {qual} not found")
        node = nxt
    return node


def _ends_exit(body: List[ast.stmt]) -> bool:
    return bool(body) and isinstance(body[-1], (ast.Return, ast.Raise, ast.Continue, ast.Break))


class FuncInfo:
    """Guard chains of every statement/expression of one function (+ nested defs) and its alias environment."""

    def __init__(self, repo: Path, rel: str, qual: str):
        self.rel, self.qual = rel, qual
        self.tree = ast.parse((repo / rel).read_text())
        self.fn = _find_func(self.tree, qual)
        self.guards: Dict[int, List[Tuple[ast.expr, bool]]] = {}
        self.assigns: Dict[str, List[Tuple[ast.expr, List[Tuple[ast.expr, bool]], ast.stmt]]] = {}
        self.params = set()
        for f in ast.walk(self.fn):
            if isinstance(f, (ast.FunctionDef, ast.Lambda)):
                a = f.args
                for x in a.args + a.kwonlyargs + a.posonlyargs:
                    self.params.add(x.arg)
        self._walk(self.fn.body, [])

    def _mark(self, node: ast.AST, conds):
        for sub in ast.walk(node):
            self.guards.setdefault(id(sub), list(conds))

    def _exits(self, body: List[ast.stmt]) -> List[list]:
        """Relative path conditions under which control leaves the enclosing function from inside `body`
        (a `return`/`raise` nested in ifs / try blocks; loops are not entered)."""
        out: List[list] = []
        for st in body:
            if isinstance(st, (ast.Return, ast.Raise)):
                out.append([])
            elif isinstance(st, ast.If):
                out += [[(st.test, True)] + e for e in self._exits(st.body)]
                out += [[(st.test, False)] + e for e in self._exits(st.orelse)]
            elif isinstance(st, ast.Try):
                out += self._exits(st.body) + self._exits(st.orelse) + self._exits(st.finalbody)
            elif isinstance(st, ast.With):
                out += self._exits(st.body)
        return out

    def _walk(self, body: List[ast.stmt], conds):
        conds = list(conds)
        for st in body:
            if isinstance(st, ast.If):
                self._mark(st.test, conds)
                self._walk(st.body, conds + [(st.test, True)])
                self._walk(st.orelse, conds + [(st.test, False)])
                self.guards[id(st)] = list(conds)
                if _ends_exit(st.body) and not st.orelse:
                    conds = conds + [(st.test, False)]
                else:
                    for e in self._exits([st]):
                        if e:
                            conds = conds + [(("nand", e), True)]
                continue
            if isinstance(st, (ast.For, ast.While)):
                self.guards[id(st)] = list(conds)
                self._mark(st.iter if isinstance(st, ast.For) else st.test, conds)
                self._walk(st.body, conds)
                self._walk(st.orelse, conds)
                continue
            if isinstance(st, ast.Try):
                self.guards[id(st)] = list(conds)
                self._walk(st.body, conds)
                for h in st.handlers:
                    self._walk(h.body, conds)
                self._walk(st.orelse, conds)
                self._walk(st.finalbody, conds)
                for e in self._exits([st]):
                    if e:
                        conds = conds + [(("nand", e), True)]
                continue
            if isinstance(st, ast.With):
                self.guards[id(st)] = list(conds)
                self._walk(st.body, conds)
                continue
            if isinstance(st, ast.FunctionDef):
                self._walk(st.body, conds)
                continue
            # simple statement: mark all sub-nodes; conditional expressions refine their branches
            self._mark_expr_stmt(st, conds)
            tgt = None
            if isinstance(st, ast.Assign) and len(st.targets) == 1 and isinstance(st.targets[0], ast.Name):
                tgt, val = st.targets[0].id, st.value
            elif isinstance(st, ast.AnnAssign) and isinstance(st.target, ast.Name) and st.value is not None:
                tgt, val = st.target.id, st.value
            if tgt is not None:
                self.assigns.setdefault(tgt, []).append((val, list(conds), st))

    def _mark_expr_stmt(self, st: ast.stmt, conds):
        def rec(node, cs):
            self.guards.setdefault(id(node), list(cs))
            if isinstance(node, ast.IfExp):
                rec(node.test, cs)
                rec(node.body, cs + [(node.test, True)])
                rec(node.orelse, cs + [(node.test, False)])
                return
            for ch in ast.iter_child_nodes(node):
                rec(ch, cs)
        rec(st, conds)

    # -- locating --------------------------------------------------------------------------
    def locate(self, loc: tuple) -> Tuple[ast.AST, List[Tuple[ast.expr, bool]]]:
        kind = loc[0]
        nodes = [n for n in ast.walk(self.fn)]
        # source order
        nodes.sort(key=lambda n: (getattr(n, "lineno", 0), getattr(n, "col_offset", 0)))
        if kind == "call":
            _, name, nth, arg = loc
            hits = []
            for n in nodes:
                if isinstance(n, ast.Call):
                    f = n.func
                    fname = f.id if isinstance(f, ast.Name) else (f.attr if isinstance(f, ast.Attribute) else None)
                    if fname != name:
                        continue
                    if arg is not None:
                        consts = [a.value for a in n.args if isinstance(a, ast.Constant)]
                        if arg not in consts:
                            continue
                    hits.append(n)
            return self._nth(hits, nth, loc)
        if kind == "return":
            hits = [n for n in nodes if isinstance(n, ast.Return) and id(n) in self.guards]
            node, g = self._nth(hits, loc[1], loc)
            return node, g
        if kind == "assign":
            _, name, nth = loc
            ent = self.assigns.get(name, [])
            if nth >= len(ent):
                raise GateExtractError(f"{self.qual}: assignment #{nth} to {name} not found")
            return ent[nth][2], ent[nth][1]
        if kind == "assign_unless_killed":
            name = loc[1]
            ent = self.assigns.get(name, [])
            if not ent:
                raise GateExtractError(f"{self.qual}: no assignment to {name}")
            g = list(ent[0][1])
            # `if COND: name = <constant>` later in the same function overwrites the value under COND
            for val, conds, st in ent[1:]:
                if isinstance(val, ast.Constant) and len(conds) == len(g) + 1:
                    t, pol = conds[-1]
                    g = g + [(t, not pol)]
            return ent[0][2], g
        if kind == "ifexp_assign":
            ent = self.assigns.get(loc[1], [])
            for val, conds, st in ent:
                if isinstance(val, ast.IfExp):
                    return st, conds + [(val.test, True)]
            raise GateExtractError(f"{self.qual}: conditional assignment to {loc[1]} not found")
        if kind == "ifexp_with_const":
            _, const, nth = loc
            hits = [n for n in nodes if isinstance(n, ast.IfExp) and any(
                isinstance(c, ast.Constant) and c.value == const for c in ast.walk(n.body))]
            node, g = self._nth(hits, nth, loc)
            return node, g + [(node.test, True)]
        if kind == "dictkey":
            _, key, nth = loc
            hits = [n for n in nodes if isinstance(n, ast.Dict) and any(
                isinstance(k, ast.Constant) and k.value == key for k in n.keys)]
            return self._nth(hits, nth, loc)
        if kind == "subscript_assign":
            _, key, nth = loc
            hits = []
            for n in nodes:
                if isinstance(n, ast.Assign):
                    for t in n.targets:
                        if isinstance(t, ast.Subscript) and isinstance(t.slice, ast.Constant) and t.slice.value == key:
                            hits.append(n)
            return self._nth(hits, nth, loc)
        raise GateExtractError(f"unknown locator {loc}")

    def _nth(self, hits, nth, loc):
        if not hits or (nth >= len(hits) if nth >= 0 else -nth > len(hits)):
            raise GateExtractError(f"{self.rel}:{self.qual}: site {loc} not found ({len(hits)} candidates)")
        n = hits[nth]
        return n, list(self.guards.get(id(n), []))


# GExpr as python tuples: ("leaf", path) ("gt", path, n) ("ext", text) ("tt",) ("ff",) ("not", e) ("and", a, b) ("or", a, b)
def g_and(a, b):
    if a == ("tt",):
        return b
    if b == ("tt",):
        return a
    return ("and", a, b)


def g_or(a, b):
    if a == ("ff",):
        return b
    if b == ("ff",):
        return a
    return ("or", a, b)


def g_not(a):
    if a == ("tt",):
        return ("ff",)
    if a == ("ff",):
        return ("tt",)
    if a[0] == "not":
        return a[1]
    return ("not", a)


class Resolver:
    def __init__(self, repo: Path):
        self.repo = repo
        self.cache: Dict[Tuple[str, str], FuncInfo] = {}
        self.pred_cache: Dict[Tuple[str, str], tuple] = {}
        self.depth = 0

    def fi(self, rel: str, qual: str) -> FuncInfo:
        k = (rel, qual)
        if k not in self.cache:
            self.cache[k] = FuncInfo(self.repo, rel, qual)
        return self.cache[k]

    # -- configuration subtree denoted by an expression ("" = root) or None -------------------
    def subtree(self, fi: FuncInfo, e: ast.expr, depth=0) -> Optional[str]:
        if depth > 20:
            return None
        ov = ALIAS_OVERRIDE.get((fi.rel, fi.qual), {})
        if isinstance(e, ast.Name):
            if e.id in ov:
                o = ov[e.id]
                if o[0] == "root":
                    return ""
                if o[0] == "subtree":
                    return o[1]
            ent = fi.assigns.get(e.id, [])
            if e.id in fi.params and not ent:
                if e.id in ROOT_NAMES:
                    return ""
                return PARAM_SUBTREE.get(e.id)
            # every assignment that is not the empty-dict / None fallback must denote the same subtree
            cands = set()
            for val, _c, _st in ent:
                if isinstance(val, ast.Dict) and not val.keys:
                    continue
                if isinstance(val, ast.Constant) and val.value is None:
                    continue
                cands.add(self.subtree(fi, val, depth + 1))
            if len(cands) == 1:
                return next(iter(cands))
            if not ent and e.id in ROOT_NAMES:
                return ""
            return None
        if isinstance(e, ast.Attribute):
            if isinstance(e.value, ast.Name) and e.value.id == "ctx" and e.attr in ("cfg", "config"):
                return ""
            base = self.subtree(fi, e.value, depth + 1)
            if base is not None:
                return (base + "." if base else "") + e.attr
            return None
        if isinstance(e, ast.BoolOp) and isinstance(e.op, ast.Or):
            return self.subtree(fi, e.values[0], depth + 1)          # `X or {}`
        if isinstance(e, ast.IfExp):
            return self.subtree(fi, e.body, depth + 1)               # `X if isinstance(..) else {}`
        if isinstance(e, ast.Call):
            f = e.func
            fname = f.id if isinstance(f, ast.Name) else (f.attr if isinstance(f, ast.Attribute) else None)
            if fname in ("_get_cfg",):
                return ""
            if fname == "getattr" and len(e.args) >= 2 and isinstance(e.args[1], ast.Constant):
                if isinstance(e.args[0], ast.Name) and e.args[0].id == "ctx" and e.args[1].value in ("cfg", "config"):
                    return ""
                base = self.subtree(fi, e.args[0], depth + 1)
                if base is not None:
                    return (base + "." if base else "") + str(e.args[1].value)
            if fname in ("_ensure_dict", "ensure_dict", "dict", "_to_plain") and e.args:
                return self.subtree(fi, e.args[0], depth + 1)
            if fname == "get" and isinstance(f, ast.Attribute) and e.args and isinstance(e.args[0], ast.Constant):
                base = self.subtree(fi, f.value, depth + 1)
                if base is not None:
                    return (base + "." if base else "") + str(e.args[0].value)
            if fname in ("_cfg_get", "cfg_get") and len(e.args) >= 2:
                p = self._cfg_get_path(fi, e)
                return p
        return None

    def _cfg_get_path(self, fi: FuncInfo, e: ast.Call) -> Optional[str]:
        root, lst = e.args[0], e.args[1]
        if not isinstance(lst, (ast.List, ast.Tuple)) or not all(isinstance(x, ast.Constant) for x in lst.elts):
            return None
        path = [str(x.value) for x in lst.elts]
        if isinstance(root, ast.Name) and root.id == "ctx":
            if path and path[0] in ("cfg", "config"):
                path = path[1:]
            else:
                return None
            base = ""
        else:
            base = self.subtree(fi, root)
            if base is None:
                return None
        return ".".join(([base] if base else []) + path)

    def _small_default(self, fi: FuncInfo, e: ast.expr, n: int) -> bool:
        """True when every literal default / `or k` fallback inside `e` is an int <= n and n >= 1 (so that an absent
        leaf compares like the model's absent value 0)."""
        if n < 1:
            return False
        seen = [e]
        if isinstance(e, ast.Name):
            r = self.reaching(fi, e.id, e)
            if r is None:
                return False
            seen = [r[0]]
        for c in ast.walk(seen[0]):
            if isinstance(c, ast.Constant) and isinstance(c.value, (int, bool)) and not isinstance(c.value, str):
                if int(c.value) > n:
                    return False
        return True

    @staticmethod
    def _falsy_default(e: ast.Call, idx: int) -> bool:
        if len(e.args) <= idx:
            return True
        d = e.args[idx]
        if isinstance(d, ast.Constant):
            return not d.value
        if isinstance(d, (ast.Dict, ast.List)):
            return not (d.keys if isinstance(d, ast.Dict) else d.elts)
        return False

    def reaching(self, fi: FuncInfo, name: str, use: ast.AST):
        """The single assignment of `name` that reaches `use`: the nearest preceding assignment whose guard chain is a
        prefix of the use's, provided no conditional re-assignment lies in between.  None when ambiguous."""
        ent = fi.assigns.get(name, [])
        if name in fi.params and ent:
            return None
        if len(ent) == 1:
            return ent[0]
        ul = getattr(use, "lineno", None)
        if ul is None or not ent:
            return None
        uconds = [id(t) for t, _ in fi.guards.get(id(use), [])]
        before = [x for x in ent if x[2].lineno < ul]
        dom = [x for x in before if [id(t) for t, _ in x[1]] == uconds[:len(x[1])]]
        if not dom:
            return None
        chosen = max(dom, key=lambda x: x[2].lineno)
        if any(x[2].lineno > chosen[2].lineno for x in before if x not in dom):
            return None
        return chosen

    def leaf_of(self, fi: FuncInfo, e: ast.expr, depth=0, anydefault=False) -> Optional[str]:
        """Configuration leaf whose (int/bool) value `e` denotes, through int()/bool()/`or 0` wrappers and aliases."""
        if depth > 20:
            return None
        if isinstance(e, ast.Call):
            f = e.func
            fname = f.id if isinstance(f, ast.Name) else (f.attr if isinstance(f, ast.Attribute) else None)
            if fname in ("int", "bool", "float", "_truthy") and e.args:
                return self.leaf_of(fi, e.args[0], depth + 1, anydefault)
            if fname in ("_cfg_get", "cfg_get") and len(e.args) >= 2 and (anydefault or self._falsy_default(e, 2)):
                return self._cfg_get_path(fi, e)
            if fname == "get" and isinstance(f, ast.Attribute) and e.args and isinstance(e.args[0], ast.Constant) \
                    and (anydefault or self._falsy_default(e, 1)):
                base = self.subtree(fi, f.value)
                if base is not None:
                    return (base + "." if base else "") + str(e.args[0].value)
            return None
        if isinstance(e, ast.BoolOp) and isinstance(e.op, ast.Or) and len(e.values) == 2 \
                and isinstance(e.values[1], ast.Constant) and e.values[1].value in (0, 1, False, None):
            return self.leaf_of(fi, e.values[0], depth + 1, anydefault)
        if isinstance(e, ast.IfExp):
            return self.leaf_of(fi, e.body, depth + 1, anydefault)
        if isinstance(e, ast.Name):
            r = self.reaching(fi, e.id, e)
            if r is not None:
                return self.leaf_of(fi, r[0], depth + 1, anydefault)
        return None

    # -- expression -> GExpr ------------------------------------------------------------------
    def tr(self, fi: FuncInfo, e: ast.expr, depth=0) -> tuple:
        if depth > 12:
            return ("ext", ast.unparse(e))
        if isinstance(e, ast.Constant):
            return ("tt",) if e.value else ("ff",)
        if isinstance(e, ast.BoolOp):
            parts = [self.tr(fi, v, depth + 1) for v in e.values]
            out = parts[0]
            for p in parts[1:]:
                out = g_and(out, p) if isinstance(e.op, ast.And) else g_or(out, p)
            return out
        if isinstance(e, ast.UnaryOp) and isinstance(e.op, ast.Not):
            return g_not(self.tr(fi, e.operand, depth + 1))
        if isinstance(e, ast.IfExp):
            # `bool(x.get(..)) if isinstance(x, dict) else False`: configuration is a dict after normalisation
            if isinstance(e.test, ast.Call) and getattr(e.test.func, "id", None) == "isinstance":
                return self.tr(fi, e.body, depth + 1)
            return ("ext", ast.unparse(e))
        if isinstance(e, ast.Compare) and len(e.ops) == 1:
            op, rhs = e.ops[0], e.comparators[0]
            if isinstance(op, (ast.IsNot, ast.Is)) and isinstance(rhs, ast.Constant) and rhs.value is None:
                inner = self._not_none(fi, e.left, depth)
                return inner if isinstance(op, ast.IsNot) else g_not(inner)
            if isinstance(rhs, ast.Constant) and isinstance(rhs.value, int) and not isinstance(rhs.value, bool):
                n = int(rhs.value)
                leaf = self.leaf_of(fi, e.left, anydefault=self._small_default(fi, e.left, n))
                if leaf is not None:
                    if isinstance(op, ast.Gt):
                        return ("gt", leaf, n)
                    if isinstance(op, ast.GtE):
                        return ("gt", leaf, n - 1)
                    if isinstance(op, ast.LtE):
                        return ("not", ("gt", leaf, n))
                    if isinstance(op, ast.Lt):
                        return ("not", ("gt", leaf, n - 1))
            return ("ext", ast.unparse(e))
        if isinstance(e, ast.Call):
            f = e.func
            fname = f.id if isinstance(f, ast.Name) else (f.attr if isinstance(f, ast.Attribute) else None)
            if fname in ("bool", "_truthy") and len(e.args) == 1:
                return self.tr(fi, e.args[0], depth + 1)
            if fname in PREDICATES:
                return self.predicate(*PREDICATES[fname])
            leaf = self.leaf_of(fi, e)
            if leaf is not None:
                return ("leaf", leaf)
            return ("ext", ast.unparse(e))
        if isinstance(e, ast.Name):
            ov = ALIAS_OVERRIDE.get((fi.rel, fi.qual), {}).get(e.id)
            if ov and ov[0] == "bind":
                fi2 = self.fi(ov[1], ov[2])
                ent2 = fi2.assigns.get(ov[3], [])
                if len(ent2) == 1:
                    return self.tr(fi2, ent2[0][0], depth + 1)
                return ("ext", f"var:{ov[2]}.{ov[3]}")
            r = self.reaching(fi, e.id, e)
            if r is not None:
                return self.tr(fi, r[0], depth + 1)
            return ("ext", f"var:{fi.qual.split('.')[-1]}.{e.id}")
        return ("ext", ast.unparse(e))

    def _not_none(self, fi: FuncInfo, e: ast.expr, depth) -> tuple:
        """`e is not None`"""
        if isinstance(e, ast.Name):
            ent = fi.assigns.get(e.id, [])
            if ent and e.id not in fi.params:
                nones = [x for x in ent if isinstance(x[0], ast.Constant) and x[0].value is None]
                others = [x for x in ent if not (isinstance(x[0], ast.Constant) and x[0].value is None)]
                if nones and others and all(isinstance(x[0], (ast.Dict, ast.List, ast.Constant)) for x in others):
                    out: tuple = ("ff",)
                    for val, conds, st in others:
                        out = g_or(out, self.chain(fi, conds, depth + 1))
                    return out
                if not others:
                    return ("ext", f"import:{e.id}")
                r = self.reaching(fi, e.id, e)
                if r is not None:
                    txt = ast.unparse(r[0]) + " is not None"
                    if txt in EXT_LINK:
                        rel, qual, loc = EXT_LINK[txt]
                        fi2 = self.fi(rel, qual)
                        node, conds = fi2.locate(loc)
                        return self.chain(fi2, conds, depth + 1)
                    return ("ext", txt)
            if not ent and e.id not in fi.params:
                return ("ext", f"import:{e.id}")
            return ("ext", f"var:{fi.qual.split('.')[-1]}.{e.id} is not None")
        return ("ext", ast.unparse(e) + " is not None")

    def chain(self, fi: FuncInfo, conds, depth=0) -> tuple:
        out: tuple = ("tt",)
        for t, pol in conds:
            if isinstance(t, tuple) and t and t[0] == "nand":
                g = g_not(self.chain(fi, t[1], depth + 1))
            else:
                g = self.tr(fi, t, depth + 1)
            out = g_and(out, g if pol else g_not(g))
        return out

    def predicate(self, rel: str, qual: str) -> tuple:
        """A boolean function as a GExpr: disjunction over its non-False returns of (path condition ∧ value)."""
        k = (rel, qual)
        if k in self.pred_cache:
            return self.pred_cache[k]
        self.pred_cache[k] = ("ext", f"pred:{qual}")       # recursion guard
        fi = self.fi(rel, qual)
        out: tuple = ("ff",)
        for n in ast.walk(fi.fn):
            if isinstance(n, ast.Return) and id(n) in fi.guards:
                if n.value is None or (isinstance(n.value, ast.Constant) and not n.value.value):
                    continue
                # returns inside an `except` handler are fallbacks; only those returning False occur here
                g = g_and(self.chain(fi, fi.guards[id(n)]), self.tr(fi, n.value))
                out = g_or(out, g)
        self.pred_cache[k] = out
        return out


# ---------------------------------------------------------------------------------------------
# Lean rendering
# ---------------------------------------------------------------------------------------------
def render(g: tuple, leaf_id, ext_id) -> str:
    k = g[0]
    if k == "leaf":
        return f"(.leaf {leaf_id(g[1])})"
    if k == "gt":
        n = g[2]
        return f"(.gt {leaf_id(g[1])} ({n}))"
    if k == "ext":
        return f"(.ext {ext_id(g[1])})"
    if k == "tt":
        return ".tt"
    if k == "ff":
        return ".ff"
    if k == "not":
        return f"(.not {render(g[1], leaf_id, ext_id)})"
    return f"(.{k} {render(g[1], leaf_id, ext_id)} {render(g[2], leaf_id, ext_id)})"


def show(g: tuple) -> str:
    k = g[0]
    if k == "leaf":
        return g[1]
    if k == "gt":
        return f"{g[1]}>{g[2]}"
    if k == "ext":
        return "«" + g[1][:60] + "»"
    if k in ("tt", "ff"):
        return k
    if k == "not":
        return "¬" + show(g[1])
    return "(" + show(g[1]) + (" ∧ " if k == "and" else " ∨ ") + show(g[2]) + ")"


def collect_leaves(g: tuple, out: set):
    if g[0] in ("leaf", "gt"):
        out.add(g[1])
    elif g[0] in ("not",):
        collect_leaves(g[1], out)
    elif g[0] in ("and", "or"):
        collect_leaves(g[1], out)
        collect_leaves(g[2], out)


def extract(repo: Path) -> Dict[str, Any]:
    R = Resolver(repo)
    sites = []
    for name, rel, qual, loc, emits, reads in SITES:
        fi = R.fi(rel, qual)
        node, conds = fi.locate(loc)
        g = R.chain(fi, conds)
        if loc[0] == "return" and isinstance(node, ast.Return):
            pass
        sites.append({"name": name, "file": rel, "func": qual, "line": getattr(node, "lineno", 0), "guard": g,
                      "emits": list(emits), "reads": list(reads)})
    leaves = set(LEAVES_EXTRA)
    for s in sites:
        collect_leaves(s["guard"], leaves)
        leaves.update(s["reads"])
    for _, flag, _, _ in FEATURES:
        leaves.add(flag)
    return {"sites": sites, "leaves": sorted(leaves)}


@table
def gen(repo: Path):
    info = extract(repo)
    leaves: List[str] = info["leaves"]
    exts: List[str] = []

    def leaf_id(p: str) -> int:
        return leaves.index(p)

    def ext_id(t: str) -> int:
        if t not in exts:
            exts.append(t)
        return exts.index(t)

    site_names = [s["name"] for s in info["sites"]]
    lines = [
        "-- GENERATED by harness/tables/gates.py from the repository AST — do not edit.",
        "import Clem.Py.GateExpr",
        "namespace Clem.Gen.Gates",
        "open Clem.Py",
        "",
        "def leafNames : List String := [" + ", ".join(lean_str(x) for x in leaves) + "]",
        "def artefactNames : List String := [" + ", ".join(lean_str(x) for x in ARTEFACTS) + "]",
        "",
    ]
    rendered = []
    for i, s in enumerate(info["sites"]):
        gtxt = render(s["guard"], leaf_id, ext_id)
        rendered.append(gtxt)
        lines.append(f"/-- {s['name']} — {s['file']}:{s['func']} — guard: {show(s['guard'])} -/")
        lines.append(f"def site{i} : Site := ⟨{i}, {gtxt}, {[leaf_id(r) for r in s['reads']]}, "
                     f"{[ARTEFACTS.index(a) for a in s['emits']]}⟩")
    lines.append("")
    lines.append("/-- every listed site, in table order (indices of `documentedGates` refer to this list) -/")
    lines.append("def allSites : List Site := [" + ", ".join(f"site{i}" for i in range(len(info["sites"]))) + "]")
    lines.append("/-- the sites whose own predicate is the gate (excludes ADVISORY call sites whose callee carries the gate) -/")
    lines.append("def sites : List Site := [" + ", ".join(
        f"site{i}" for i, s_ in enumerate(info["sites"]) if s_["name"] not in ADVISORY) + "]")
    lines.append("def advisorySites : List Site := [" + ", ".join(
        f"site{i}" for i, s_ in enumerate(info["sites"]) if s_["name"] in ADVISORY) + "]")
    lines.append("def siteNames : List String := [" + ", ".join(lean_str(x) for x in site_names) + "]")
    lines.append("def extNames : List String := [" + ", ".join(lean_str(x) for x in exts) + "]")
    lines.append("")
    for fname, flag, prefix, notowned in FEATURES:
        sub = [leaf_id(l) for l in leaves if (l.startswith(prefix) or l == prefix.rstrip(".")) and l not in notowned]
        ident = "feat_" + fname.replace(".", "_")
        arts = [ARTEFACTS.index(a) for a in FEATURE_ARTEFACTS[fname]]
        lines.append(f"def {ident} : Feat := ⟨{leaf_id(flag)}, {sub}, {arts}⟩")
        wit = [x for x in sub if x != leaf_id(flag)]
        lines.append(f"/-- a leaf of the owned subtree other than the flag (for non-vacuity examples) -/")
        lines.append(f"def wit_{ident[5:]} : Nat := {wit[0] if wit else 0}")
    lines.append("def featNames : List String := [" + ", ".join(lean_str(f[0]) for f in FEATURES) + "]")
    lines.append("def feats : List Feat := [" + ", ".join("feat_" + f[0].replace(".", "_") for f in FEATURES) + "]")
    lines.append("")
    # documented gate of each site: (site index, flag leaf) pairs
    pairs = []
    for i, s in enumerate(info["sites"]):
        for fn in SITE_GATES.get(s["name"], []):
            flag = [f for f in FEATURES if f[0] == fn][0][1]
            pairs.append((i, leaf_id(flag)))
    lines.append("/-- (site, flag leaf) pairs: the documented gate(s) of every listed site. -/")
    lines.append("def documentedGates : List (Nat × Nat) := [" + ", ".join(f"({a}, {b})" for a, b in pairs) + "]")
    mp = [(site_names.index(n), leaf_id("perf.enabled")) for n in EXPECTED_MASTER]
    lines.append("/-- parallel fan-out sites vs. the perf master switch (documented, see DESIGN §5 #9). -/")
    lines.append("def parallelMaster : List (Nat × Nat) := [" + ", ".join(f"({a}, {b})" for a, b in mp) + "]")
    ap = [(site_names.index(n), leaf_id("perf.enabled")) for n in EXPECTED_AGENTS_MASTER]
    lines.append("/-- agent batch driver vs. the perf master switch (documented by the validator's own warning). -/")
    lines.append("def agentsMaster : List (Nat × Nat) := [" + ", ".join(f"({a}, {b})" for a, b in ap) + "]")
    lines.append("")
    lines.append("end Clem.Gen.Gates")
    src = "\n".join(lines) + "\n"
    summary = {"Gates.lean": {"sites": len(info["sites"]), "leaves": len(leaves), "ext_atoms": len(exts),
                              "features": len(FEATURES)}}
    return {"Gates.lean": src}, summary


if __name__ == "__main__":
    import os
    import sys
    repo = Path(os.environ.get("CLEMATIS3_REPO", "/repo"))
    info = extract(repo)
    for s in info["sites"]:
        print(f"{s['name']:32s} L{s['line']:<5d} {show(s['guard'])}")
