"""T3 planner / sanitiser constants regenerated from the source (C13).

Reads (AST + evaluation of the import-free `json_schemas.py` in a fresh namespace):
* `clematis/engine/policy/json_schemas.py`: PLAN_MAX_ITEMS, PLAN_ITEM_MAX_LEN, RATIONALE_MAX_LEN and
  the limits written in the PLANNER_V1 schema dict (maxItems, item min/maxLength, rationale min/maxLength,
  additionalProperties, required, property names);
* `clematis/engine/policy/sanitize.py`: `_MAX_RAW_LEN`, the key tuples of `parse_and_validate`
  (required / allowed), every `len(..) <cmp> <constant>` site of `parse_and_validate` (subject, operator,
  constant value), the boolean-like word lists of `_coerce_bool`, and whether `json.loads` sits inside a
  `try` whose handler catches `Exception`;
* `clematis/engine/stages/t3/policy.py`: default thresholds (as IEEE bit patterns) and the literal defaults
  of `deliberate` (ops 3, tokens 256, k_retrieval 64);
* `clematis/engine/stages/t3/dialogue.py`: the default token budget 256 of `speak`.
Strings are emitted as code-point lists (Lean `String` does not reduce in the kernel).
"""
from __future__ import annotations

import ast
import struct
from pathlib import Path

from harness.extract import table

_CMP = {ast.Gt: 0, ast.GtE: 1, ast.Lt: 2, ast.LtE: 3, ast.Eq: 4, ast.NotEq: 5}
_SUBJ = {"len(text)": 0, "len(candidate)": 1, "len(plan)": 2, "len(x)": 3, "len(rat)": 4,
         "len(x.strip())": 5}


def _cps(s: str) -> str:
    return "[" + ", ".join(str(ord(c)) for c in s) + "]"


def _cps_list(xs) -> str:
    return "[" + ", ".join(_cps(x) for x in xs) + "]"


def _bits(x: float) -> int:
    return struct.unpack("<Q", struct.pack("<d", float(x)))[0]


def _func(tree, name):
    for n in tree.body:
        if isinstance(n, ast.FunctionDef) and n.name == name:
            return n
    raise KeyError(name)


def _module_consts(tree):
    out = {}
    for n in tree.body:
        tgt = val = None
        if isinstance(n, ast.Assign) and len(n.targets) == 1 and isinstance(n.targets[0], ast.Name):
            tgt, val = n.targets[0].id, n.value
        elif isinstance(n, ast.AnnAssign) and isinstance(n.target, ast.Name) and n.value is not None:
            tgt, val = n.target.id, n.value
        if tgt is not None:
            try:
                out[tgt] = ast.literal_eval(val)
            except Exception:
                pass
    return out


@table
def gen(repo: Path):
    pol = repo / "clematis" / "engine" / "policy"
    js_src = (pol / "json_schemas.py").read_text()
    ns: dict = {}
    exec(compile(js_src, "json_schemas.py", "exec"), ns)  # import-free module (typing only)
    schema = ns["PLANNER_V1"]
    consts = {k: int(ns[k]) for k in ("PLAN_MAX_ITEMS", "PLAN_ITEM_MAX_LEN", "RATIONALE_MAX_LEN")}
    props = schema.get("properties", {})
    plan_s = props.get("plan", {})
    item_s = plan_s.get("items", {})
    rat_s = props.get("rationale", {})

    san_tree = ast.parse((pol / "sanitize.py").read_text())
    san_consts = _module_consts(san_tree)
    max_raw = int(san_consts["_MAX_RAW_LEN"])
    env = dict(consts)
    env["_MAX_RAW_LEN"] = max_raw
    pv = _func(san_tree, "parse_and_validate")
    checks = []
    for node in ast.walk(pv):
        if isinstance(node, ast.Compare) and len(node.ops) == 1:
            left, right = node.left, node.comparators[0]
            if isinstance(left, ast.Call) and isinstance(left.func, ast.Name) and left.func.id == "len":
                subj = _SUBJ.get(ast.unparse(left), 99)
                op = _CMP.get(type(node.ops[0]), 99)
                if isinstance(right, ast.Name) and right.id in env:
                    val = env[right.id]
                elif isinstance(right, ast.Constant) and isinstance(right.value, int):
                    val = int(right.value)
                else:
                    val = -1
                checks.append((subj, op, val, getattr(node, "lineno", 0)))
    checks.sort(key=lambda t: (t[3], t[0]))
    checks = [(a, b, c) for a, b, c, _ in checks]
    # key tuples: `for k in (<tuple>)` (required) and `k not in (<tuple>)` (allowed)
    required, allowed = None, None
    for node in ast.walk(pv):
        if isinstance(node, ast.For) and isinstance(node.iter, ast.Tuple) and required is None:
            required = [e.value for e in node.iter.elts]
        if (isinstance(node, ast.Compare) and isinstance(node.ops[0], ast.NotIn)
                and isinstance(node.comparators[0], ast.Tuple)
                and isinstance(node.left, ast.Name) and node.left.id == "k"):
            allowed = [e.value for e in node.comparators[0].elts]
    # json.loads guarded by try/except Exception?
    guarded = 0
    for node in ast.walk(pv):
        if isinstance(node, ast.Try):
            has_loads = any(isinstance(c, ast.Call) and ast.unparse(c.func) == "json.loads"
                            for b in node.body for c in ast.walk(b))
            catches = any(h.type is None or (isinstance(h.type, ast.Name) and h.type.id in ("Exception", "BaseException"))
                          for h in node.handlers)
            if has_loads and catches:
                guarded = 1
    loads_total = sum(1 for c in ast.walk(pv) if isinstance(c, ast.Call) and ast.unparse(c.func) == "json.loads")
    langs = None
    for node in ast.walk(pv):
        if (isinstance(node, ast.Compare) and isinstance(node.ops[0], ast.NotIn)
                and isinstance(node.left, ast.Name) and node.left.id == "lang"):
            langs = [e.value for e in node.comparators[0].elts]
    lang_strs = [x for x in (langs or []) if isinstance(x, str)]
    cb = _func(san_tree, "_coerce_bool")
    words = []
    for node in ast.walk(cb):
        if isinstance(node, ast.Compare) and isinstance(node.ops[0], ast.In) and isinstance(node.comparators[0], ast.Tuple):
            vals = [e.value for e in node.comparators[0].elts]
            if all(isinstance(v, str) for v in vals):
                words.append(vals)
    true_words = words[0] if len(words) > 0 else []
    false_words = words[1] if len(words) > 1 else []

    pol_tree = ast.parse((repo / "clematis/engine/stages/t3/policy.py").read_text())
    pc = _module_consts(pol_tree)
    delib = _func(pol_tree, "deliberate")
    dflt = {}
    for node in ast.walk(delib):
        if (isinstance(node, ast.Call) and isinstance(node.func, ast.Attribute) and node.func.attr == "get"
                and len(node.args) == 2 and isinstance(node.args[0], ast.Constant)
                and isinstance(node.args[1], ast.Constant)):
            dflt[node.args[0].value] = node.args[1].value
    dlg_tree = ast.parse((repo / "clematis/engine/stages/t3/dialogue.py").read_text())
    sp = _func(dlg_tree, "speak")
    speak_defaults = sorted({n.value.value for n in ast.walk(sp)
                             if isinstance(n, ast.Assign) and isinstance(n.value, ast.Constant)
                             and isinstance(n.value.value, int) and not isinstance(n.value.value, bool)
                             and any(isinstance(t, ast.Name) and t.id == "max_tokens" for t in n.targets)})

    bun_tree = ast.parse((repo / "clematis/engine/stages/t3/bundle.py").read_text())
    cc = _func(bun_tree, "cfg_caps")
    bdef = {}
    for node in ast.walk(cc):
        if (isinstance(node, ast.Call) and isinstance(node.func, ast.Attribute) and node.func.attr == "get"
                and len(node.args) == 2 and isinstance(node.args[0], ast.Constant) and isinstance(node.args[1], ast.Constant)):
            bdef[node.args[0].value] = node.args[1].value
    ab = _func(bun_tree, "assemble_bundle")
    fwd = sorted({n.slice.value for n in ast.walk(ab)
                  if isinstance(n, ast.Subscript) and isinstance(n.value, ast.Name) and n.value.id == "slice_caps"
                  and isinstance(n.slice, ast.Constant) and isinstance(n.slice.value, str)})

    def b(x):
        return "true" if x else "false"

    src = f"""/-
GENERATED by harness/tables/t3consts.py from clematis/engine/policy/{{json_schemas,sanitize}}.py and
clematis/engine/stages/t3/{{policy,dialogue}}.py — do not edit.
-/
namespace Clem.Gen.T3Consts

def PLAN_MAX_ITEMS : Nat := {consts['PLAN_MAX_ITEMS']}
def PLAN_ITEM_MAX_LEN : Nat := {consts['PLAN_ITEM_MAX_LEN']}
def RATIONALE_MAX_LEN : Nat := {consts['RATIONALE_MAX_LEN']}
def MAX_RAW_LEN : Nat := {max_raw}

/-- limits as written in the `PLANNER_V1` JSON-schema dict -/
def schemaPlanMinItems : Nat := {int(plan_s.get('minItems', 0))}
def schemaPlanMaxItems : Nat := {int(plan_s.get('maxItems', 0))}
def schemaItemMinLen : Nat := {int(item_s.get('minLength', 0))}
def schemaItemMaxLen : Nat := {int(item_s.get('maxLength', 0))}
def schemaRationaleMinLen : Nat := {int(rat_s.get('minLength', 0))}
def schemaRationaleMaxLen : Nat := {int(rat_s.get('maxLength', 0))}
def schemaAdditionalProperties : Bool := {b(schema.get('additionalProperties', True))}
def schemaTopIsObject : Bool := {b(schema.get('type') == 'object')}
def schemaPlanIsArrayOfString : Bool := {b(plan_s.get('type') == 'array' and item_s.get('type') == 'string')}
def schemaRationaleIsString : Bool := {b(rat_s.get('type') == 'string')}
def schemaRequired : List (List Nat) := {_cps_list(schema.get('required', []))}
def schemaProperties : List (List Nat) := {_cps_list(list(props.keys()))}

/-- key tuples used by `parse_and_validate` -/
def requiredKeys : List (List Nat) := {_cps_list(required or [])}
def allowedKeys : List (List Nat) := {_cps_list(allowed or [])}
/-- fence languages accepted besides "no fence" -/
def fenceLangs : List (List Nat) := {_cps_list(lang_strs)}
def fenceLangNoneAllowed : Bool := {b(langs is not None and None in langs)}

/-- every `len(<subject>) <op> <constant>` comparison of `parse_and_validate`, in source order:
(subject, operator, constant); subjects 0 text · 1 candidate · 2 plan · 3 x · 4 rat · 5 x.strip();
operators 0 `>` · 1 `>=` · 2 `<` · 3 `<=` · 4 `==` · 5 `!=` -/
def lenChecks : List (Nat × Nat × Int) := [{', '.join(f'({a}, {o}, {v})' for a, o, v in checks)}]

/-- `json.loads` calls in `parse_and_validate`, and whether they sit in `try … except Exception` -/
def jsonLoadsCalls : Nat := {loads_total}
def jsonLoadsGuarded : Bool := {b(guarded)}

def trueWords : List (List Nat) := {_cps_list(true_words)}
def falseWords : List (List Nat) := {_cps_list(false_words)}

/-- planner defaults (IEEE-754 bit patterns) and literal defaults of `deliberate` / `speak` -/
def defaultTauHighBits : Nat := {_bits(pc['_DEFAULT_TAU_HIGH'])}
def defaultTauLowBits : Nat := {_bits(pc['_DEFAULT_TAU_LOW'])}
def defaultEpsEditBits : Nat := {_bits(pc['_DEFAULT_EPS_EDIT'])}
def defaultOps : Int := {int(dflt.get('ops', -1))}
def defaultTokens : Int := {int(dflt.get('tokens', -1))}
def defaultKRetrieval : Int := {int(dflt.get('k_retrieval', -1))}
/-- `bundle.py:cfg_caps` default of `t3.max_ops_per_turn`, and the slice-budget keys `assemble_bundle` writes into `slice_caps` -/
def bundleDefaultMaxOps : Int := {int(bdef.get('max_ops_per_turn', -1))}
def forwardedSliceKeys : List (List Nat) := {_cps_list(fwd)}
def speakDefaultTokens : List Int := [{', '.join(str(x) for x in speak_defaults)}]

end Clem.Gen.T3Consts
"""
    summary = {"T3Consts.lean": {"PLAN_MAX_ITEMS": consts["PLAN_MAX_ITEMS"], "PLAN_ITEM_MAX_LEN": consts["PLAN_ITEM_MAX_LEN"],
                                 "RATIONALE_MAX_LEN": consts["RATIONALE_MAX_LEN"], "MAX_RAW_LEN": max_raw,
                                 "lenChecks": len(checks)}}
    return {"T3Consts.lean": src}, summary
