"""
Generated table `lean/Clem/Gen/FailSoft.lean`: every call of an optional / best-effort subsystem inside the
turn skeleton (`run_turn`, `_run_reflection_if_enabled`, `apply_changes`, `apply_quality`, `write_snapshot`,
`_write_sidecar_meta`, `load_latest_snapshot`, T3 `emit_trace`, `log_t3_reflection`) and whether that call sits
lexically inside the *body* of a `try` whose handlers catch `Exception` (or everything) in the same function.

The two enumerations (`Fn`, `Callee`) are a FIXED catalogue (they do not depend on the tree), so hand-written
Lean may name them; only `callSites` changes with the source.  `Clem.Props.C20.C20_FailSoft_table` decides, over
this table, that every site the property declares fail-soft is present and guarded — removing a `try/except`
(or moving the call out of it) flips `guarded` and the theorem no longer elaborates.
"""
from __future__ import annotations

import ast
from pathlib import Path
from typing import Dict, List, Optional, Tuple

from harness.extract import table, _find

# (Lean constructor, file, qualified name)
FUNCS: List[Tuple[str, str, str]] = [
    ("run_turn", "clematis/engine/orchestrator/core.py", "Orchestrator.run_turn"),
    ("run_reflection", "clematis/engine/orchestrator/core.py", "_run_reflection_if_enabled"),
    ("apply_changes", "clematis/engine/apply.py", "apply_changes"),
    ("apply_quality", "clematis/engine/stages/t2/quality.py", "apply_quality"),
    ("write_snapshot", "clematis/engine/snapshot.py", "write_snapshot"),
    ("write_sidecar_meta", "clematis/engine/snapshot.py", "_write_sidecar_meta"),
    ("load_latest_snapshot", "clematis/engine/snapshot.py", "load_latest_snapshot"),
    ("emit_trace", "clematis/engine/stages/t3/trace.py", "emit_trace"),
    ("log_t3_reflection", "clematis/engine/orchestrator/logging.py", "log_t3_reflection"),
    # store hooks the snapshot writer / boot loader touch (not in C20's own list; C04's "errors inside the store
    # never abort the turn" — kept in the table because the turn-completion monitor exercises them)
    ("export_store", "clematis/engine/snapshot.py", "_export_store_for_snapshot"),
    ("import_store", "clematis/engine/snapshot.py", "_import_store_from_snapshot"),
]

# callee terminal names of interest -> Lean constructor
CALLEES: Dict[str, str] = {
    "load_latest_snapshot": "load_latest_snapshot",
    "gel_observe": "gel_observe",
    "gel_tick": "gel_tick",
    "gel_merge_candidates": "gel_merge_candidates",
    "gel_apply_merge": "gel_apply_merge",
    "gel_split_candidates": "gel_split_candidates",
    "gel_apply_split": "gel_apply_split",
    "gel_promote_clusters": "gel_promote_clusters",
    "gel_apply_promotion": "gel_apply_promotion",
    "build_llm_adapter": "build_llm_adapter",
    "emit_trace": "emit_trace",
    "_run_reflection_if_enabled": "run_reflection_if_enabled",
    "reflect_fn": "reflect_fn",
    "write_reflection_entries": "write_reflection_entries",
    "log_t3_reflection": "log_t3_reflection",
    "rerank_with_gel": "rerank_with_gel",
    "quality_fuse": "quality_fuse",
    "quality_mmr": "quality_mmr",
    "quality_mmr_fallback": "quality_mmr_fallback",
    "_emit_quality_trace": "emit_quality_trace",
    "_quality_cfg_snapshot": "quality_cfg_snapshot",
    "apply_fn": "store_apply_fn",
    "invalidate_namespace": "invalidate_namespace",
    "write_snapshot": "write_snapshot",
    "_write_sidecar_meta": "write_sidecar_meta",
    "atomic_write_text": "atomic_write_text",
    "_deterministic_created_at": "deterministic_created_at",
    "append": "list_append",
    "append_jsonl": "append_jsonl",
    "check_and_log": "health_check_and_log",
    "_read_header_payload": "read_header_payload",
    "apply_delta": "apply_delta",
    "_import_store_from_snapshot": "import_store_from_snapshot",
    "_sanitize_gel_for_load": "sanitize_gel_for_load",
    "exp": "store_export_state",      # `exp = getattr(store, "export_state")`; `exp()`
    "imp": "store_import_state",      # `imp = getattr(store, "import_state")`; `imp(...)`
    "_export_store_for_snapshot": "export_store_for_snapshot",
}


def _catches_exception(h: ast.ExceptHandler) -> bool:
    t = h.type
    if t is None:
        return True
    names = []
    if isinstance(t, ast.Tuple):
        names = [getattr(e, "id", getattr(e, "attr", None)) for e in t.elts]
    else:
        names = [getattr(t, "id", getattr(t, "attr", None))]
    return any(n in ("Exception", "BaseException") for n in names)


def _callee_name(call: ast.Call) -> Optional[str]:
    f = call.func
    if isinstance(f, ast.Name):
        return f.id
    if isinstance(f, ast.Attribute):
        return f.attr
    return None


def scan_function(fn: ast.AST) -> List[Tuple[str, int, bool]]:
    """[(callee name, lineno, guarded)] for every catalogued call in `fn` (nested defs/lambdas excluded),
    in source order."""
    out: List[Tuple[str, int, int, bool]] = []

    def visit(node: ast.AST, guarded: bool) -> None:
        if isinstance(node, (ast.FunctionDef, ast.AsyncFunctionDef, ast.Lambda, ast.ClassDef)) and node is not fn:
            return
        if isinstance(node, ast.Try):
            g = guarded or any(_catches_exception(h) for h in node.handlers)
            for s in node.body:
                visit(s, g)
            for h in node.handlers:
                for s in h.body:
                    visit(s, guarded)
            for s in node.orelse:
                visit(s, guarded)
            for s in node.finalbody:
                visit(s, guarded)
            return
        if isinstance(node, ast.Call):
            n = _callee_name(node)
            if n in CALLEES:
                out.append((n, node.lineno, node.col_offset, guarded))
        for ch in ast.iter_child_nodes(node):
            visit(ch, guarded)

    for s in fn.body:  # type: ignore[attr-defined]
        visit(s, False)
    out.sort(key=lambda t: (t[1], t[2]))
    return [(n, ln, g) for n, ln, _c, g in out]


def scan_repo(repo: Path) -> List[dict]:
    rows: List[dict] = []
    for lean_fn, rel, qual in FUNCS:
        tree = ast.parse((repo / rel).read_text())
        fn = _find(tree, qual)
        if fn is None:
            continue
        occ: Dict[str, int] = {}
        for name, ln, g in scan_function(fn):
            k = occ.get(name, 0)
            occ[name] = k + 1
            rows.append({"fn": lean_fn, "callee": CALLEES[name], "py": name, "occ": k, "guarded": g, "line": ln,
                         "file": rel})
    return rows


@table
def gen(repo: Path):
    rows = scan_repo(repo)
    fns = [f for f, _, _ in FUNCS]
    callees = []
    for c in CALLEES.values():
        if c not in callees:
            callees.append(c)
    L = ["/-", "GENERATED by harness/tables/failsoft.py from the repository's AST — do not edit.",
         "Every catalogued optional-subsystem call inside the turn skeleton and whether it sits in the body of a",
         "`try` that catches `Exception` within the same function.  `Fn`/`Callee` are a fixed catalogue.", "-/",
         "namespace Clem.Gen.FailSoft", "",
         "inductive Fn where"]
    L += [f"  | {f}" for f in fns]
    L += ["  deriving DecidableEq, Repr", "", "inductive Callee where"]
    L += [f"  | {c}" for c in callees]
    L += ["  deriving DecidableEq, Repr", "",
          "structure CallSite where", "  fn : Fn", "  callee : Callee", "  occ : Nat", "  guarded : Bool",
          "  deriving DecidableEq, Repr", "",
          "def callSites : List CallSite := ["]
    body = []
    for r in rows:
        body.append(f"  ⟨.{r['fn']}, .{r['callee']}, {r['occ']}, {'true' if r['guarded'] else 'false'}⟩"
                    f"  -- {r['file'].split('/')[-1]}:{r['py']}")
    # comments must not follow the comma on the last line: emit as separate lines
    for i, b in enumerate(body):
        code, cm = b.split("  -- ")
        L.append(f"  -- {cm}")
        L.append(code + ("," if i + 1 < len(body) else ""))
    L += ["]", "",
          "/-- all occurrences of `(f, c)` -/",
          "def sitesOf (f : Fn) (c : Callee) : List CallSite :=",
          "  callSites.filter (fun s => decide (s.fn = f) && decide (s.callee = c))", "",
          "/-- the call exists in the source and every occurrence is inside `try … except Exception` -/",
          "def guardedAll (f : Fn) (c : Callee) : Bool :=",
          "  !(sitesOf f c).isEmpty && (sitesOf f c).all (·.guarded)", "",
          "def present (f : Fn) (c : Callee) : Bool := !(sitesOf f c).isEmpty", "",
          "/-- the `occ`-th occurrence (source order) of `(f, c)` exists and is guarded -/",
          "def guardedAt (f : Fn) (c : Callee) (occ : Nat) : Bool :=",
          "  (sitesOf f c).any (fun s => decide (s.occ = occ) && s.guarded)", "",
          "end Clem.Gen.FailSoft", ""]
    src = "\n".join(L)
    summary = {"FailSoft.lean": {"sites": len(rows), "guarded": sum(1 for r in rows if r["guarded"]),
                                 "unguarded": [f"{r['fn']}:{r['py']}#{r['occ']}" for r in rows if not r["guarded"]]}}
    return {"FailSoft.lean": src}, summary
