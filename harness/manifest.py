"""Regenerate MANIFEST.json from the per-property harness modules.
A property is claimed when harness/props/cXX.py exists and sets CLAIM = {...};
every other property of properties.jsonl is listed under not_applicable with the
module's (or the default) reason."""
from __future__ import annotations

import importlib
import json
import sys
from pathlib import Path

VERIF = Path(__file__).resolve().parent.parent
sys.path.insert(0, str(VERIF))

BASELINE_OFF = ("cd /repo && env -u CLEMATIS3_VERIF /venv/bin/python -m pytest -ra -q -p no:cacheprovider "
                "--timeout=900 --continue-on-collection-errors")


def main() -> None:
    props = [json.loads(l) for l in (VERIF / "properties.jsonl").read_text().splitlines() if l.strip()]
    checks, na = [], []
    for p in props:
        pid = p["id"]
        try:
            m = importlib.import_module(f"harness.props.{pid.lower()}")
            claim = getattr(m, "CLAIM", None)
        except ModuleNotFoundError:
            m, claim = None, None
        if not claim:
            na.append({"property_id": pid,
                       "reason": getattr(m, "NOT_CLAIMED_REASON",
                                         "not claimed yet: Lean model, theorems and correspondence for this property are not built in this revision (planned, see DESIGN.md section 4); no technique other than Lean proof + correspondence is substituted")})
            continue
        checks.append({
            "property_id": pid,
            "quick_cmd": f"./check {pid} --tier quick",
            "thorough_cmd": f"./check {pid} --tier thorough",
            "evidence_file": f"/verif/evidence/{pid}.json",
            "replay_cmd_template": f"./check {pid} --replay {{path}}",
            "engine": "lean4-proof+correspondence",
            "level_claimed": {"category": "proof", "text": claim["text"], "design_ref": claim.get("design_ref", f"DESIGN.md §4 {pid}")},
            "level_note": claim["note"],
            "technique": claim.get("technique", "Lean 4 theorems about an executable model + differential correspondence with the implementation"),
        })
    hooks_path = VERIF / "hooks.json"
    hooks = json.loads(hooks_path.read_text()) if hooks_path.exists() else {"source_commits": []}
    man = {
        "version": 1,
        "setup_cmd": "./setup.sh",
        "hooks": {
            "guard": "CLEMATIS3_VERIF",
            "enable": "checks export CLEMATIS3_VERIF=1 before importing /repo in-process; with the variable unset no hook code runs",
            "baseline_off_cmd": BASELINE_OFF,
            "source_commits": hooks.get("source_commits", []),
            "add_only": True,
        },
        "engines": [{
            "name": "lean4-proof+correspondence",
            "path": "lean/ (lake project), harness/ (Python)",
            "serves_properties": [c["property_id"] for c in checks],
            "kind_free_text": "Lean 4.33 theorems over hand-written executable models (lean/Clem/Model) and tables regenerated from /repo's AST (lean/Clem/Gen); compiled Mathlib-free driver clemdrv runs the same definitions against the real Python code on seeded generated inputs; property monitors are evaluated on implementation outputs",
        }],
        "checks": checks,
        "not_applicable": na,
        "notes": "Every check: regenerate tables from /repo, lake build, axiom audit of Clem.Props.<id>, correspondence + monitors, evidence. Exit 2 = infrastructure error (never a VIOLATION). See DESIGN.md.",
    }
    (VERIF / "MANIFEST.json").write_text(json.dumps(man, indent=1) + "\n")
    print(f"claimed: {[c['property_id'] for c in checks]}; not claimed: {[n['property_id'] for n in na]}")


if __name__ == "__main__":
    main()
