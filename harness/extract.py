"""
Translator: /repo working tree (Python AST) -> lean/Clem/Gen/*.lean tables, plus
AST fingerprints of every hand-modelled function.

* Tables are *regenerated on every check*; theorems in Clem/Props quantify over
  them, so they are re-checked by the kernel against what the code says now.
* Fingerprints only produce `NOTE model-drift` (never a violation): they tell
  the reader that a hand-modelled function changed and that the correspondence
  run is what decides.
Files are written via temp+rename and left untouched when unchanged, so `lake`
rebuilds nothing on an unchanged tree.
"""
from __future__ import annotations

import ast
import hashlib
import json
import os
import sys
from pathlib import Path
from typing import Any, Dict, List

HERE = Path(__file__).resolve().parent
FP_BASELINE = HERE / "fingerprints.json"

def _collect_modelled() -> Dict[str, Dict[str, List[str]]]:
    """file -> {qualified name -> [properties served]}, merged from every
    harness/props/cXX.py `MODELLED` declaration."""
    import importlib
    out: Dict[str, Dict[str, List[str]]] = {}
    for p in sorted((HERE / "props").glob("c[0-9]*.py")):
        try:
            m = importlib.import_module(f"harness.props.{p.stem}")
        except Exception:
            continue
        for rel, names in getattr(m, "MODELLED", {}).items():
            for q in names:
                out.setdefault(rel, {}).setdefault(q, [])
                if p.stem.upper() not in out[rel][q]:
                    out[rel][q].append(p.stem.upper())
    return out


_GENERATORS = []  # functions (repo: Path) -> {filename: lean source}, registered below


def table(fn):
    _GENERATORS.append(fn)
    return fn


def _find(tree: ast.AST, qual: str):
    parts = qual.split(".")
    node: Any = tree
    for p in parts:
        found = None
        for ch in getattr(node, "body", []):
            if isinstance(ch, (ast.FunctionDef, ast.AsyncFunctionDef, ast.ClassDef)) and ch.name == p:
                found = ch
                break
        if found is None:
            return None
        node = found
    return node


def fingerprints(repo: Path, modelled) -> Dict[str, str]:
    out: Dict[str, str] = {}
    for rel, names in modelled.items():
        p = repo / rel
        try:
            tree = ast.parse(p.read_text())
        except Exception as e:
            for q in names:
                out[f"{rel}:{q}"] = f"unreadable:{type(e).__name__}"
            continue
        for q in names:
            node = _find(tree, q)
            if node is None:
                out[f"{rel}:{q}"] = "missing"
            else:
                out[f"{rel}:{q}"] = hashlib.sha256(ast.dump(node, include_attributes=False).encode()).hexdigest()[:16]
    return out


def write_if_changed(path: Path, content: str) -> bool:
    if path.exists() and path.read_text() == content:
        return False
    path.parent.mkdir(parents=True, exist_ok=True)
    tmp = path.with_suffix(path.suffix + f".tmp{os.getpid()}")
    tmp.write_text(content)
    os.replace(tmp, path)
    return True


def lean_str(s: str) -> str:
    return json.dumps(s, ensure_ascii=False)


def lean_str_list(xs) -> str:
    return "[" + ", ".join(lean_str(x) for x in xs) + "]"


def main(repo: Path, gen_dir: Path, update_baseline: bool = False) -> Dict[str, Any]:
    info: Dict[str, Any] = {"drift": [], "tables": {}, "errors": []}
    # 1. generated tables
    import importlib
    for p in sorted((HERE / "tables").glob("*.py")):
        if p.stem != "__init__":
            importlib.import_module(f"harness.tables.{p.stem}")  # registers @table generators
    for g in _GENERATORS:
        try:
            files, summary = g(repo)
        except Exception as e:  # the tree no longer has the shape the translator reads
            info["errors"].append(f"{g.__module__.rsplit('.', 1)[-1]}.{g.__name__}: {type(e).__name__}: {e}")
            continue
        for name, src in files.items():
            changed = write_if_changed(gen_dir / name, src)
            info["tables"][name] = dict(summary.get(name, {}), changed=changed)
    # 2. fingerprints
    modelled = _collect_modelled()
    fp = fingerprints(repo, modelled)
    if update_baseline or not FP_BASELINE.exists():
        FP_BASELINE.write_text(json.dumps(fp, indent=1, sort_keys=True))
    base = json.loads(FP_BASELINE.read_text())
    for k, v in fp.items():
        if base.get(k) != v:
            rel, q = k.split(":", 1)
            info["drift"].append({"what": k, "properties": modelled[rel][q], "now": v, "baseline": base.get(k)})
    return info


if __name__ == "__main__":
    repo = Path(os.environ.get("CLEMATIS3_REPO", "/repo"))
    sys.path.insert(0, str(HERE.parent))
    r = main(repo, HERE.parent / "lean" / "Clem" / "Gen", update_baseline="--update" in sys.argv)
    print(json.dumps(r, indent=1))
