"""Wire form of `Clem.Py.J` (lean/Clem/Py/Json.lean) shared by packages that send JSON-like Python
values to the model driver with their Python types intact.

  None/True/False   -> null/true/false
  int               -> {"i": n}
  float             -> {"f": "<decimal of the IEEE-754 bit pattern>"}
  str               -> JSON string (BMP code points only; the driver maps to code-point lists)
  list/tuple        -> JSON array
  dict (str keys)   -> {"o": [[key, value], ...]}   (insertion order preserved)
"""
from __future__ import annotations

import struct
from typing import Any


def f2b(x: float) -> str:
    return str(struct.unpack("<Q", struct.pack("<d", x))[0])


def b2f(s: str) -> float:
    return struct.unpack("<d", struct.pack("<Q", int(s)))[0]


def enc(x: Any) -> Any:
    if x is None or x is True or x is False:
        return x
    if isinstance(x, int):
        return {"i": x}
    if isinstance(x, float):
        return {"f": f2b(x)}
    if isinstance(x, str):
        return x
    if isinstance(x, (list, tuple)):
        return [enc(v) for v in x]
    if isinstance(x, dict):
        return {"o": [[k, enc(v)] for k, v in x.items()]}
    raise TypeError(f"not a JSON value: {type(x).__name__}")


def dec(w: Any) -> Any:
    if w is None or w is True or w is False or isinstance(w, str):
        return w
    if isinstance(w, list):
        return [dec(v) for v in w]
    if isinstance(w, dict):
        if "i" in w:
            return int(w["i"])
        if "f" in w:
            return b2f(w["f"])
        if "o" in w:
            return {k: dec(v) for k, v in w["o"]}
    raise TypeError(f"bad wire value {w!r}")


def canon(w: Any) -> Any:
    """Canonical form of a wire value: object entries sorted by key (Python dict equality and
    canonical JSON ignore key order); everything else untouched, so 1 / True / 1.0 / -0.0 stay distinct."""
    if isinstance(w, list):
        return [canon(v) for v in w]
    if isinstance(w, dict) and "o" in w:
        return {"o": sorted(([k, canon(v)] for k, v in w["o"]), key=lambda kv: kv[0])}
    return w
