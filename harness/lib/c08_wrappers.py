"""C08 — the text/JSON wrappers (`atomic_write_text`, `atomic_write_json`) with documents whose serialisation or
encoding FAILS (at the start, in the middle, at the end of a large document) as well as documents that succeed,
under the syscall injector.  Model: `Clem.Atomic.writeSerialised` (serialise completely, then `awb`); theorem
`C08_serialise_before_temp`: a content failure precedes every FS step.  The property monitors (no temp left,
destination old-or-new at every instant) are evaluated on the directory the real call leaves behind."""
from __future__ import annotations

import json
import os
import random
import shutil
import tempfile
from pathlib import Path
from typing import Any, Dict, List, Optional, Tuple

from harness import core
from harness.core import Component
from harness.lib.c08_callers import _tok

RETRIES = 80
BAD_JSON = ["surrogate", "set", "object", "cycle", "tuplekey", "mixedkeys", "bytes", "generator", "deepsurrogate"]
OK_JSON = ["none", "nan", "unicode"]
BAD_TEXT = ["surrogate", "ascii_encoding"]
OK_TEXT = ["none", "crlf"]
POS = ["start", "middle", "end"]


def build_json(desc: dict):
    size = int(desc.get("size", 300))
    doc: Dict[Any, Any] = {f"k{i:04d}": {"text": "x" * 20, "n": i} for i in range(size)}
    key = {"start": "a_first", "middle": f"k{size // 2:04d}x", "end": "zz_last"}[desc.get("pos", "end")]
    bad = desc.get("bad", "none")
    if bad == "surrogate":
        doc[key] = json.loads('"caf\\ud800"')  # legal JSON input yields a lone surrogate
    elif bad == "deepsurrogate":
        doc[key] = {"l": [1, {"s": "\udfff tail"}]}
    elif bad == "set":
        doc[key] = {"a", "b"}
    elif bad == "object":
        doc[key] = object()
    elif bad == "bytes":
        doc[key] = b"raw"
    elif bad == "generator":
        doc[key] = (i for i in range(3))
    elif bad == "cycle":
        c: Dict[str, Any] = {"a": 1}
        c["self"] = c
        doc[key] = c
    elif bad == "tuplekey":
        doc[key] = {("t", 1): 1}
    elif bad == "mixedkeys":
        doc[key] = {1: "a", "b": 2}
    elif bad == "nan":
        doc[key] = float("nan")
    elif bad == "unicode":
        doc[key] = "é☃\U0001f600 \r\n"
    else:
        doc[key] = 1
    return doc


def build_text(desc: dict) -> Tuple[str, dict]:
    size = max(1, int(desc.get("size", 300)))
    lines = [f"line {i} " + "y" * 20 for i in range(size)]
    idx = {"start": 0, "middle": size // 2, "end": size - 1}[desc.get("pos", "end")]
    bad = desc.get("bad", "none")
    kw: Dict[str, Any] = {}
    if bad == "surrogate":
        lines[idx] = lines[idx] + "\ud800"
    elif bad == "ascii_encoding":
        lines[idx] = lines[idx] + "é"
        kw["encoding"] = "ascii"
    sep = "\r\n" if bad == "crlf" else "\n"
    return sep.join(lines) + sep, kw


def expected(case: dict) -> Optional[bytes]:
    """Independent statement of what the wrapper has to write (None = the content cannot be serialised)."""
    try:
        if case["fn"] == "json":
            return json.dumps(build_json(case["doc"]), sort_keys=True, separators=(",", ":"), ensure_ascii=False).encode("utf-8")
        text, kw = build_text(case["doc"])
        return text.replace("\r\n", "\n").encode(kw.get("encoding", "utf-8"))
    except (TypeError, ValueError, UnicodeError, RecursionError):
        return None


class WrapComp(Component):
    name = "atomic.wrappers"
    budget = {"quick": 150, "thorough": 3000, "search": 6000}

    def __init__(self):
        self._r: Dict[int, str] = {}

    def gen(self, rng: random.Random, i: int) -> dict:
        fn = rng.choice(["json", "json", "text"])
        kinds = (BAD_JSON + OK_JSON + OK_JSON) if fn == "json" else (BAD_TEXT + OK_TEXT)
        L = rng.choice([0, 4, 10, 18])
        p = rng.choice([0.0, 0.1, 0.3])
        script = [("ok" if rng.random() >= p else rng.choice(["crash", "err:5", "err:28", "err:13", "err:16", "short:1", "short:0"]))
                  for _ in range(L)]
        return {"fn": fn, "doc": {"size": rng.choice([0, 1, 40, 300]), "bad": rng.choice(kinds), "pos": rng.choice(POS)},
                "old": rng.choice([None, "OLD", ""]), "script": script}

    def _before(self, case) -> Dict[str, str]:
        fs = {"other.json": "{}"}
        if case["old"] is not None:
            fs["bundle.json"] = case["old"]
        return fs

    def impl(self, case: dict) -> Any:
        from clematis.io import atomic
        from harness.lib import faults
        from harness.props import c08
        root = Path(tempfile.mkdtemp(prefix="wrap_", dir=str(c08._scratch())))
        for n, c in self._before(case).items():
            (root / n).write_bytes(c.encode("latin-1"))
        dest = root / "bundle.json"
        if case["fn"] == "json":
            doc = build_json(case["doc"])
            call = lambda: atomic.atomic_write_json(dest, doc)
        else:
            text, kw = build_text(case["doc"])
            call = lambda: atomic.atomic_write_text(dest, text, **kw)
        try:
            out = faults.run_injected(call, root, [dest], case["script"])
        finally:
            shutil.rmtree(root, ignore_errors=True)
        out["hist"] = [[_tok(h[0][0]), h[1]] for h in out["hist"]]
        out["fs"] = {n: _tok(c) for n, c in out["fs"].items()}
        r = "XXXXXXXX"
        for t in out["tmps"]:
            if t.startswith("bundle.json."):
                r = t[len("bundle.json."):]
        self._r[id(case)] = r
        return out

    def request(self, case: dict) -> dict:
        from harness.props.c08 import write_loop_present
        exp = expected(case)
        ser = {"fail": {"start": 0, "middle": 1, "end": 2}[case["doc"].get("pos", "end")]} if exp is None \
            else {"done": _tok(exp.decode("latin-1"))}
        return {"c": "atomic.wrap", "loop": write_loop_present(), "retries": RETRIES, "dest": "bundle.json",
                "r": self._r.get(id(case), "XXXXXXXX"), "ser": ser,
                "fs": [[n, c] for n, c in sorted(self._before(case).items())], "script": case["script"]}

    def compare(self, case, io, mo):
        if not (isinstance(io, dict) and "status" in io and isinstance(mo, dict) and "status" in mo):
            return super().compare(case, io, mo)
        keep = set(self._before(case)) | {"bundle.json"}
        a = {"status": io["status"], "fs": sorted([[n, c if n in keep else "*"] for n, c in io["fs"].items()]),
             "trace": io["trace"], "hist": io["hist"]}
        b = {"status": mo["status"], "fs": sorted([[e[0], e[1] if e[0] in keep else "*"] for e in mo["fs"]]),
             "trace": mo["trace"], "hist": [[h[0], sorted(h[1])] for h in mo["hist"]]}
        a, b = core._canon(a), core._canon(b)
        return None if a == b else core.first_diff(a, b)

    def monitor_requests(self, case, io):
        before = self._before(case)
        exp = expected(case)
        old = before.get("bundle.json")
        new = _tok(exp.decode("latin-1")) if exp is not None else "\x00<unserialisable: no new content exists>"
        cur = io["fs"].get("bundle.json")
        rq = [("dest_old_or_new_at_every_instant", {"c": "atomic.mon", "m": "reader", "old": old, "new": new,
                                                    "seen": [h[0] for h in io["hist"]] + [cur]}),
              ("no_temp_left", {"c": "atomic.mon", "m": "no_temp", "status": io["status"], "trace": io["trace"],
                                "before": sorted(before), "dest": "bundle.json", "after": sorted(io["fs"])})]
        if exp is not None:
            rq.append(("returned_means_new", {"c": "atomic.mon", "m": "returned_new", "status": io["status"], "new": new, "cur": cur}))
        left = sorted(n for n in io["fs"] if n not in before and n != "bundle.json")
        if left:
            rq.append(("leftover_name_harmless", {"c": "atomic.mon", "m": "harmless", "dest": "bundle.json", "names": left}))
        return rq

    def monitors(self, case, io):
        before = self._before(case)
        res = []
        bad = [n for n, c in before.items() if n != "bundle.json" and io["fs"].get(n) != c]
        res.append(("frame_other_files_untouched", not bad, f"changed siblings {bad}"))
        if expected(case) is None:
            res.append(("unserialisable_content_must_raise", io["status"] in ("raised", "crashed"), f"status {io['status']}"))
            res.append(("content_failure_leaves_dest_untouched", io["fs"].get("bundle.json") == before.get("bundle.json"),
                        f"dest now {str(io['fs'].get('bundle.json'))[:60]!r}"))
        return res

    def tags(self, case, io):
        t = {f"{case['fn']}:{case['doc'].get('bad', 'none')}@{case['doc'].get('pos', 'end')}"}
        t.add("content_fail" if expected(case) is None else "content_ok")
        for s, o in io["trace"]:
            if o != "ok":
                t.add(f"{o.split(':')[0]}@{s}")
        t.add("end:" + io["status"])
        return sorted(t)

    def shrink(self, case):
        d = case["doc"]
        if d.get("size", 300) > 1:
            yield dict(case, doc=dict(d, size=d.get("size", 300) // 2))
        s = case["script"]
        for i in range(len(s)):
            if s[i] != "ok":
                yield dict(case, script=s[:i] + ["ok"] + s[i + 1:])
        if s:
            yield dict(case, script=s[:-1])


WRAP = WrapComp()
COMPONENTS = [WRAP]


def run(ctx, run_cases) -> None:
    from harness.props.c08 import safe_impl
    quick = ctx.tier == "quick"
    cases: List[dict] = []
    for fn, bads, oks in (("json", BAD_JSON, OK_JSON), ("text", BAD_TEXT, OK_TEXT)):
        for bad in bads + oks:
            for pos in POS:
                for old in (("OLD",) if quick else ("OLD", None)):
                    cases.append({"fn": fn, "doc": {"size": 300, "bad": bad, "pos": pos}, "old": old, "script": []})
        # a content failure combined with scripted I/O outcomes (they must never be consumed: no FS step happens)
        for bad in bads:
            cases.append({"fn": fn, "doc": {"size": 300, "bad": bad, "pos": "end"}, "old": "OLD", "script": ["ok", "ok", "err:28"]})
            cases.append({"fn": fn, "doc": {"size": 300, "bad": bad, "pos": "middle"}, "old": "OLD", "script": ["ok", "ok", "ok", "ok", "crash"]})
    # every step x {crash, ENOSPC} on a good document through each wrapper
    for fn in ("json", "text"):
        base = {"fn": fn, "doc": {"size": 300, "bad": "unicode" if fn == "json" else "crlf", "pos": "middle"}, "old": "OLD", "script": []}
        io0 = safe_impl(WRAP, base)
        nsteps = len(io0.get("trace") or [])
        cap = 40 if quick else 120
        idxs = list(range(nsteps)) if nsteps <= cap else sorted({(k * (nsteps - 1)) // (cap - 1) for k in range(cap)})
        for j in idxs:
            for o in (("crash", "err:28") if quick else ("crash", "err:28", "err:5", "err:13")):
                cases.append(dict(base, script=["ok"] * j + [o]))
    outs = [safe_impl(WRAP, c) for c in cases]
    run_cases(ctx, WRAP, cases, outs)
    core.run_component(ctx, WRAP)
