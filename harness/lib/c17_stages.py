"""C17 — monitors on the REAL stages and the REAL run_turn (correspondence only; no Lean model of run_turn).

* `turn.yield`  : real `Orchestrator.run_turn` with the scheduler on, stubbed stage counters and a scripted
                  `time.perf_counter`; the yield (stage_end, reason, consumed) must be the first boundary at which the
                  Lean table `yieldSpecB` admits a reason, every earlier boundary must admit `None` (evaluated by
                  Lean on the implementation's own budgets), and the two yield records must end the turn.
* `stage.t1`    : real `t1_propagate` with `ctx.slice_budgets`; per-graph clamp and the total.
* `stage.t2`    : real `t2_semantic` with `ctx.slice_budgets["t2_k"]`.
The real `deliberate` runs inside `turn.yield` (ops ≤ t3_ops).
"""
from __future__ import annotations

import copy
import random
import time as _time
from types import SimpleNamespace
from typing import Any, Dict, List, Tuple

from harness.core import Component, Ctx, run_component

STATE: Dict[str, Any] = {"scratch": None}
BOUNDARIES = ["T1", "T2", "T3", "T4", "Apply"]


class StageComp(Component):
    """no Lean model behind these components: monitors on the real code only."""
    deciding = False

    def request(self, case):
        return {"c": "const", "v": True}

    def compare(self, case, impl_out, model_out):
        return None



class FakeTime:
    def __init__(self):
        self.now = 0.0

    def perf_counter(self):
        return self.now

    def __getattr__(self, n):
        return getattr(_time, n)


def _attrdict(obj):
    class AD(dict):
        def __getattr__(self, name):
            try:
                return self[name]
            except KeyError as e:
                raise AttributeError(name) from e

        def __setattr__(self, name, value):
            self[name] = value

        def __delattr__(self, name):
            try:
                del self[name]
            except KeyError as e:
                raise AttributeError(name) from e

    if isinstance(obj, dict):
        return AD({k: _attrdict(v) for k, v in obj.items()})
    if isinstance(obj, list):
        return [_attrdict(v) for v in obj]
    return obj


_BASE_CFG = None


def base_cfg() -> dict:
    global _BASE_CFG
    if _BASE_CFG is None:
        from configs.validate import validate_config
        _BASE_CFG = validate_config({})
    return copy.deepcopy(_BASE_CFG)


class TurnYield(StageComp):
    name = "turn.yield"
    budget = {"quick": 250, "thorough": 3000, "search": 1500}

    def gen(self, rng: random.Random, i: int) -> dict:
        enabled = rng.random() < 0.9
        b = {}
        for k in ["t1_pops", "t1_iters", "t2_k", "t3_ops", "wall_ms"]:
            if rng.random() < 0.55:
                b[k] = rng.choice([0, 1, 2, 3, 5, 30, 200]) if k != "wall_ms" else rng.choice([0, 10, 20, 30, 50, 200])
        sched: Dict[str, Any] = {"enabled": enabled, "budgets": b, "policy": rng.choice(["round_robin", "fair_queue"])}
        if rng.random() < 0.8:
            sched["quantum_ms"] = rng.choice([0, 10, 20, 25, 1000, 100000])
        # elapsed ms seen at the five boundaries (non-decreasing, boundary-biased around the thresholds)
        pts = sorted(rng.choice([0, 0, 0, 5, 9, 10, 19, 20, 21, 25, 29, 30, 49, 50, 199, 200, 1000]) for _ in range(5))
        if rng.random() < 0.5:
            pts = [0, 0, 0, 0, 0]
        return {"sched": sched, "t1": [rng.choice([0, 1, 2, 3, 5]), rng.choice([0, 1, 2, 3])],
                "t2k": rng.choice([0, 1, 2, 3, 5]), "smax": rng.choice([0, 50, 95]),
                "t3": rng.choice(["real", "real", 0, 1, 2, 3]), "elapsed": pts}

    def impl(self, case: dict) -> Any:
        import clematis.engine.orchestrator as orch
        from clematis.engine.orchestrator import core
        from clematis.engine.stages.t3 import deliberate
        from clematis.engine.types import T1Result, T2Result, Plan, SpeakOp
        cfg = base_cfg()
        cfg["scheduler"] = copy.deepcopy(case["sched"])
        snap = STATE["scratch"]
        cfg.setdefault("t4", {})["snapshot_dir"] = str(snap)
        ctx = SimpleNamespace(turn_id="1", agent_id="A", now=None, now_ms=0, cfg=_attrdict(cfg))
        state: Dict[str, Any] = {"version_etag": "0"}
        ft = FakeTime()
        el = case["elapsed"]
        recs: List[Tuple[str, dict]] = []
        seen: Dict[str, Any] = {}

        def t1_stub(c, s, text):
            ft.now = el[0] / 1000.0
            return T1Result(graph_deltas=[], metrics={"pops": case["t1"][0], "iters": case["t1"][1], "graphs_touched": 0})

        def t2_stub(c, s, text, t1):
            ft.now = el[1] / 1000.0
            return T2Result(retrieved=[], graph_deltas_residual=[],
                            metrics={"k_used": case["t2k"], "k_returned": case["t2k"] + 2,
                                     "sim_stats": {"mean": case["smax"] / 100.0, "max": case["smax"] / 100.0}})

        def t3_stub(c, s, bundle):
            ft.now = el[2] / 1000.0
            seen["slice_caps"] = dict(bundle.get("slice_caps", {}))
            seen["base_ops"] = int(bundle.get("agent", {}).get("caps", {}).get("ops", 3))
            if case["t3"] == "real":
                plan = deliberate(bundle)
            else:
                plan = Plan(version="t3-plan-v1",
                            ops=[SpeakOp(kind="Speak", intent="ack", topic_labels=[], max_tokens=16)] * int(case["t3"]))
            seen["nops"] = len(plan.ops)
            return plan

        o4, oa = core.t4_filter, core.apply_changes

        def t4_wrap(*a, **kw):
            r = o4(*a, **kw)
            ft.now = el[3] / 1000.0
            return r

        def ap_wrap(*a, **kw):
            r = oa(*a, **kw)
            ft.now = el[4] / 1000.0
            return r

        saved = {k: orch.__dict__.get(k) for k in ("t1_propagate", "t2_semantic", "t3_deliberate", "append_jsonl")}
        try:
            core.time = ft
            core.t4_filter, core.apply_changes = t4_wrap, ap_wrap
            orch.t1_propagate, orch.t2_semantic, orch.t3_deliberate = t1_stub, t2_stub, t3_stub
            orch.append_jsonl = lambda f, p: recs.append((f, copy.deepcopy(p)))
            core.run_turn(ctx, state, "hello")
        finally:
            core.time = _time
            core.t4_filter, core.apply_changes = o4, oa
            for k, v in saved.items():
                if v is None:
                    orch.__dict__.pop(k, None)
                else:
                    setattr(orch, k, v)
        files = [f for f, _ in recs]
        ev = [p for f, p in recs if f == "scheduler.jsonl"]
        turns = [p for f, p in recs if f == "turn.jsonl"]
        sb = getattr(ctx, "slice_budgets", "absent")
        return {"files": files, "events": ev, "turns": turns, "slice_budgets": sb, "seen": seen}

    # the skeleton of run_turn: which counters are offered to _should_yield at each boundary
    @staticmethod
    def expected_consumed(case, io, stage: str) -> dict:
        i = BOUNDARIES.index(stage)
        c = {"ms": case["elapsed"][i]}
        if stage == "T1":
            c["t1_iters"], c["t1_pops"] = case["t1"][1], case["t1"][0]
        elif stage == "T2":
            c["t2_k"] = case["t2k"]
        elif stage == "T3":
            c["t3_ops"] = io["seen"].get("nops")
        return c

    def monitor_requests(self, case, io):
        if not case["sched"]["enabled"] or not isinstance(io["slice_budgets"], dict):
            return []
        b = io["slice_budgets"]
        rq = []
        ystage = io["events"][0]["stage_end"] if io["events"] else None
        for st in BOUNDARIES:
            if st == "T3" and "nops" not in io["seen"]:
                break
            cons = self.expected_consumed(case, io, st)
            if st == ystage:
                rq.append((f"yield_reason_at_{st}", {"c": "yield.spec", "budgets": b, "consumed": io["events"][0]["consumed"],
                                                      "r": io["events"][0]["reason"]}))
                break
            rq.append((f"no_yield_at_{st}", {"c": "yield.spec", "budgets": b, "consumed": cons, "r": None}))
        # the whole turn against the Lean skeleton `firstYield` (C17_Turn_yield_first_boundary)
        if "nops" in io["seen"] or ystage in ("T1", "T2"):
            bnds = []
            for st in BOUNDARIES:
                if st == "T3" and "nops" not in io["seen"]:
                    break
                bnds.append([st, self.expected_consumed(case, io, st)])
            got = [io["events"][0]["stage_end"], io["events"][0]["reason"]] if io["events"] else None
            if got is None or got[0] in BOUNDARIES:
                rq.append(("turn_skeleton", {"c": "turn.skeleton", "budgets": b, "boundaries": bnds, "got": got}))
        return rq

    def monitors(self, case, io):
        res = []
        ev, turns, files = io["events"], io["turns"], io["files"]
        if not case["sched"]["enabled"]:
            res.append(("gate_off_inert", not ev and io["slice_budgets"] in ("absent", None)
                        and not any(t.get("yielded") for t in turns), f"scheduler off but events={ev} slice_budgets={io['slice_budgets']}"))
            return res
        conf = case["sched"]["budgets"]
        sb = io["slice_budgets"] if isinstance(io["slice_budgets"], dict) else {}
        res.append(("slice_budgets_match_config", all(sb.get(k) == v for k, v in conf.items())
                    and sb.get("quantum_ms") == case["sched"].get("quantum_ms", 20),
                    f"configured budgets {conf} quantum {case['sched'].get('quantum_ms', 20)} but the stages see {io['slice_budgets']}"))
        res.append(("one_turn_record", len(turns) == 1, f"{len(turns)} turn.jsonl records"))
        res.append(("at_most_one_yield", len(ev) <= 1, f"{len(ev)} scheduler events"))
        if ev:
            e = ev[0]
            res.append(("stage_end_is_boundary", e.get("stage_end") in BOUNDARIES, f"stage_end={e.get('stage_end')}"))
            res.append(("yield_records_end_the_turn", files[-2:] == ["scheduler.jsonl", "turn.jsonl"], f"records {files}"))
            prev = {"T1": "t1.jsonl", "T2": "t2.jsonl", "T3": "t2.jsonl", "T4": "t4.jsonl", "Apply": "apply.jsonl"}
            if e.get("stage_end") in prev and len(files) >= 3:
                last_stage = [f for f in files[:-2] if f in ("t1.jsonl", "t2.jsonl", "t4.jsonl", "apply.jsonl")]
                res.append(("yield_directly_after_stage", bool(last_stage) and last_stage[-1] == prev[e["stage_end"]],
                            f"stage_end={e['stage_end']} after records {files[:-2]}"))
            if turns:
                t = turns[-1]
                res.append(("turn_record_matches", t.get("yielded") is True and t.get("yield_reason") == e.get("reason"),
                            f"turn record {t.get('yielded')}/{t.get('yield_reason')} vs event {e.get('reason')}"))
            if e.get("stage_end") in BOUNDARIES:
                want = self.expected_consumed(case, io, e["stage_end"])
                res.append(("consumed_is_stage_counters", e.get("consumed") == want, f"consumed {e.get('consumed')} expected {want}"))
        else:
            res.append(("no_yield_flag", not any(t.get("yielded") for t in turns), "turn record says yielded without a scheduler event"))
        # stage-side clamp on plan ops (real deliberate only)
        if case["t3"] == "real" and "nops" in io["seen"] and isinstance(io["slice_budgets"], dict):
            cap = io["slice_budgets"].get("t3_ops")
            sc = io["seen"]["slice_caps"].get("t3_ops")
            res.append(("t3_slice_cap_passed", sc == cap, f"bundle slice_caps.t3_ops={sc} budgets.t3_ops={cap}"))
            if cap is not None and cap >= 0:
                res.append(("t3_ops_clamped", io["seen"]["nops"] <= min(cap, io["seen"]["base_ops"]),
                            f"{io['seen']['nops']} plan ops with t3_ops={cap}, base={io['seen']['base_ops']}"))
        return res

    def tags(self, case, io):
        if not case["sched"]["enabled"]:
            return ["gate_off"]
        if io["events"]:
            e = io["events"][0]
            return [f"yield@{e.get('stage_end')}", str(e.get("reason"))]
        return ["no_yield"]

    def shrink(self, case):
        b = case["sched"]["budgets"]
        for k in list(b):
            nb = dict(b)
            del nb[k]
            yield dict(case, sched=dict(case["sched"], budgets=nb))


class StageT1(StageComp):
    name = "stage.t1"
    budget = {"quick": 150, "thorough": 2500, "search": 1000}

    def gen(self, rng: random.Random, i: int) -> dict:
        ng = rng.choice([1, 1, 1, 2, 3])
        graphs = []
        for g in range(ng):
            shape = rng.choice(["chain", "star", "chain"])
            graphs.append({"shape": shape, "size": rng.choice([1, 2, 3, 5, 7]), "w": rng.choice([900, 800, 500])})
        caps = {}
        if rng.random() < 0.8:
            caps["t1_pops"] = rng.choice([0, 1, 1, 2, 3, 5, 100])
        if rng.random() < 0.6:
            caps["t1_iters"] = rng.choice([0, 1, 1, 2, 3, 50])
        return {"graphs": graphs, "caps": caps, "queue_budget": rng.choice([10000, 10000, 2, 4]),
                "iter_cap": rng.choice([50, 50, 1, 2])}

    @staticmethod
    def _store(case):
        from clematis.graph.store import InMemoryGraphStore, Node, Edge
        store = InMemoryGraphStore()
        gids = []
        for gi, g in enumerate(case["graphs"]):
            gid = f"g:{gi}"
            gids.append(gid)
            store.ensure(gid)
            n = g["size"]
            nodes = [Node(id=f"n{gi}:0", label="hello")] + [Node(id=f"n{gi}:{k}", label=f"x{k}") for k in range(1, n)]
            store.upsert_nodes(gid, nodes)
            edges = []
            for k in range(1, n):
                src = f"n{gi}:{k - 1}" if g["shape"] == "chain" else f"n{gi}:0"
                edges.append(Edge(id=f"e{gi}:{k}", src=src, dst=f"n{gi}:{k}", weight=g["w"] / 1000.0, rel="supports"))
            if edges:
                store.upsert_edges(gid, edges)
        return store, gids

    def _run(self, case, gids_active, store):
        from clematis.engine.types import Config
        from clematis.engine.stages.t1 import t1_propagate
        cfg = Config()
        cfg.t1["queue_budget"] = case["queue_budget"]
        cfg.t1["iter_cap"] = case["iter_cap"]
        cfg.t1["iter_cap_layers"] = case["iter_cap"]
        # the module-global T1 cache would make results depend on the order of cases: always off here
        cfg.t1["cache"] = {"enabled": False, "max_entries": 0, "ttl_s": 0}
        ctx = type("Ctx", (), {"cfg": cfg, "turn_id": "t", "agent_id": "A"})()
        ctx.slice_budgets = dict(case["caps"])
        r = t1_propagate(ctx, {"store": store, "active_graphs": list(gids_active)}, "hello")
        return {"pops": int(r.metrics["pops"]), "iters": int(r.metrics["iters"])}

    def impl(self, case):
        store, gids = self._store(case)
        total = self._run(case, gids, store)
        per = [self._run(case, [g], self._store(case)[0]) for g in gids]
        # the same call graph by graph, each graph under what the earlier ones left of the slice budgets
        thr, tp, ti = [], 0, 0
        for g in gids:
            left = dict(case["caps"])
            if "t1_pops" in left:
                left["t1_pops"] -= tp
            if "t1_iters" in left:
                left["t1_iters"] -= ti
            m = self._run(dict(case, caps=left), [g], self._store(case)[0])
            thr.append(dict(m, left=left))
            tp += m["pops"]
            ti += m["iters"]
        return {"total": total, "per": per, "threaded": thr}

    def monitors(self, case, io):
        caps = case["caps"]
        res = []
        pc = min(case["queue_budget"], caps["t1_pops"]) if "t1_pops" in caps else case["queue_budget"]
        ic = min(case["iter_cap"], caps["t1_iters"]) if "t1_iters" in caps else case["iter_cap"]
        for gi, m in enumerate(io["per"]):
            res.append(("t1_pops_clamped_per_graph", m["pops"] <= max(pc, 0), f"graph {gi}: pops {m['pops']} > cap {pc}"))
            res.append(("t1_iters_clamped_per_graph", m["iters"] <= max(ic, 0), f"graph {gi}: iters {m['iters']} > cap {ic}"))
        thr = io.get("threaded") or []
        res.append(("t1_total_is_shared_budget_sum", io["total"]["pops"] == sum(m["pops"] for m in thr)
                    and io["total"]["iters"] == sum(m["iters"] for m in thr),
                    f"total {io['total']} is not the sum of the graphs run one after the other, each under the slice budget the earlier ones left: {thr}"))
        if not caps:
            res.append(("t1_total_is_sum_without_budget", io["total"]["pops"] == sum(m["pops"] for m in io["per"])
                        and io["total"]["iters"] == sum(m["iters"] for m in io["per"]), f"total {io['total']} per {io['per']}"))
        if "t1_pops" in caps and caps["t1_pops"] >= 0:
            res.append(("t1_total_pops_within_slice_budget", io["total"]["pops"] <= caps["t1_pops"],
                        f"total pops {io['total']['pops']} > slice budget t1_pops={caps['t1_pops']} over {len(case['graphs'])} active graphs"))
        if "t1_iters" in caps and caps["t1_iters"] >= 0:
            res.append(("t1_total_iters_within_slice_budget", io["total"]["iters"] <= caps["t1_iters"],
                        f"total iters {io['total']['iters']} > slice budget t1_iters={caps['t1_iters']} over {len(case['graphs'])} active graphs"))
        return res

    def tags(self, case, io):
        t = ["graphs=%d" % len(case["graphs"])]
        caps = case["caps"]
        if "t1_pops" in caps and any(m["pops"] == caps["t1_pops"] for m in io["per"]) and caps["t1_pops"] < case["queue_budget"]:
            t.append("pops_cap_binds")
        if "t1_iters" in caps and any(m["iters"] == caps["t1_iters"] for m in io["per"]) and caps["t1_iters"] < case["iter_cap"]:
            t.append("iters_cap_binds")
        if not caps:
            t.append("no_caps")
        return t

    def shrink(self, case):
        gs = case["graphs"]
        for i in range(len(gs)):
            if len(gs) > 1:
                yield dict(case, graphs=gs[:i] + gs[i + 1:])
        for i, g in enumerate(gs):
            if g["size"] > 1:
                yield dict(case, graphs=gs[:i] + [dict(g, size=g["size"] - 1)] + gs[i + 1:])
        for k in list(case["caps"]):
            c = dict(case["caps"])
            del c[k]
            yield dict(case, caps=c)


def _case_token(case) -> str:
    import hashlib, json
    return hashlib.sha1(json.dumps(case, sort_keys=True).encode()).hexdigest()[:10]


def _mem_state(n: int) -> dict:
    import numpy as np
    from clematis.graph.store import InMemoryGraphStore, Node
    from clematis.memory.index import InMemoryIndex
    from clematis.adapters.embeddings import BGEAdapter
    store = InMemoryGraphStore()
    store.ensure("g")
    # one node per episode topic: the residual nudges reveal which hits were actually used
    store.upsert_nodes("g", [Node(id="n:apple", label="apple")] + [Node(id=f"n:topic{k}", label=f"topic{k}") for k in range(n)])
    idx = InMemoryIndex()
    enc = BGEAdapter(dim=32)
    for k in range(n):
        text = f"apple story number {k} about topic{k}"
        idx.add({"id": f"ep{k}", "owner": "A", "text": text, "tags": [], "ts": "2025-08-2%dT00:00:00Z" % (k % 9),
                 "vec_full": enc.encode([text])[0].astype(np.float32), "aux": {"importance": 0.5}})
    return {"store": store, "active_graphs": ["g"], "mem_index": idx}


def _cap_value(cap) -> int:
    """what `t2_semantic` makes of a slice cap: int(), negative -> 0, unparsable -> 0"""
    if isinstance(cap, bool):
        return int(cap)
    if isinstance(cap, int):
        return max(cap, 0)
    if isinstance(cap, str) and cap.strip().lstrip("+-").isdigit():
        return max(int(cap), 0)
    return 0


class StageT2(StageComp):
    """real `t2_semantic`, several calls on the same state and query with different slice caps
    (the stage cache must not serve a result computed under another cap)."""
    name = "stage.t2"
    budget = {"quick": 80, "thorough": 1000, "search": 400}

    def gen(self, rng: random.Random, i: int) -> dict:
        n = rng.choice([0, 1, 2, 3, 5, 8])
        caps = [rng.choice([{"missing": True}, 0, 1, 1, 2, 3, 10, -1, "2", "x", True]) for _ in range(rng.choice([1, 2, 3]))]
        return {"n": n, "caps": caps, "k_retrieval": rng.choice([1, 3, 10])}

    def impl(self, case):
        from clematis.engine.types import Config, T1Result
        from clematis.engine.stages.t2 import t2_semantic
        state = _mem_state(case["n"])
        q = "tell me about apple " + _case_token(case)   # unique per case: no cross-case hits in the process-wide cache
        out = []
        for cap in case["caps"]:
            cfg = Config()
            cfg.t2["tiers"] = ["exact_semantic"]
            cfg.t2["k_retrieval"] = case["k_retrieval"]
            cfg.t2["sim_threshold"] = -1.0
            cfg.t2["exact_recent_days"] = 30
            ctx = type("Ctx", (), {})()
            ctx.cfg = cfg
            ctx.now = "2025-09-01T00:00:00Z"
            if not (isinstance(cap, dict) and cap.get("missing")):
                ctx.slice_budgets = {"t2_k": cap}
            r = t2_semantic(ctx, state, q, T1Result(graph_deltas=[], metrics={}))
            out.append({"k_used": int(r.metrics.get("k_used")), "k_returned": int(r.metrics.get("k_returned")),
                        "n_retrieved": len(r.retrieved)})
        return out

    def monitors(self, case, io):
        res = []
        for cap, o in zip(case["caps"], io):
            if isinstance(cap, dict):
                continue
            c = _cap_value(cap)
            res.append(("t2_k_used_clamped", o["k_used"] <= c, f"k_used {o['k_used']} > t2_k {cap!r} (calls with caps {case['caps']})"))
        return res

    def tags(self, case, io):
        t = []
        if any(not isinstance(c, dict) and o["k_used"] < o["n_retrieved"] for c, o in zip(case["caps"], io)):
            t.append("k_cap_binds")
        if len(case["caps"]) > 1:
            t.append("repeated_query")
        if all(o["n_retrieved"] == 0 for o in io):
            t.append("nothing_retrieved")
        return t or ["default"]

    def shrink(self, case):
        cs = case["caps"]
        for i in range(len(cs)):
            if len(cs) > 1:
                yield dict(case, caps=cs[:i] + cs[i + 1:])
        if case["n"] > 1:
            yield dict(case, n=case["n"] - 1)


class TurnT2Cache(StageComp):
    """real `run_turn` (all real stages) repeated on one state with the same input and different `t2_k`:
    the hits used by every turn stay within that turn's slice budget (turn-level and stage-level caches)."""
    name = "turn.t2k"
    budget = {"quick": 40, "thorough": 400, "search": 150}

    def gen(self, rng: random.Random, i: int) -> dict:
        turns = []
        for _ in range(rng.choice([1, 2, 2, 3])):
            t = {"t2_k": rng.choice([0, 1, 2, 3, 10, 64])}
            if rng.random() < 0.6:
                t["t3_ops"] = rng.choice([1, 1, 2, 3])   # ops == budget -> yield at T3: version (and turn cache key) unchanged
            turns.append(t)
        return {"n": rng.choice([2, 3, 5, 8]), "turns": turns}

    def impl(self, case):
        import clematis.engine.orchestrator as orch
        from clematis.engine.orchestrator import core
        state = _mem_state(case["n"])
        state["version_etag"] = "0"
        text = "tell me about apple " + _case_token(case)
        out = []
        for t in case["turns"]:
            cfg = base_cfg()
            b = {"t2_k": t["t2_k"], "wall_ms": 10 ** 9}
            if "t3_ops" in t:
                b["t3_ops"] = t["t3_ops"]
            cfg["scheduler"] = {"enabled": True, "quantum_ms": 10 ** 8, "budgets": b}
            cfg["t2"]["sim_threshold"] = -1.0
            cfg["t2"]["tiers"] = ["exact_semantic"]
            cfg["t2"]["exact_recent_days"] = 30
            cfg.setdefault("t4", {})["snapshot_dir"] = str(STATE["scratch"])
            ctx = SimpleNamespace(turn_id="1", agent_id="A", now="2025-09-01T00:00:00Z", now_ms=0, cfg=_attrdict(cfg))
            recs: List[Tuple[str, dict]] = []
            saved = orch.__dict__.get("append_jsonl")
            try:
                orch.append_jsonl = lambda f, p: recs.append((f, copy.deepcopy(p)))
                core.run_turn(ctx, state, text)
            finally:
                if saved is None:
                    orch.__dict__.pop("append_jsonl", None)
                else:
                    orch.append_jsonl = saved
            t2 = [p for f, p in recs if f == "t2.jsonl"]
            ev = [p for f, p in recs if f == "scheduler.jsonl"]
            out.append({"k_used": t2[0].get("k_used") if t2 else None, "k_returned": t2[0].get("k_returned") if t2 else None,
                        "cache_hit": t2[0].get("cache_hit") if t2 else None,
                        "yield": [ev[0].get("stage_end"), ev[0].get("reason")] if ev else None})
        return out

    def monitors(self, case, io):
        res = []
        for t, o in zip(case["turns"], io):
            if o["k_used"] is None:
                continue
            res.append(("turn_t2_k_used_clamped", o["k_used"] <= t["t2_k"],
                        f"turn used {o['k_used']} hits with slice budget t2_k={t['t2_k']} (turns {case['turns']}, out {io})"))
        return res

    def tags(self, case, io):
        t = []
        if any(o.get("cache_hit") for o in io):
            t.append("turn_cache_hit")
        if any(o.get("yield") for o in io):
            t.append("yielded")
        if any(o["k_used"] is not None and o["k_used"] < o["k_returned"] for o in io):
            t.append("k_cap_binds")
        return t or ["default"]

    def shrink(self, case):
        ts = case["turns"]
        for i in range(len(ts)):
            if len(ts) > 1:
                yield dict(case, turns=ts[:i] + ts[i + 1:])


# --------------------------------------------------------------------------
# HISTORY components: several real calls on ONE world in ONE process, the process-global stage caches are
# NOT reset between the calls, slice budgets vary per call (absent / loose / tight / 0).  Every call is
# monitored (per-graph clamp) and compared with the same call made with the stage cache switched off
# (a result served from a cache must be the result this slice would have computed).
# Graph ids / query texts carry a per-case token: no cross-case hits (the etag is only a count hash).
# --------------------------------------------------------------------------

class HistT1(StageComp):
    name = "hist.t1"
    budget = {"quick": 120, "thorough": 1500, "search": 600}

    def gen(self, rng: random.Random, i: int) -> dict:
        graphs = [{"shape": rng.choice(["chain", "star", "chain"]), "size": rng.choice([2, 3, 5, 7]),
                   "w": rng.choice([900, 800])} for _ in range(rng.choice([1, 1, 2]))]
        calls = []
        for _ in range(rng.choice([2, 2, 3, 4])):
            r = rng.random()
            caps = {}
            if r < 0.3:
                pass                                   # scheduler off / no budgets: unclamped
            else:
                if rng.random() < 0.75:
                    caps["t1_pops"] = rng.choice([0, 0, 1, 2, 3, 100])
                if rng.random() < 0.6:
                    caps["t1_iters"] = rng.choice([0, 1, 1, 2, 50])
            calls.append(caps)
        return {"graphs": graphs, "calls": calls, "queue_budget": rng.choice([10000, 10000, 4]),
                "iter_cap": rng.choice([50, 50, 2]), "cache": rng.random() < 0.85}

    @staticmethod
    def _call(case, store, gids, caps, cache_on):
        from clematis.engine.types import Config
        from clematis.engine.stages.t1 import t1_propagate
        cfg = Config()
        cfg.t1["queue_budget"] = case["queue_budget"]
        cfg.t1["iter_cap"] = case["iter_cap"]
        cfg.t1["iter_cap_layers"] = case["iter_cap"]
        if not cache_on:
            cfg.t1["cache"] = {"enabled": False, "max_entries": 0, "ttl_s": 0}
        ctx = type("Ctx", (), {"cfg": cfg, "turn_id": "t", "agent_id": "A"})()
        if caps:
            ctx.slice_budgets = dict(caps)
        r = t1_propagate(ctx, {"store": store, "active_graphs": list(gids)}, "hello")
        return {"pops": int(r.metrics["pops"]), "iters": int(r.metrics["iters"]),
                "deltas": sorted(str(d.get("id")) for d in r.graph_deltas)}

    def impl(self, case):
        from clematis.graph.store import InMemoryGraphStore, Node, Edge
        tok = _case_token(case)
        store = InMemoryGraphStore()
        gids = []
        for gi, g in enumerate(case["graphs"]):
            gid = f"h{tok}:{gi}"
            gids.append(gid)
            store.ensure(gid)
            n = g["size"]
            store.upsert_nodes(gid, [Node(id=f"n{gi}:0", label="hello")] + [Node(id=f"n{gi}:{k}", label=f"x{k}") for k in range(1, n)])
            edges = [Edge(id=f"e{gi}:{k}", src=(f"n{gi}:{k - 1}" if g["shape"] == "chain" else f"n{gi}:0"), dst=f"n{gi}:{k}",
                          weight=g["w"] / 1000.0, rel="supports") for k in range(1, n)]
            if edges:
                store.upsert_edges(gid, edges)
        out = []
        for caps in case["calls"]:
            per = []
            for gid in gids:
                warm = self._call(case, store, [gid], caps, case["cache"])
                ref = self._call(case, store, [gid], caps, False)
                per.append({"warm": warm, "ref": ref})
            allw = self._call(case, store, gids, caps, case["cache"])
            allr = self._call(case, store, gids, caps, False)
            out.append({"per": per, "all": {"warm": allw, "ref": allr}})
        return out

    def monitors(self, case, io):
        res = []
        for ci, (caps, o) in enumerate(zip(case["calls"], io)):
            pc = min(case["queue_budget"], caps["t1_pops"]) if "t1_pops" in caps else case["queue_budget"]
            ic = min(case["iter_cap"], caps["t1_iters"]) if "t1_iters" in caps else case["iter_cap"]
            for gi, m in enumerate(o["per"]):
                w = m["warm"]
                res.append(("t1_pops_clamped_per_graph", w["pops"] <= max(pc, 0),
                            f"call {ci} (slice budgets {caps}, earlier calls {case['calls'][:ci]}) graph {gi}: pops {w['pops']} > cap {pc}"))
                res.append(("t1_iters_clamped_per_graph", w["iters"] <= max(ic, 0),
                            f"call {ci} (slice budgets {caps}, earlier calls {case['calls'][:ci]}) graph {gi}: iters {w['iters']} > cap {ic}"))
                res.append(("t1_same_as_uncached", w == m["ref"],
                            f"call {ci} (slice budgets {caps}, earlier calls {case['calls'][:ci]}) graph {gi}: served {w} but this slice computes {m['ref']}"))
            res.append(("t1_same_as_uncached", o["all"]["warm"] == o["all"]["ref"],
                        f"call {ci} (slice budgets {caps}) all graphs: served {o['all']['warm']} but this slice computes {o['all']['ref']}"))
        return res

    def tags(self, case, io):
        t = ["cache_on" if case["cache"] else "cache_off"]
        seen = []
        for caps in case["calls"]:
            if caps in seen:
                t.append("repeated_budget")
            seen.append(caps)
        pops = [o["per"][0]["ref"]["pops"] for o in io]
        if len(set(pops)) > 1:
            t.append("budget_changes_result")
        if any(not c for c in case["calls"]) and any(c for c in case["calls"]):
            t.append("off_and_on")
        for a, b in zip(case["calls"], case["calls"][1:]):
            if a.get("t1_pops", 10 ** 9) > b.get("t1_pops", 10 ** 9) or a.get("t1_iters", 10 ** 9) > b.get("t1_iters", 10 ** 9):
                t.append("loose_then_tight")
                break
        return sorted(set(t))

    def shrink(self, case):
        cs = case["calls"]
        for i in range(len(cs)):
            if len(cs) > 1:
                yield dict(case, calls=cs[:i] + cs[i + 1:])
        gs = case["graphs"]
        for i in range(len(gs)):
            if len(gs) > 1:
                yield dict(case, graphs=gs[:i] + gs[i + 1:])
        for i, g in enumerate(gs):
            if g["size"] > 2:
                yield dict(case, graphs=gs[:i] + [dict(g, size=g["size"] - 1)] + gs[i + 1:])


class HistT2(StageComp):
    name = "hist.t2"
    budget = {"quick": 80, "thorough": 800, "search": 300}

    def gen(self, rng: random.Random, i: int) -> dict:
        calls = [rng.choice([{"missing": True}, {"missing": True}, 0, 0, 1, 2, 3, 64]) for _ in range(rng.choice([2, 3, 4]))]
        return {"n": rng.choice([2, 3, 5, 8]), "calls": calls, "k_retrieval": rng.choice([3, 10]), "cache": rng.random() < 0.85}

    @staticmethod
    def _call(case, state, q, cap, cache_on):
        from clematis.engine.types import Config, T1Result
        from clematis.engine.stages.t2 import t2_semantic
        cfg = Config()
        cfg.t2["tiers"] = ["exact_semantic"]
        cfg.t2["k_retrieval"] = case["k_retrieval"]
        cfg.t2["sim_threshold"] = -1.0
        cfg.t2["exact_recent_days"] = 30
        if not cache_on:
            cfg.t2["cache"] = {"enabled": False, "max_entries": 0, "ttl_s": 0}
        ctx = type("Ctx", (), {})()
        ctx.cfg = cfg
        ctx.now = "2025-09-01T00:00:00Z"
        if not isinstance(cap, dict):
            ctx.slice_budgets = {"t2_k": cap}
        r = t2_semantic(ctx, state, q, T1Result(graph_deltas=[], metrics={}))
        return {"k_used": int(r.metrics.get("k_used")), "k_returned": int(r.metrics.get("k_returned")),
                "ids": [str(getattr(h, "id", None)) for h in r.retrieved],
                "residual": sorted(str(d.get("id")) for d in r.graph_deltas_residual)}

    def impl(self, case):
        state = _mem_state(case["n"])
        q = "tell me about apple " + _case_token(case)
        out = []
        for cap in case["calls"]:
            out.append({"warm": self._call(case, state, q, cap, case["cache"]), "ref": self._call(case, state, q, cap, False)})
        return out

    def monitors(self, case, io):
        res = []
        for ci, (cap, o) in enumerate(zip(case["calls"], io)):
            if not isinstance(cap, dict):
                res.append(("t2_k_used_clamped", o["warm"]["k_used"] <= _cap_value(cap),
                            f"call {ci}: k_used {o['warm']['k_used']} > t2_k {cap!r} (calls {case['calls']})"))
            used = o["warm"]["ids"][: o["warm"]["k_used"]]
            allowed = set((["n:apple"] if used else []) + ["n:topic" + i[2:] for i in used])
            res.append(("t2_residual_from_used_hits_only", set(o["warm"]["residual"]) <= allowed,
                        f"call {ci} (t2_k {cap!r}): residual nudges {o['warm']['residual']} come from hits beyond the {o['warm']['k_used']} used ones {used}"))
            res.append(("t2_same_as_uncached", o["warm"] == o["ref"],
                        f"call {ci} (t2_k {cap!r}, calls {case['calls']}): served {o['warm']} but this slice computes {o['ref']}"))
        return res

    def tags(self, case, io):
        t = ["cache_on" if case["cache"] else "cache_off"]
        if len({o["ref"]["k_used"] for o in io}) > 1:
            t.append("budget_changes_result")
        if any(isinstance(c, dict) for c in case["calls"]) and any(not isinstance(c, dict) for c in case["calls"]):
            t.append("off_and_on")
        return t

    def shrink(self, case):
        cs = case["calls"]
        for i in range(len(cs)):
            if len(cs) > 1:
                yield dict(case, calls=cs[:i] + cs[i + 1:])


class HistTurn(StageComp):
    """whole real `run_turn`s on one world (graph with edges + memory).  The ctx is either fresh per turn or ONE
    long-lived object for the whole history (config edited in place, or the cfg object replaced, or both
    alternately); between turns the budgets are loosened / tightened / removed, t3_ops and quantum vary and the
    scheduler is toggled; caches at their defaults or all off.  Every turn is judged against the budgets IN FORCE
    that turn (its own configuration): stage work within them (one active graph, so the per-graph clamp is the
    total), the budgets the stages saw and the scheduler event reports are this turn's, and the yield
    (stage, reason) is the one Lean's table gives for this turn's budgets on the logged counters."""
    name = "hist.turn"
    budget = {"quick": 60, "thorough": 600, "search": 200}

    def gen(self, rng: random.Random, i: int) -> dict:
        turns = []
        loose = {"t1_pops": 100, "t1_iters": 50, "t2_k": 64, "t3_ops": 50}
        prev = None
        for _ in range(rng.choice([2, 3, 3, 4, 5])):
            r = rng.random()
            if r < 0.2:
                turns.append({"off": True})
                continue
            if r < 0.35:
                b = dict(loose)
            elif r < 0.55 and prev is not None:
                # tighten / remove one key of the previous turn's budgets
                b = dict(prev)
                k = rng.choice(["t1_pops", "t1_iters", "t2_k", "t3_ops"])
                if rng.random() < 0.3:
                    b.pop(k, None)
                else:
                    b[k] = rng.choice([0, 1, 1, 2])
            else:
                b = {}
                if rng.random() < 0.7:
                    b["t1_pops"] = rng.choice([0, 1, 2, 100])
                if rng.random() < 0.6:
                    b["t1_iters"] = rng.choice([0, 1, 2, 50])
                if rng.random() < 0.7:
                    b["t2_k"] = rng.choice([0, 1, 3, 64])
                if rng.random() < 0.4:
                    b["t3_ops"] = rng.choice([1, 2, 50])
            prev = b
            turns.append({"b": b})
        return {"n": rng.choice([2, 5]), "size": rng.choice([3, 5]), "turns": turns, "cache": rng.random() < 0.8,
                "ctx_mode": rng.choice(["fresh", "reuse_edit", "reuse_edit", "reuse_replace", "reuse_replace", "reuse_mixed"])}

    def _cfg(self, case, t):
        cfg = base_cfg()
        cfg["t1"].setdefault("decay", {"mode": "exp_floor", "rate": 0.6, "floor": 0.05})
        cfg["t2"]["sim_threshold"] = -1.0
        cfg["t2"]["tiers"] = ["exact_semantic"]
        cfg["t2"]["exact_recent_days"] = 30
        cfg.setdefault("t4", {})["snapshot_dir"] = str(STATE["scratch"])
        if not case["cache"]:
            cfg["t1"]["cache"] = {"enabled": False, "max_entries": 0, "ttl_s": 0}
            cfg["t2"]["cache"] = {"enabled": False, "max_entries": 0, "ttl_s": 0}
            cfg["t4"]["cache"] = {"enabled": False}
        cfg["scheduler"] = self._sched(t)
        return cfg

    @staticmethod
    def _sched(t):
        if t.get("off"):
            return {"enabled": False}
        return {"enabled": True, "quantum_ms": 10 ** 8, "budgets": dict(t["b"], wall_ms=10 ** 9)}

    def impl(self, case):
        import clematis.engine.orchestrator as orch
        from clematis.engine.orchestrator import core
        from clematis.engine.stages.t3 import deliberate
        from clematis.graph.store import InMemoryGraphStore, Node, Edge
        tok = _case_token(case)
        state = _mem_state(case["n"])
        gid = "ht" + tok
        store = InMemoryGraphStore()
        store.ensure(gid)
        n = case["size"]
        store.upsert_nodes(gid, [Node(id="n:apple", label="apple")] + [Node(id=f"n:x{k}", label=f"x{k}") for k in range(1, n)])
        store.upsert_edges(gid, [Edge(id=f"e:{k}", src=("n:apple" if k == 1 else f"n:x{k - 1}"), dst=f"n:x{k}", weight=0.9, rel="supports")
                                 for k in range(1, n)])
        state["store"], state["active_graphs"], state["version_etag"] = store, [gid], "0"
        text = "tell me about apple " + tok
        mode = case.get("ctx_mode", "fresh")
        ctx = None
        out = []
        for ti, t in enumerate(case["turns"]):
            if mode == "fresh" or ctx is None:
                ctx = SimpleNamespace(turn_id="1", agent_id="A", now="2025-09-01T00:00:00Z", now_ms=0, cfg=_attrdict(self._cfg(case, t)))
            elif mode == "reuse_replace" or (mode == "reuse_mixed" and ti % 2 == 0):
                ctx.cfg = _attrdict(self._cfg(case, t))           # same ctx object, new cfg object
            else:
                ctx.cfg["scheduler"] = _attrdict(self._sched(t))  # same ctx, same cfg object, edited in place
            ctx.turn_id = str(ti + 1)
            recs: List[Tuple[str, dict]] = []
            seen: Dict[str, Any] = {}

            def t3_wrap(c, s, bundle):
                plan = deliberate(bundle)
                seen["nops"] = len(getattr(plan, "ops", []) or [])
                return plan
            saved = {k: orch.__dict__.get(k) for k in ("append_jsonl", "t3_deliberate")}
            try:
                orch.append_jsonl = lambda f, p: recs.append((f, copy.deepcopy(p)))
                orch.t3_deliberate = t3_wrap
                core.run_turn(ctx, state, text)
            finally:
                for k, v in saved.items():
                    if v is None:
                        orch.__dict__.pop(k, None)
                    else:
                        setattr(orch, k, v)
            t1 = [p for f, p in recs if f == "t1.jsonl"]
            t2 = [p for f, p in recs if f == "t2.jsonl"]
            ev = [p for f, p in recs if f == "scheduler.jsonl"]
            sb = getattr(ctx, "slice_budgets", "absent")
            out.append({"pops": t1[0].get("pops") if t1 else None, "iters": t1[0].get("iters") if t1 else None,
                        "t1_cache_hits": t1[0].get("cache_hits") if t1 else None,
                        "k_used": t2[0].get("k_used") if t2 else None, "nops": seen.get("nops"),
                        "slice_budgets": copy.deepcopy(sb) if isinstance(sb, dict) else ("absent" if sb == "absent" else None),
                        "event_budgets": ev[0].get("budgets") if ev else None,
                        "consumed": ev[0].get("consumed") if ev else None,
                        "yield": [ev[0].get("stage_end"), ev[0].get("reason")] if ev else None})
        return out

    @staticmethod
    def _in_force(t) -> dict:
        return dict(t["b"], wall_ms=10 ** 9, quantum_ms=10 ** 8)

    def monitor_requests(self, case, io):
        """Lean's table on this turn's budgets and the logged counters (elapsed ms is far below quantum/wall: 0)."""
        rq = []
        for ti, (t, o) in enumerate(zip(case["turns"], io)):
            if t.get("off") or o["pops"] is None:
                continue
            b = self._in_force(t)
            bnds = [["T1", {"ms": 0, "t1_iters": o["iters"], "t1_pops": o["pops"]}]]
            if o["k_used"] is not None:
                bnds.append(["T2", {"ms": 0, "t2_k": o["k_used"]}])
                if o["nops"] is not None:
                    bnds.append(["T3", {"ms": 0, "t3_ops": o["nops"]}])
                    bnds += [["T4", {"ms": 0}], ["Apply", {"ms": 0}]]
            y = o["yield"]
            # the skeleton is decidable from what was logged unless the turn ran past a stage whose counter we lack
            complete = len(bnds) == 5 or (y is not None and y[0] in [x[0] for x in bnds])
            if complete and (y is None or y[0] in BOUNDARIES):
                rq.append((f"turn_yield_for_budgets_in_force", {"c": "turn.skeleton", "budgets": b, "boundaries": bnds, "got": y}))
        return rq

    def monitors(self, case, io):
        res = []
        mode = case.get("ctx_mode", "fresh")
        for ti, (t, o) in enumerate(zip(case["turns"], io)):
            if t.get("off"):
                res.append(("off_turn_never_yields", o["yield"] is None, f"turn {ti} scheduler off but yielded {o['yield']}"))
                res.append(("off_turn_no_slice_budgets", o["slice_budgets"] in ("absent", None),
                            f"turn {ti} scheduler off ({mode}) but the ctx still carries slice_budgets {o['slice_budgets']}"))
                continue
            b = t["b"]
            ctxt = f"turn {ti} ({mode}) budgets in force {b} after turns {case['turns'][:ti]}: {o}"
            res.append(("turn_slice_budgets_in_force", o["slice_budgets"] == self._in_force(t), ctxt))
            if o["event_budgets"] is not None:
                res.append(("turn_event_reports_budgets_in_force", o["event_budgets"] == dict(b, wall_ms=10 ** 9), ctxt))
            if "t1_pops" in b and o["pops"] is not None:
                res.append(("turn_t1_pops_clamped", o["pops"] <= b["t1_pops"], ctxt))
            if "t1_iters" in b and o["iters"] is not None:
                res.append(("turn_t1_iters_clamped", o["iters"] <= b["t1_iters"], ctxt))
            if "t2_k" in b and o["k_used"] is not None:
                res.append(("turn_t2_k_used_clamped", o["k_used"] <= b["t2_k"], ctxt))
            if "t3_ops" in b and o["nops"] is not None:
                res.append(("turn_t3_ops_clamped", o["nops"] <= b["t3_ops"], ctxt))
        return res

    def tags(self, case, io):
        t = ["cache_on" if case["cache"] else "cache_off", "ctx=" + case.get("ctx_mode", "fresh")]
        if any(o.get("t1_cache_hits") for o in io):
            t.append("t1_cache_hit")
        for o in io:
            if o.get("yield"):
                t.append("yield@" + str(o["yield"][0]))
        if any(x.get("off") for x in case["turns"]) and any(not x.get("off") for x in case["turns"]):
            t.append("off_and_on")
        on = [x["b"] for x in case["turns"] if not x.get("off")]
        for a, b in zip(on, on[1:]):
            for k in ("t1_pops", "t1_iters", "t2_k", "t3_ops"):
                if b.get(k, 10 ** 9) < a.get(k, 10 ** 9):
                    t.append("tightened")
                if b.get(k, 10 ** 9) > a.get(k, 10 ** 9):
                    t.append("loosened")
                if k in a and k not in b:
                    t.append("removed")
        return sorted(set(t))

    def shrink(self, case):
        ts = case["turns"]
        for i in range(len(ts)):
            if len(ts) > 1:
                yield dict(case, turns=ts[:i] + ts[i + 1:])


COMPONENTS = [TurnYield(), StageT1(), StageT2(), TurnT2Cache(), HistT1(), HistT2(), HistTurn()]


def run(ctx: Ctx) -> None:
    STATE["scratch"] = ctx.tmpdir("c17snap")
    for comp in COMPONENTS:
        run_component(ctx, comp, monitors_only=True)
