"""
gateworld — world/config generators and the deep observation used by the C02 differential
(“features behind a closed gate are inert”).  Everything is JSON-able so that a case replays.

Built on harness/lib/turnrig.py (real `Orchestrator.run_turn`, logs/snapshots in scratch).
"""
from __future__ import annotations

import contextlib
import copy
import json
import os
import random
import re
from pathlib import Path
from typing import Any, Dict, Iterable, List, Optional, Tuple

from harness.lib import turnrig as TR

WORDS = ["apple", "pie", "cinnamon", "theory", "orchard", "banana", "bread", "quantum", "field", "newton",
         "gravity", "autumn", "jam", "notes", "baking", "river"]
OWNERS = ["a1", "a2", "world"]
ARROW = "→"

# ---------------------------------------------------------------------------------------------
# gates: flag leaf, owned subtree root, leaves of the subtree that are NOT owned by the gate
# ---------------------------------------------------------------------------------------------
GATES: Dict[str, Dict[str, Any]] = {
    "perf": {"flag": "perf.enabled", "sub": "perf", "flag_in_sub": True},
    "perf.parallel": {"flag": "perf.parallel.enabled", "sub": "perf.parallel", "flag_in_sub": True},
    "graph": {"flag": "graph.enabled", "sub": "graph", "flag_in_sub": True},
    "t2.quality": {"flag": "t2.quality.enabled", "sub": "t2.quality", "flag_in_sub": True},
    "t2.hybrid": {"flag": "t2.hybrid.enabled", "sub": "t2.hybrid", "flag_in_sub": True},
    "t3.reflection": {"flag": "t3.allow_reflection", "sub": "t3.reflection", "flag_in_sub": False},
    "scheduler": {"flag": "scheduler.enabled", "sub": "scheduler", "flag_in_sub": True},
}
GATE_ORDER = list(GATES)

# artefacts that must not exist while the gate is off: log streams / files, metric keys (per stream)
ARTEFACT_STREAMS = {
    "graph": ["gel"],
    "t3.reflection": ["t3_reflection"],
    "scheduler": ["scheduler"],
    "perf": ["rq_traces"],
    "t2.quality": [],
    "t2.hybrid": [],
    "perf.parallel": [],
}
PERF_T1_KEYS = ["t1_frontier_evicted", "t1_dedup_hits", "t1_visited_evicted", "t1.cache_evictions", "t1.cache_bytes",
                "parallel_workers", "task_count"]
PERF_T2_PREFIXES = ["t2.", "t2q.", "reader", "backend_fallback_reason"]
ARTEFACT_KEYS = {
    "perf": {"t1": PERF_T1_KEYS, "t2": PERF_T2_PREFIXES},
    "t2.quality": {"t2": ["t2q."]},
    "t2.hybrid": {"t2": ["hybrid"]},          # the `hybrid` info block (hybrid_used is an identity key, must be false)
    "perf.parallel": {"t2": ["t2.task_count", "t2.parallel_workers", "t2.partition_count"]},
    "graph": {}, "t3.reflection": {}, "scheduler": {"turn": ["slice_idx", "yielded", "yield_reason"]},
}

# ---------------------------------------------------------------------------------------------
# adversarial (type-valid, validator-accepted extremes) values per leaf of each owned subtree
# ---------------------------------------------------------------------------------------------
B = [True, False]
POOLS: Dict[str, Dict[str, List[Any]]] = {
    "perf": {
        "perf.t1.caps.frontier": [1, 2, 10 ** 6], "perf.t1.caps.visited": [1, 2, 10 ** 6],
        "perf.t1.dedupe_window": [1, 2, 4096], "perf.t1.queue_cap": [1, 7],
        "perf.t1.cache.max_entries": [0, 1, 2, 10 ** 6], "perf.t1.cache.max_bytes": [0, 1, 10 ** 9],
        "perf.t2.embed_dtype": ["fp32", "fp16"], "perf.t2.embed_store_dtype": ["fp32", "fp16"],
        "perf.t2.precompute_norms": B,
        "perf.t2.cache.max_entries": [0, 1, 2, 10 ** 6], "perf.t2.cache.max_bytes": [0, 1, 10 ** 9],
        "perf.t2.reader.partitions.enabled": B, "perf.t2.reader.partitions.layout": ["owner_quarter", "none"],
        "perf.t2.reader.partitions.path": ["parts", "x"], "perf.t2.reader.partitions.by": [["owner"], ["owner", "quarter"]],
        "perf.snapshots.compression": ["none", "zstd"], "perf.snapshots.level": [1, 19],
        "perf.snapshots.delta_mode": B, "perf.snapshots.every_n_turns": [1, 2, 1000],
        "perf.metrics.report_memory": [True, True, False],
        "perf.parallel.enabled": B, "perf.parallel.max_workers": [0, 1, 2, 8], "perf.parallel.t1": B,
        "perf.parallel.t2": B, "perf.parallel.agents": B,
    },
    "perf.parallel": {
        "perf.parallel.max_workers": [0, 1, 2, 8, 64], "perf.parallel.t1": [True, True, False],
        "perf.parallel.t2": [True, True, False], "perf.parallel.agents": B,
    },
    "graph": {
        "graph.coactivation_threshold": [0.0, 1.0, 0.5], "graph.observe_top_k": [1, 2, 10 ** 6],
        "graph.pair_cap_per_obs": [0, 1, 10 ** 6],
        "graph.update.mode": ["additive", "proportional"], "graph.update.alpha": [1e-9, 1.0, 1000.0],
        "graph.update.clamp_min": [-1000.0, -1.0, 0.0], "graph.update.clamp_max": [0.5, 1.0, 1000.0],
        "graph.decay.half_life_turns": [1, 2, 10 ** 6], "graph.decay.floor": [0.0, 0.25, 0.5],
        "graph.merge.enabled": [True, True, False], "graph.merge.min_size": [2, 3], "graph.merge.min_avg_w": [0.2, 1.0],
        "graph.merge.max_diameter": [1, 5], "graph.merge.cap_per_turn": [0, 1, 100],
        "graph.split.enabled": [True, True, False], "graph.split.weak_edge_thresh": [0.0, 0.2],
        "graph.split.min_component_size": [2, 5], "graph.split.cap_per_turn": [0, 1, 100],
        "graph.promotion.enabled": [True, True, False], "graph.promotion.label_mode": ["lexmin", "concat_k"],
        "graph.promotion.topk_label_ids": [1, 9], "graph.promotion.attach_weight": [-1.0, 0.0, 1.0],
        "graph.promotion.cap_per_turn": [0, 1, 100],
    },
    "t2.quality": {
        # shadow / trace_dir / redact belong to the shadow-trace feature (gate: perf.enabled && report_memory &&
        # shadow && !quality.enabled), not to the quality gate; they are varied by the `perf` gate instead.
        "t2.quality.normalizer.enabled": B, "t2.quality.normalizer.stemmer": ["none", "porter-lite"],
        "t2.quality.normalizer.min_token_len": [1, 50],
        "t2.quality.aliasing.enabled": B, "t2.quality.aliasing.max_expansions_per_token": [0, 100],
        "t2.quality.lexical.enabled": B, "t2.quality.lexical.bm25_k1": [0, 1.2, 1000.0],
        "t2.quality.lexical.bm25_b": [0.0, 1.0], "t2.quality.lexical.stopwords": ["none", "en-basic"],
        "t2.quality.lexical.bm25.k1": [0.0, 9.0], "t2.quality.lexical.bm25.b": [0.0, 1.0],
        "t2.quality.lexical.bm25.doclen_floor": [0, 1000],
        "t2.quality.fusion.enabled": B, "t2.quality.fusion.alpha_semantic": [0.0, 1.0, 0.5],
        "t2.quality.fusion.score_norm": ["zscore", "minmax"],
        "t2.quality.mmr.enabled": [True, True, False], "t2.quality.mmr.lambda": [0.0, 1.0, 0.5],
        "t2.quality.mmr.k": [1, 2, 1000], "t2.quality.mmr.diversity_by_owner": B,
        "t2.quality.mmr.diversity_by_token": B, "t2.quality.cache.salt": ["", "s"],
    },
    "t2.hybrid": {
        "t2.hybrid.use_graph": B, "t2.hybrid.anchor_top_m": [1, 2, 1000], "t2.hybrid.walk_hops": [1, 2],
        "t2.hybrid.edge_threshold": [0.0, 1.0, 0.1], "t2.hybrid.lambda_graph": [0.0, 1.0],
        "t2.hybrid.damping": [0.0, 1.0], "t2.hybrid.degree_norm": ["none", "invdeg"],
        "t2.hybrid.max_bonus": [0.0, 1000.0], "t2.hybrid.k_max": [1, 2, 10 ** 6],
    },
    "t3.reflection": {
        "t3.reflection.backend": ["rulebased"], "t3.reflection.summary_tokens": [0, 1, 10 ** 6],
        "t3.reflection.embed": B, "t3.reflection.log": B, "t3.reflection.topk_snippets": [0, 1, 1000],
    },
    "scheduler": {
        "scheduler.policy": ["round_robin", "fair_queue"], "scheduler.quantum_ms": [1, 20, 200],
        "scheduler.budgets.t1_pops": [None, 0, 1, 10 ** 6], "scheduler.budgets.t1_iters": [None, 0, 1],
        "scheduler.budgets.t2_k": [None, 0, 1], "scheduler.budgets.t3_ops": [None, 0, 1],
        "scheduler.budgets.wall_ms": [None, 200, 10 ** 9],
        # the two reflection budgets live under scheduler.budgets but are documented (docs/m10/reflection.md) as
        # reflection's own knobs; ops_reflection is deterministic, time_ms_reflection is wall-clock (kept loose)
        "scheduler.budgets.ops_reflection": [None, 0, 1, 5], "scheduler.budgets.time_ms_reflection": [None, 10 ** 9],
        "scheduler.fairness.max_consecutive_turns": [1, 1000], "scheduler.fairness.aging_ms": [0, 10 ** 6],
    },
}


def set_path(d: dict, path: str, v: Any) -> None:
    ks = path.split(".")
    cur = d
    for k in ks[:-1]:
        nxt = cur.get(k)
        if not isinstance(nxt, dict):
            nxt = {}
            cur[k] = nxt
        cur = nxt
    cur[ks[-1]] = v


def get_path(d: Any, path: str, default: Any = None) -> Any:
    cur = d
    for k in path.split("."):
        if not isinstance(cur, dict) or k not in cur:
            return default
        cur = cur[k]
    return cur


def del_path(d: dict, path: str) -> None:
    ks = path.split(".")
    cur = d
    for k in ks[:-1]:
        cur = cur.get(k)
        if not isinstance(cur, dict):
            return
    cur.pop(ks[-1], None)


def leaves(d: Any, prefix: str = "") -> List[Tuple[str, Any]]:
    out = []
    if isinstance(d, dict):
        for k, v in d.items():
            p = f"{prefix}.{k}" if prefix else str(k)
            if isinstance(v, dict) and v:
                out.extend(leaves(v, p))
            else:
                out.append((p, v))
    return out


# ---------------------------------------------------------------------------------------------
# generators
# ---------------------------------------------------------------------------------------------
def gen_world(rng: random.Random) -> Dict[str, Any]:
    words = rng.sample(WORDS, rng.choice([6, 8, 10]))
    n1 = rng.choice([3, 4, 6])
    nodes = [[f"n{i}", words[i % len(words)]] for i in range(n1)]
    edges = []
    for i in range(rng.choice([2, 4, 7])):
        a, b = rng.randrange(n1), rng.randrange(n1)
        if a != b:
            edges.append([f"x{i}", f"n{a}", f"n{b}", rng.choice([0.9, 0.5, 0.3, -0.4, 1.0]),
                          rng.choice(["supports", "associates", "contradicts"])])
    n2 = rng.choice([2, 3, 4])
    nodes2 = [[f"m{i}", words[(i + 2) % len(words)]] for i in range(n2)]
    edges2 = [[f"y{i}", f"m{i}", f"m{(i + 1) % n2}", rng.choice([0.8, 0.4]), "supports"] for i in range(n2 - 1)]
    ne = rng.choice([5, 7, 10])
    eps = []
    for i in range(ne):
        t = " ".join(rng.choice(words) for _ in range(rng.choice([3, 4, 6])))
        ep = {"id": f"e{i}", "text": t, "owner": OWNERS[i % 3] if rng.random() < 0.8 else rng.choice(OWNERS),
              "ts": "2024-01-%02dT00:00:00Z" % (1 + (i * 3) % 27)}
        if rng.random() < 0.3:
            ep["aux"] = {"importance": rng.choice([0.0, 0.5, 1.0])}
        eps.append(ep)
    gel_edges = {}
    for _ in range(rng.choice([2, 4, 8])):
        a, b = rng.randrange(ne), rng.randrange(ne)
        if a == b:
            continue
        s, d = sorted([f"e{a}", f"e{b}"])
        key = f"{s}{ARROW}{d}"
        gel_edges[key] = {"id": key, "src": s, "dst": d, "weight": rng.choice([0.9, 0.6, 0.3, 0.12, -0.5]),
                          "rel": "coact", "updated_at": None, "attrs": {"coact": rng.randrange(1, 5), "last_seen_turn": 0}}
    turns = []
    for _ in range(rng.choice([2, 2, 3])):
        turns.append(" ".join(rng.choice(words) for _ in range(rng.choice([1, 2, 3]))))
    if rng.random() < 0.4:
        turns.append(turns[0])          # repeated query: orchestrator-level + stage caches would hit
    return {
        "agent": "a1", "now": "2024-02-01T00:00:00Z", "now_ms": 1706745600000,
        "graph": {"nodes": nodes, "edges": edges}, "graph2": {"nodes": nodes2, "edges": edges2},
        "episodes": eps, "boot_loaded": True,
        "gel": {"nodes": {}, "edges": gel_edges, "meta": {"schema": "v1.1", "merges": [], "splits": [], "promotions": [],
                                                           "concept_nodes_count": 0, "edges_count": len(gel_edges)}},
        "state_extra": ({"_planner_reflection_flag": True} if rng.random() < 0.7 else {}),
        "turns": turns,
    }


def gen_revisit_world(rng: random.Random) -> Dict[str, Any]:
    """A world whose turn history revisits earlier queries after other distinct ones (q1 q2 q3 q1 q2 [q3]): every
    query matches a node label (so T1 seeds, propagates and caches per graph), the planner asks for reflection, and
    memory holds more episodes than the small fetch sizes of the sweep bases.  This is the history shape on which
    cross-turn state (stage caches, dedupe rings, GEL decay, reflection entries) becomes observable."""
    w = gen_world(rng)
    labels = []
    for n in w["graph"]["nodes"] + w["graph2"]["nodes"]:
        if n[1] not in labels:
            labels.append(n[1])
    qs = labels[:3] if len(labels) >= 3 else (labels + WORDS)[:3]
    extra = rng.choice(WORDS)
    w["turns"] = [qs[0], qs[1] + " " + extra, qs[2], qs[0], qs[1] + " " + extra] + ([qs[2]] if rng.random() < 0.5 else [])
    w["state_extra"] = {"_planner_reflection_flag": True}
    return w


def sweep_base(gate: str, t4_on: bool) -> Dict[str, Any]:
    """Deterministic base for the per-leaf sweep: every OTHER feature that can interact with the gated one is on
    (hybrid reads the GEL edges, GEL observes retrievals, reflection writes memory, perf metrics are reported), the
    scheduler stays off (its yields would cut the turns short), small fetch size."""
    cfg: Dict[str, Any] = {}
    set_path(cfg, "t2.k_retrieval", 3)
    set_path(cfg, "t2.sim_threshold", -1.0)
    set_path(cfg, "t2.exact_recent_days", 3650)
    if gate != "t2.hybrid":
        set_path(cfg, "t2.hybrid", {"enabled": True, "use_graph": True, "edge_threshold": 0.1, "lambda_graph": 1.0})
    if gate != "graph":
        set_path(cfg, "graph.enabled", True)
    if gate != "t3.reflection":
        set_path(cfg, "t3.allow_reflection", True)
    if gate != "perf":
        set_path(cfg, "perf.enabled", True)
        set_path(cfg, "perf.metrics.report_memory", True)
    if gate in ("perf", "perf.parallel", "scheduler", "graph"):
        set_path(cfg, "t2.quality", {"enabled": False, "shadow": True, "trace_dir": "rq"})
    if not t4_on:
        set_path(cfg, "t4.enabled", False)
    return cfg


def _pick(rng: random.Random, gate: str, frac: float = 0.7) -> Dict[str, Any]:
    out: Dict[str, Any] = {}
    for path, pool in POOLS[gate].items():
        if rng.random() < frac:
            out[path] = rng.choice(pool)
    return out


def gen_base_cfg(rng: random.Random) -> Dict[str, Any]:
    """Validated base configuration with the OTHER features randomly on (deterministic choices only)."""
    cfg: Dict[str, Any] = {}
    set_path(cfg, "t2.k_retrieval", rng.choice([2, 3, 5, 8]))
    set_path(cfg, "t2.owner_scope", rng.choice(["any", "any", "agent", "world"]))
    set_path(cfg, "t2.sim_threshold", rng.choice([-1.0, 0.0]))
    set_path(cfg, "t2.exact_recent_days", rng.choice([30, 3650]))
    if rng.random() < 0.5:
        set_path(cfg, "t2.ranking", rng.choice([{"alpha_sim": 1.0, "beta_recency": 0.0, "gamma_importance": 0.0},
                                                 {"alpha_sim": 0.6, "beta_recency": 0.3, "gamma_importance": 0.1}]))
    if rng.random() < 0.3:
        set_path(cfg, "t4.cache.enabled", False)
    if rng.random() < 0.5:       # hybrid on
        for p, v in _pick(rng, "t2.hybrid", 0.5).items():
            set_path(cfg, p, v)
        set_path(cfg, "t2.hybrid.enabled", True)
        if rng.random() < 0.7:
            set_path(cfg, "t2.hybrid.edge_threshold", 0.1)
            set_path(cfg, "t2.hybrid.lambda_graph", 1.0)
    if rng.random() < 0.4:       # quality on
        for p, v in _pick(rng, "t2.quality", 0.4).items():
            set_path(cfg, p, v)
        set_path(cfg, "t2.quality.enabled", True)
    elif rng.random() < 0.4:
        set_path(cfg, "t2.quality.enabled", False)
        set_path(cfg, "t2.quality.shadow", True)
        set_path(cfg, "t2.quality.trace_dir", "rq")          # relative: runs happen with cwd = world scratch
    if rng.random() < 0.5:       # GEL on
        for p, v in _pick(rng, "graph", 0.3).items():
            set_path(cfg, p, v)
        set_path(cfg, "graph.enabled", True)
        # keep cross-field rules satisfied
        set_path(cfg, "graph.update.clamp_min", -1.0)
        set_path(cfg, "graph.update.clamp_max", 1.0)
        if get_path(cfg, "graph.decay.floor", 0.0) > 1.0:
            set_path(cfg, "graph.decay.floor", 0.0)
        set_path(cfg, "graph.split.weak_edge_thresh", 0.0)
    if rng.random() < 0.6:       # reflection on
        for p, v in _pick(rng, "t3.reflection", 0.5).items():
            set_path(cfg, p, v)
        set_path(cfg, "t3.allow_reflection", True)
        if rng.random() < 0.5:
            set_path(cfg, "t3.reflection.topk_snippets", 3)
            set_path(cfg, "t3.reflection.summary_tokens", 64)
    if rng.random() < 0.3:       # scheduler on, time-insensitive
        for p, v in _pick(rng, "scheduler", 0.6).items():
            set_path(cfg, p, v)
        set_path(cfg, "scheduler.enabled", True)
        set_path(cfg, "scheduler.quantum_ms", 10 ** 9)
        set_path(cfg, "scheduler.budgets.wall_ms", 10 ** 9)
    if rng.random() < 0.5:       # perf on
        for p, v in _pick(rng, "perf", 0.4).items():
            if p.startswith("perf.parallel") or p.startswith("perf.t2.reader"):
                continue
            set_path(cfg, p, v)
        set_path(cfg, "perf.enabled", True)
        if rng.random() < 0.7:
            set_path(cfg, "perf.metrics.report_memory", True)
        if rng.random() < 0.4:
            set_path(cfg, "perf.parallel", {"enabled": True, "t1": True, "t2": False, "max_workers": rng.choice([2, 4])})
    return cfg


def subtree_variants(rng: random.Random, gate: str, base: Dict[str, Any], full: bool = False
                     ) -> Tuple[Dict[str, Any], Dict[str, Any], Dict[str, Any]]:
    """(cfg_absent, cfg_adversarial, assignment) for `gate` over `base`; the flag is off in both."""
    g = GATES[gate]
    absent = copy.deepcopy(base)
    del_path(absent, g["sub"])
    if gate == "t2.quality":
        # shadow trio is not owned by this gate: keep what the base says, in both variants
        for k in ("shadow", "trace_dir", "redact"):
            v = get_path(base, f"t2.quality.{k}")
            if v is not None:
                set_path(absent, f"t2.quality.{k}", v)
    if not g["flag_in_sub"]:
        set_path(absent, g["flag"], False)
    adv = copy.deepcopy(absent)
    assign = _pick(rng, gate, 1.0 if full else rng.choice([0.4, 0.7, 1.0]))
    if gate == "perf" and rng.random() < 0.7:
        # the parallel sub-block has its own gate entry; most perf cases leave it out so that the
        # rest of perf.* is searched even while the parallel finding is open
        assign = {p: v for p, v in assign.items() if not p.startswith("perf.parallel")}
    if gate == "graph":
        if assign.get("graph.update.clamp_min", -1.0) >= assign.get("graph.update.clamp_max", 1.0):
            assign.pop("graph.update.clamp_min", None)
        if assign.get("graph.decay.floor", 0.0) > assign.get("graph.update.clamp_max", 1.0):
            assign.pop("graph.decay.floor", None)
        if assign.get("graph.split.weak_edge_thresh", 0.05) > assign.get("graph.merge.min_avg_w", 0.2):
            assign["graph.split.weak_edge_thresh"] = 0.0
    for p, v in assign.items():
        set_path(adv, p, copy.deepcopy(v))
    set_path(adv, g["flag"], False)
    assign = dict(assign)
    return absent, adv, assign


def apply_assignment(absent: Dict[str, Any], gate: str, assign: Dict[str, Any]) -> Dict[str, Any]:
    adv = copy.deepcopy(absent)
    for p, v in assign.items():
        set_path(adv, p, copy.deepcopy(v))
    set_path(adv, GATES[gate]["flag"], False)
    return adv


# ---------------------------------------------------------------------------------------------
# running + deep observation
# ---------------------------------------------------------------------------------------------
@contextlib.contextmanager
def _cwd(p: Path):
    old = os.getcwd()
    os.chdir(str(p))
    try:
        yield
    finally:
        os.chdir(old)


def validate(cfg: Dict[str, Any]) -> Tuple[Optional[dict], Optional[str]]:
    from configs.validate import validate_config  # type: ignore
    try:
        return validate_config(copy.deepcopy(TR.deep_merge(TR.RIG_CFG_DEFAULTS, cfg))), None
    except Exception as e:  # ConfigError / ValueError
        return None, f"{type(e).__name__}: {str(e)[:300]}"


def _jsonable(x: Any) -> Any:
    return json.loads(json.dumps(x, default=repr, sort_keys=True))


def _store_dump(store) -> Any:
    if store is None:
        return None
    out = {}
    try:
        for gid in sorted(getattr(store, "_graphs", {}).keys()):
            g = store.get_graph(gid)
            out[gid] = {
                "etag": store.version_etag(gid) if hasattr(store, "version_etag") else None,
                "nodes": sorted([n.id, n.label, _jsonable(getattr(n, "attrs", {}))] for n in g.nodes.values()),
                "edges": sorted([e.id, e.src, e.dst, e.weight, e.rel] for e in g.edges.values()),
            }
    except Exception as e:
        out["__error__"] = repr(e)
    out["w"] = sorted([list(k), v] for k, v in getattr(store, "w", {}).items())
    return out


def deep_state(w: TR.World) -> Dict[str, Any]:
    st = w.state
    out: Dict[str, Any] = {"version_etag": st.get("version_etag"), "store": _store_dump(st.get("store")),
                           "gel": _jsonable(st.get("graph")), "gel_alias_same": st.get("gel") is st.get("graph"),
                           "logs": _jsonable(st.get("logs")),
                           "chat_last": _jsonable(st.get("_chat_last_retrieved")),
                           "active_graphs": _jsonable(st.get("active_graphs"))}
    idx = st.get("mem_index")
    eps = getattr(idx, "_eps", None)
    if isinstance(eps, list):
        out["mem"] = [[str(e.get("id")), e.get("owner"), e.get("text"), e.get("ts"), _jsonable(e.get("tags")),
                       _jsonable(e.get("kind"))] for e in eps]
    snaps = {}
    for p in sorted(w.snap_dir.iterdir()):
        try:
            snaps[p.name] = json.loads(p.read_text())
        except Exception:
            snaps[p.name] = {"__bytes__": len(p.read_bytes())}
    out["snapshots"] = _jsonable(snaps)
    keys = {}
    cm = st.get("_cache_mgr")
    if cm is not None:
        keys = TR.observe_state(w).get("cache_keys") or {}
        # cache keys are internals: the turn-level key carries a digest of configuration blocks (t2, perf, …), which
        # legitimately differs when a gated-off subtree differs; what the property talks about is what is cached
        # (how many entries per namespace, under which state version / query), not the digest
        keys = {ns: sorted(re.sub(r"'ctx:[0-9a-f]+'", "'ctx:*'", k) for k in ks) for ns, ks in keys.items()}
    out["cache_keys"] = keys
    return out


def listing(root: Path) -> List[str]:
    out = []
    for p in sorted(root.rglob("*")):
        if p.is_file():
            out.append(str(p.relative_to(root)))
    return out


def run_variant(scratch: Path, world: Dict[str, Any], cfg: Dict[str, Any], tracer=None) -> Dict[str, Any]:
    """Fresh world + all turns on the REAL engine; returns the per-turn deep observation.
    `world["batch"]` (optional): after the first turn (boot, snapshot on disk) the remaining turns are driven through
    the REAL agent batch driver `_run_agents_parallel_batch` as rounds of (agent, text) tasks for two agents that
    share a graph — the entry point behind the perf.parallel.agents gate."""
    if world.get("batch"):
        return _run_batch_variant(scratch, world, cfg)
    return _run_turns_variant(scratch, world, cfg, tracer)


def _read_files(w) -> Dict[str, list]:
    files: Dict[str, list] = {}
    for p in sorted(w.log_dir.glob("*.jsonl")):
        recs = []
        for line in p.read_text(encoding="utf-8").splitlines():
            if line.strip():
                try:
                    recs.append(TR.canon_record(json.loads(line)))
                except Exception:
                    recs.append({"__unparsable__": line[:80]})
        files[p.name[:-6]] = recs
    return files


def _run_batch_variant(scratch: Path, world: Dict[str, Any], cfg: Dict[str, Any]) -> Dict[str, Any]:
    import importlib
    w1 = dict(world)
    w1.pop("batch", None)
    w1["turns"] = world["turns"][:1]
    holder: Dict[str, Any] = {}
    obs = _run_turns_variant(scratch, w1, cfg, None, keep=holder)
    w = holder["w"]
    par = importlib.import_module("clematis.engine.orchestrator.parallel")
    iol = importlib.import_module("clematis.engine.util.io_logging")
    w.state["graphs_by_agent"] = {"a1": ["g:surface"], "a2": ["g:surface"]}
    texts = world["turns"][1:] or world["turns"]
    turns = obs["turns"]
    with _cwd(w.root):
        for i in range(0, len(texts), 2):
            tasks = [("a1", texts[i])] + ([("a2", texts[i + 1])] if i + 1 < len(texts) else [("a2", texts[0])])
            for p in w.log_dir.glob("*.jsonl"):
                p.unlink()
            ctx = TR.make_ctx(w, 2 + i // 2)
            ctx.agent_id = "driver"
            lines, raised = None, None
            with TR._env(w):
                try:
                    res = par._run_agents_parallel_batch(ctx, w.state, list(tasks))
                    lines = [getattr(r, "line", None) for r in res]
                except Exception as e:  # a crash is an observable effect too
                    raised = {"type": type(e).__name__, "msg": str(e)[:160]}
                finally:
                    try:
                        iol.disable_staging()      # an aborted open-gate batch leaves staging on in this context
                    except Exception:
                        pass
            files = _read_files(w)
            for rec in files.get("scheduler", []):
                if isinstance(rec.get("consumed"), dict):
                    rec["consumed"].pop("ms", None)
            turns.append({"result": {"lines": lines}, "raised": raised, "files": files,
                          "listing": listing(w.root), "state": deep_state(w)})
    return {"turns": _jsonable(turns)}


def _run_turns_variant(scratch: Path, world: Dict[str, Any], cfg: Dict[str, Any], tracer=None, keep=None) -> Dict[str, Any]:
    spec = {k: copy.deepcopy(v) for k, v in world.items() if k not in ("turns", "graph2", "batch")}
    spec["cfg"] = copy.deepcopy(cfg)
    scratch.mkdir(parents=True, exist_ok=True)
    w = TR.build_world(scratch, spec)
    # The configuration the engine sees is EXACTLY validate_config(rig defaults + case config + scratch snapshot dir):
    # the shared rig may add keys of its own to every configuration (e.g. a perf.metrics.trace_dir pointing into the
    # scratch directory, which the validator refuses, so that the rig falls back to an un-normalised merge); a `perf`
    # block materialised behind our back would defeat "subtree absent", and a scratch path inside the configuration
    # makes configuration-derived cache keys differ from run to run.  Shadow traces stay in scratch because every
    # turn runs with cwd = world root and trace dirs are relative.
    from configs.validate import validate_config  # type: ignore
    over = TR.deep_merge(TR.deep_merge(TR.RIG_CFG_DEFAULTS, cfg), {"t4": {"snapshot_dir": "snaps"}})
    w.cfg_plain = validate_config(copy.deepcopy(over))
    w.cfg = TR.to_attrdict(w.cfg_plain)
    g2 = world.get("graph2")
    if g2 and w.store is not None:
        from clematis.graph.store import Node, Edge
        w.store.ensure("g:two")
        w.store.upsert_nodes("g:two", [Node(id=n[0], label=n[1]) for n in g2["nodes"]])
        if g2.get("edges"):
            w.store.upsert_edges("g:two", [Edge(id=e[0], src=e[1], dst=e[2], weight=float(e[3]), rel=e[4])
                                           for e in g2["edges"]])
        w.state["active_graphs"] = ["g:surface", "g:two"]
    if tracer is not None:
        tracer.install(w)
    turns = []
    with _cwd(w.root):
        for i, text in enumerate(world["turns"]):
            r = TR.run_turn(w, text, i + 1)
            for rec in r.files.get("scheduler", []):
                if isinstance(rec.get("consumed"), dict):
                    rec["consumed"].pop("ms", None)      # wall-clock
            turns.append({"result": r.result, "raised": r.raised, "files": r.files,
                          "listing": listing(w.root), "state": deep_state(w)})
    if tracer is not None:
        tracer.uninstall()
    if keep is not None:
        keep["w"] = w
        return {"turns": turns}
    return {"turns": _jsonable(turns)}


def artefacts_present(gate: str, obs: Dict[str, Any]) -> List[str]:
    """Artefacts of `gate` visible in an observation (must be empty while the gate is off)."""
    bad: List[str] = []
    for ti, t in enumerate(obs["turns"]):
        names = {os.path.basename(p).replace(".jsonl", "") for p in t["listing"]}
        for s in ARTEFACT_STREAMS.get(gate, []):
            if s in names:
                bad.append(f"turn{ti}:file:{s}")
        if gate == "perf" and any(p.startswith("logs/perf/") or "/perf/" in p for p in t["listing"]):
            bad.append(f"turn{ti}:dir:perf")
        for stream, keys in ARTEFACT_KEYS.get(gate, {}).items():
            for rec in t["files"].get(stream, []):
                for k in rec:
                    if any(k == a or (a.endswith(".") and k.startswith(a)) for a in keys):
                        bad.append(f"turn{ti}:{stream}:{k}")
        if gate == "t2.hybrid":
            for rec in t["files"].get("t2", []):
                if rec.get("hybrid_used"):
                    bad.append(f"turn{ti}:t2:hybrid_used")
    return sorted(set(bad))
