"""Syscall-level fault / crash injector for `clematis.io.atomic` (C08).

Every FS-affecting call the module makes is intercepted (module-level `open`, `os.replace`,
`os.fsync`, `os.chmod`, `os.open`/`os.close` for the directory handle,
`tempfile.NamedTemporaryFile`, `Path.mkdir/stat/unlink`, `time.sleep`).  The k-th intercepted
call consumes the k-th entry of a *script* (`ok`, `err:<errno>`, `crash`, `short:<k>` for a
raw write); beyond the script everything is `ok`.  For each intercepted call the directory
listing and the content of the watched destination(s) *before* the call are recorded (what a
concurrent reader could see at that instant) together with the step name and the outcome
that actually happened (a real OSError of an un-faulted call is recorded as `err:<errno>`).

`crash` raises `Crash` (a BaseException: bypasses `except Exception`) *instead of* executing
the call; afterwards the injector is "dead": any further FS-mutating call is refused (and
noted in `post_crash_mutations`), so `finally` blocks cannot change the directory a real
process death would have left behind.
"""
from __future__ import annotations

import builtins
import os
import pathlib
import tempfile
import time
from pathlib import Path
from typing import Any, Callable, Dict, List, Optional

_real_open = builtins.open
_real_listdir = os.listdir


def _from_atomic(limit: int = 5) -> bool:
    """Is the current call made (directly or through pathlib) by clematis.io.atomic?"""
    import sys
    f = sys._getframe(2)
    for _ in range(limit):
        if f is None:
            return False
        if f.f_globals.get("__name__") == "clematis.io.atomic":
            return True
        f = f.f_back
    return False


class Crash(BaseException):
    """Simulated process death."""


def lat(b: Optional[bytes]) -> Optional[str]:
    return None if b is None else b.decode("latin-1")


def read_or_none(p) -> Optional[bytes]:
    try:
        with _real_open(p, "rb") as f:
            return f.read()
    except FileNotFoundError:
        return None
    except NotADirectoryError:
        return None


def listing(d) -> Dict[str, str]:
    out: Dict[str, str] = {}
    try:
        names = _real_listdir(d)
    except FileNotFoundError:
        return out
    for n in names:
        b = read_or_none(os.path.join(d, n))
        if b is not None:
            out[n] = lat(b)
    return out


class _Proxy:
    """File object handed to the code under test; write/flush/close are primitive steps."""

    def __init__(self, inj: "Injector", f, kind: str):
        self._inj, self._f, self._kind = inj, f, kind

    def write(self, b):
        return self._inj._write(self, b)

    def flush(self):
        return self._inj._do("flush", self._f.flush, mutating=False)

    def fileno(self):
        fd = self._f.fileno()
        self._inj.fdkind[fd] = self._kind
        return fd

    @property
    def closed(self):
        return self._f.closed

    def close(self):
        if self._f.closed:
            return
        name = "closet" if self._kind == "target" else "close"
        try:
            self._inj._do(name, self._f.close, mutating=False)
        finally:
            fd = None
            try:
                fd = self._f.fileno()
            except Exception:
                pass
            if not self._f.closed:
                try:
                    self._f.close()
                except Exception:
                    pass
            if fd is not None:
                self._inj.fdkind.pop(fd, None)

    def __enter__(self):
        return self

    def __exit__(self, *a):
        self.close()
        return False

    def __getattr__(self, k):
        return getattr(self._f, k)


class Injector:
    def __init__(self, directory: Path, watch: List[Path], script: List[str], record_hist: bool = True,
                 on_step: Optional[Callable[[str, int], None]] = None):
        self.dir = str(directory)
        self.watch = [str(w) for w in watch]
        self.script = list(script)
        self.i = 0
        self.trace: List[List[str]] = []
        self.hist: List[list] = []
        self.dead = False
        self.depth = 0
        self.fdkind: Dict[int, str] = {}
        self.tmps: List[str] = []
        self.post_crash_mutations: List[str] = []
        self.record_hist = record_hist
        self.on_step = on_step
        self._saved: List[tuple] = []

    # -- core ---------------------------------------------------------------
    def _snap(self):
        if not self.record_hist:
            return
        try:
            names = sorted(_real_listdir(self.dir))
        except (FileNotFoundError, NotADirectoryError):
            names = []
        self.hist.append([[lat(read_or_none(w)) for w in self.watch], names])

    def _next(self) -> str:
        o = self.script[self.i] if self.i < len(self.script) else "ok"
        self.i += 1
        return o

    def _do(self, name: str, real: Callable[[], Any], mutating: bool = True):
        if self.depth > 0:
            return real()
        if self.dead:
            if mutating:
                self.post_crash_mutations.append(name)
                raise Crash()
            return real()
        o = self._next()
        self._snap()
        if self.on_step is not None:
            self.on_step(name, self.i - 1)
        if o == "crash":
            self.trace.append([name, "crash"])
            self.dead = True
            raise Crash()
        if o.startswith("err:"):
            c = int(o[4:])
            self.trace.append([name, o])
            raise OSError(c, os.strerror(c))
        self.depth += 1
        try:
            r = real()
        except OSError as e:
            if name == "exists" and isinstance(e, FileNotFoundError):
                # an un-faulted probe of an absent temp is a successful probe answering "absent"
                self.trace.append([name, "ok"])
            else:
                self.trace.append([name, f"err:{e.errno}"])
            raise
        finally:
            self.depth -= 1
        self.trace.append([name, "ok"])
        return r

    def _write(self, px: _Proxy, b):
        data = b if isinstance(b, (str, bytes)) else bytes(b)
        if self.depth > 0:
            return px._f.write(data)
        if self.dead:
            self.post_crash_mutations.append("write")
            raise Crash()
        o = self._next()
        self._snap()
        if self.on_step is not None:
            self.on_step("write", self.i - 1)
        if o == "crash":
            self.trace.append(["write", "crash"])
            self.dead = True
            raise Crash()
        if o.startswith("err:"):
            c = int(o[4:])
            self.trace.append(["write", o])
            raise OSError(c, os.strerror(c))
        if o.startswith("short:"):
            k = min(int(o[6:]), len(data))
            if k:
                px._f.write(data[:k])
            self.trace.append(["write", f"short:{k}"])
            return k
        n = px._f.write(data)
        self.trace.append(["write", "ok"])
        return n

    # -- patched entry points -------------------------------------------------
    def _open(self, file, mode="r", buffering=-1, *a, **kw):
        if any(ch in mode for ch in "wax+"):
            px_kind, step = "tmp", "openw"
        else:
            px_kind, step = "target", "opent"
        f = self._do(step, lambda: _real_open(file, mode, buffering, *a, **kw), mutating=(px_kind == "tmp"))
        if self.depth > 0:
            return f
        return _Proxy(self, f, px_kind)

    def install(self, atomic_mod):
        inj = self
        P = pathlib.Path
        real = {"replace": os.replace, "fsync": os.fsync, "chmod": os.chmod, "os_open": os.open,
                "os_close": os.close, "ntf": tempfile.NamedTemporaryFile, "mkdir": P.mkdir, "stat": P.stat,
                "unlink": P.unlink, "sleep": time.sleep}

        def replace(src, dst, *a, **kw):
            return inj._do("replace", lambda: real["replace"](src, dst, *a, **kw))

        def fsync(fd):
            kind = inj.fdkind.get(fd if isinstance(fd, int) else getattr(fd, "fileno", lambda: -1)())
            name = {"tmp": "fsync", "target": "fsynct", "dir": "fsyncd", "direct": "fsync"}.get(kind, "fsync")
            return inj._do(name, lambda: real["fsync"](fd), mutating=False)

        def chmod(path, mode, *a, **kw):
            return inj._do("chmod", lambda: real["chmod"](path, mode, *a, **kw))

        def os_open(path, flags, *a, **kw):
            if inj.depth > 0:
                return real["os_open"](path, flags, *a, **kw)
            fd = inj._do("opend", lambda: real["os_open"](path, flags, *a, **kw), mutating=False)
            inj.fdkind[fd] = "dir"
            return fd

        def os_close(fd):
            if inj.depth > 0 or inj.fdkind.get(fd) != "dir":
                return real["os_close"](fd)
            state = {"closed": False}

            def doit():
                state["closed"] = True
                return real["os_close"](fd)
            try:
                return inj._do("closed", doit, mutating=False)
            finally:
                inj.fdkind.pop(fd, None)
                if not state["closed"]:
                    try:
                        real["os_close"](fd)
                    except OSError:
                        pass

        def ntf(*a, **kw):
            tf = inj._do("mktemp", lambda: real["ntf"](*a, **kw))
            try:
                inj.tmps.append(str(tf.name))
            except Exception:
                pass
            return tf

        def mkdir(self, *a, **kw):
            if inj.depth > 0 or not _from_atomic():
                return real["mkdir"](self, *a, **kw)
            return inj._do("mkdir", lambda: real["mkdir"](self, *a, **kw))

        def stat(self, *a, **kw):
            if inj.depth > 0 or not _from_atomic():
                return real["stat"](self, *a, **kw)
            name = "exists" if str(self) in inj.tmps else "stat"
            return inj._do(name, lambda: real["stat"](self, *a, **kw), mutating=False)

        def unlink(self, *a, **kw):
            if inj.depth > 0 or not _from_atomic():
                return real["unlink"](self, *a, **kw)
            return inj._do("unlink", lambda: real["unlink"](self, *a, **kw))

        def sleep(_s):
            return None

        def g_open(file, mode="r", *a, **kw):
            # ANY open-for-write/append of a path inside the watched directory made by code other than the atomic
            # helper is a primitive step too (`open_direct`), so faults and reader snapshots cover the whole call
            try:
                if inj.depth == 0 and isinstance(mode, str) and any(ch in mode for ch in "wax+") \
                        and isinstance(file, (str, os.PathLike)) and not _from_atomic():
                    p = os.path.abspath(os.fspath(file))
                    if p.startswith(os.path.abspath(inj.dir) + os.sep):
                        f = inj._do("open_direct", lambda: _real_open(file, mode, *a, **kw))
                        return _Proxy(inj, f, "direct")
            except (Crash, OSError):
                raise
            return _real_open(file, mode, *a, **kw)

        import io as _io_mod
        patches = [(builtins, "open", g_open), (_io_mod, "open", g_open), (os, "replace", replace), (os, "fsync", fsync), (os, "chmod", chmod), (os, "open", os_open),
                   (os, "close", os_close), (tempfile, "NamedTemporaryFile", ntf), (P, "mkdir", mkdir),
                   (P, "stat", stat), (P, "unlink", unlink), (time, "sleep", sleep)]
        for obj, attr, new in patches:
            self._saved.append((obj, attr, getattr(obj, attr), True))
            setattr(obj, attr, new)
        had = "open" in atomic_mod.__dict__
        self._saved.append((atomic_mod, "open", atomic_mod.__dict__.get("open"), had))
        atomic_mod.open = self._open

    def uninstall(self):
        for obj, attr, old, had in reversed(self._saved):
            if had:
                setattr(obj, attr, old)
            else:
                try:
                    delattr(obj, attr)
                except AttributeError:
                    pass
        self._saved = []
        for fd, kind in list(self.fdkind.items()):
            if kind == "dir":
                try:
                    os.close(fd)
                except OSError:
                    pass
        self.fdkind.clear()


def run_injected(fn: Callable[[], Any], directory: Path, watch: List[Path], script: List[str],
                 record_hist: bool = True, on_step=None, tmp_paths: Optional[List[str]] = None) -> dict:
    """Run `fn` (which calls into the real code) under the injector; returns the observation."""
    import clematis.io.atomic as atomic_mod
    inj = Injector(directory, watch, script, record_hist=record_hist, on_step=on_step)
    inj.tmps.extend(tmp_paths or [])
    inj.install(atomic_mod)
    status, exc = "returned", None
    try:
        try:
            fn()
        except Crash:
            status = "crashed"
        except Exception as e:  # the call raised
            status = "raised"
            exc = f"{type(e).__name__}:{getattr(e, 'errno', None)}"
    finally:
        inj.uninstall()
    if inj.dead:
        # the process died at the crash step; whatever `finally` blocks made of the exception afterwards is an
        # artefact of simulating death in-process (FS mutations after death are refused by the injector)
        status, exc = "crashed", None
    return {"status": status, "exc": exc, "trace": inj.trace, "hist": inj.hist, "fs": listing(directory),
            "tmps": [os.path.basename(t) for t in inj.tmps], "post_crash": inj.post_crash_mutations,
            "consumed": inj.i}
