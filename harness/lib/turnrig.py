"""
turnrig — reusable rig that drives the REAL `Orchestrator.run_turn` of the repository under test.

No hooks in the repo: everything is done by (reversible) monkeypatching from the harness process, using the
orchestrator's own indirections where they exist (`_get_stage_callable` looks `t1_propagate`, `t2_semantic`,
`reflect` up on the package `clematis.engine.orchestrator`; `t3_deliberate` / `t3_dialogue` are looked up on
the same package; `t4_filter`, `apply_changes`, `load_latest_snapshot`, `gel_*`, `build_llm_adapter`,
`emit_trace`, `log_t3_reflection` are module globals of `clematis.engine.orchestrator.core`).
Logs, snapshots and T2 shadow traces ALWAYS go to a scratch directory (env `CLEMATIS_LOG_DIR`,
`CLEMATIS_SNAPSHOT_DIR`, `t4.snapshot_dir` and `perf.metrics.trace_dir` are forced), never into the repo or the cwd.

API (import as `from harness.lib import turnrig as TR`)
-------------------------------------------------------
`TR.build_world(scratch: Path, spec: dict, fresh_process_state=True) -> World`
    (resets the process-global T1/T2 stage caches first — `TR.reset_process_state()` — so worlds are independent)
    Build ctx/state/cfg in the one shape every stage accepts (validated config -> recursive
    dict-with-attributes, bound to BOTH `ctx.cfg` and `ctx.config`; `state` is a plain dict).
    `spec` is JSON-able (so a case can be replayed); all keys optional:
      cfg          dict deep-merged over the rig defaults and passed through `configs.validate.validate_config`
                   (`cfg_raw: true` skips validation — for malformed-config streams)
      agent        agent id (default "a1");  now_ms int (default 0);  now  str|None (ctx.now)
      store_hooks  bool: the rig store also offers `export_state()` / `import_state()` (sites store_hook_export/import)
      store        "rig" (default: InMemoryGraphStore subclass with MiniStore-like `apply_deltas` over
                   ProposedDelta and a `.w` weight map, fault switches) | "none" | "nofn" (no apply_deltas)
      graph        {"nodes": [[id,label],..], "edges": [[id,src,dst,weight,rel],..]} for g:surface
      episodes     [ {id,text,owner,ts,tags?}, .. ] (embedded with the repo's deterministic adapter) added to an InMemoryIndex (state["mem_index"] and,
                   when `memory_index` is true (default), also state["memory_index"] for the reflection writer)
      snap_files   {filename: str | {"b64": ..}} files created in the snapshot dir BEFORE the first turn
      boot_loaded  bool: pre-set state["_boot_loaded"] (default False: the boot hook runs on the first turn)
      gel          {"nodes": {...}, "edges": {...}} installed as state["graph"]/state["gel"] (only meaningful with
                   boot_loaded=true, the boot hook resets both)
      state_extra  dict merged into state (e.g. {"_planner_reflection_flag": true})
      ctx_extra    dict of extra ctx attributes (e.g. {"_dry_run_until_t4": true, "trace_reason": "x"})
      logs_list    "plain" | "raising": state["logs"] is a list (subclass whose append raises -> t3-trace site)
`TR.run_turn(world, text, turn_id=1, behaviours=None) -> Run`
    Runs the real `run_turn` once on the world (state persists in `world`, so call repeatedly for a
    turn sequence).  `behaviours` maps a SITE name (see `SITES`) to a behaviour:
      {"mode":"real"}                      record the call, run the real callable (default for every site)
      {"mode":"raise","exc":"KeyError"}    fault injection: raise that exception type at that site
                                           (+ "nth": k -> only the k-th call (0-based) raises, others real/stub)
      {"mode":"stub","ret": <spec>}        scripted recording stub; `ret` is a JSON-able spec turned into the
                                           object the orchestrator expects (see `_make_ret`)
      {"mode":"stub","ret":..,"raise_nth":k,"exc":..}  stub that raises on its k-th call
      {"mode":"shape","how": <one of EXPORT_SHAPES>}   (site store_hook_export only) export_state() returns a
                                           structure the snapshot writer cannot encode (deep nesting, raising iteration, ..)
      {"mode":"mangle","how":"bad_score"|"none_entry"|"no_ids"}  run the real callable, then damage its output
                                           (list-of-dict returning sites such as quality_fuse / quality_mmr)
    Exception names may carry a message-shape variant `"<Type>:<variant>"` (see `EXC_VARIANTS`: noargs, empty, ws,
    multiline, nonstr, strraises = `__str__` raises); `Run.raised["type"]` is always the base type name.
    Convenience: `TR.fault(site, exc, nth=None)`, `TR.stub(ret, raise_nth=None, exc=...)`.
    Sites: stages `t1 t2 deliberate rag speak llm_speak dialogue t4 apply health`; run_turn subsystems `boot_load
    gel_observe gel_tick gel_merge_candidates gel_apply_merge gel_split_candidates gel_apply_split gel_promote_clusters
    gel_apply_promotion adapter_build t3_trace t3_trace_logs reflect_run reflect reflect_write reflect_log`; T2 quality
    `hybrid_rerank quality_fuse quality_mmr quality_trace quality_cfgsnap`; apply/snapshot `write_snapshot sidecar_write
    sidecar_created_at sidecar_atomic cache_invalidate store_apply_batch store_apply_each store_apply_all`.
    Stub `ret` specs: t1 {"metrics"}, t2 {"metrics","retrieved":[{id,score,text}]}, deliberate {"ops":[{kind,..}],
    "reflection","deltas":[[kind,id,attr,delta,op_idx?]]}, rag {"plan":<deliberate spec>,"metrics"}, speak/llm_speak/
    dialogue {"utter","metrics"}, t4 {"approved":[delta..],"rejected":[[kind,idx]],"reasons","metrics"}, apply {...},
    reflect {"summary","entries":[{text}],"metrics"}; anything else is returned as given (deep-copied); a list `ret`
    for a non-list-valued site is a per-call script.
    Exceptions: names from `EXC_POOL` (KeyError, OSError, ValueError, RecursionError, RigFault (custom), ...).
`Run` fields
    result      {"line": str, "events": list} or None when run_turn raised
    raised      None or {"type": <exception class name>, "msg": str}
    emitted     [(stream, canonical record), ..] in emission order (captured below `io.log.append_jsonl`,
                i.e. after the repo's own identity normalisation; files are written to scratch as well)
    logs        {stream: [canonical record, ..]} (same records grouped per stream, "t1.jsonl" -> "t1")
    files       {stream: [records parsed back from the scratch log files]}  (what is on disk)
    calls       [(site, info dict), ..] every call through a wrapped site, in order; `info["raised"]` if it raised
    fault_hits  [site, ..] the injected faults that actually fired
    state       {"version_etag", "boot_loaded", "snap_files": sorted dir listing, "snap_body": parsed
                 {version_etag, applied, turn} of state_<agent>.json if readable, "cache_keys": sorted repr of
                 live cache keys per namespace, "store_w": sorted weight map, "mem_n": #episodes,
                 "gel_edges": sorted edge ids, "gel": sorted [edge id, weight], "logs_n": len(state["logs"])}
Canonicalisation: volatile keys (`ms*`, `durations_ms`) dropped, `snapshot` path -> basename, floats kept.
`CANON_STREAMS = ("t1","t2","t4","apply","turn")` are the streams C20/C01 talk about.
"""
from __future__ import annotations

import base64
import contextlib
import copy
import importlib
import json
import os
from pathlib import Path
from types import SimpleNamespace
from typing import Any, Dict, List, Optional, Tuple

from harness import core as _core  # puts $CLEMATIS3_REPO on sys.path  # noqa: F401

CANON_STREAMS = ("t1", "t2", "t4", "apply", "turn")
VOLATILE_KEYS = {"ms", "ms_plan", "ms_rag", "ms_speak", "ms_deliberate", "durations_ms"}


class RigFault(Exception):
    """Custom exception type used by fault injection."""


class RigError(Exception):
    """The rig itself could not do what was asked (infrastructure, not a verdict)."""


EXC_POOL: Dict[str, type] = {
    "KeyError": KeyError, "OSError": OSError, "ValueError": ValueError, "RecursionError": RecursionError,
    "RigFault": RigFault, "TypeError": TypeError, "AttributeError": AttributeError,
    "ZeroDivisionError": ZeroDivisionError, "MemoryError": MemoryError, "IndexError": IndexError,
    "RuntimeError": RuntimeError, "PermissionError": PermissionError, "UnicodeError": UnicodeError,
    "AssertionError": AssertionError, "StopIteration": StopIteration, "FileNotFoundError": FileNotFoundError,
}


#: message shapes an injected exception can have: `"<Type>"` or `"<Type>:<variant>"`
EXC_VARIANTS = ("msg", "noargs", "empty", "ws", "multiline", "nonstr", "strraises")


def exc_type_name(name: str) -> str:
    return str(name).split(":", 1)[0]


def make_exc(name: str) -> Exception:
    """`"KeyError"` -> KeyError("injected:KeyError"); `"OSError:noargs"` -> OSError(); variants: msg (default),
    noargs, empty (""), ws (whitespace-only), multiline, nonstr (non-string args), strraises (an instance of a
    same-named subclass whose `__str__`/`__repr__` raise)."""
    tname, _, variant = str(name).partition(":")
    cls = EXC_POOL.get(tname, RigFault)
    try:
        if variant in ("", "msg"):
            return cls(f"injected:{tname}")
        if variant == "noargs":
            return cls()
        if variant == "empty":
            return cls("")
        if variant == "ws":
            return cls("  \t ")
        if variant == "multiline":
            return cls(f"\ninjected:{tname}\nsecond line\r\n\n")
        if variant == "nonstr":
            return cls(7, {"a": [1, None]}, b"\xff")
        if variant == "strraises":
            def _boom(self):
                raise RuntimeError("__str__ of the injected exception raises")
            sub = type(cls.__name__, (cls,), {"__str__": _boom, "__repr__": _boom})
            return sub("x")
        return cls(f"injected:{name}")
    except Exception:
        return RigFault(f"injected:{name}")


def safe_str(e: BaseException, limit: int = 200) -> str:
    try:
        return str(e)[:limit]
    except Exception:
        return "<unprintable exception>"


# ---------------------------------------------------------------------------------------------
# sites
# ---------------------------------------------------------------------------------------------
_ORCH = "clematis.engine.orchestrator"
_COREM = "clematis.engine.orchestrator.core"
# site -> (module, attribute, kind)   kind: "glob" module global | "pkg" orchestrator package override
SITES: Dict[str, Tuple[str, str, str]] = {
    # stage callables
    "t1": (_ORCH, "t1_propagate", "pkg"),
    "t2": (_ORCH, "t2_semantic", "pkg"),
    "deliberate": (_ORCH, "t3_deliberate", "pkg_opt"),
    "dialogue": (_ORCH, "t3_dialogue", "pkg_opt"),
    "rag": (_COREM, "rag_once", "glob"),
    "speak": (_COREM, "speak", "glob"),
    "llm_speak": (_COREM, "llm_speak", "glob"),
    "t4": (_COREM, "t4_filter", "glob"),
    "apply": (_COREM, "apply_changes", "glob"),
    "health": ("clematis.engine.health", "check_and_log", "glob"),
    # optional subsystems called from run_turn
    "boot_load": (_COREM, "load_latest_snapshot", "glob"),
    "gel_observe": (_COREM, "gel_observe", "glob"),
    "gel_tick": (_COREM, "gel_tick", "glob"),
    "gel_merge_candidates": (_COREM, "gel_merge_candidates", "glob"),
    "gel_apply_merge": (_COREM, "gel_apply_merge", "glob"),
    "gel_split_candidates": (_COREM, "gel_split_candidates", "glob"),
    "gel_apply_split": (_COREM, "gel_apply_split", "glob"),
    "gel_promote_clusters": (_COREM, "gel_promote_clusters", "glob"),
    "gel_apply_promotion": (_COREM, "gel_apply_promotion", "glob"),
    "adapter_build": (_COREM, "build_llm_adapter", "glob"),
    "t3_trace": (_COREM, "emit_trace", "glob"),
    "reflect_run": (_COREM, "_run_reflection_if_enabled", "glob"),
    "reflect": (_ORCH, "reflect", "pkg_reflect"),
    "reflect_write": ("clematis.engine.orchestrator.reflection", "write_reflection_entries", "glob"),
    "reflect_log": (_COREM, "log_t3_reflection", "glob"),
    # T2 quality layers
    "hybrid_rerank": ("clematis.engine.stages.t2.quality", "rerank_with_gel", "glob"),
    "quality_fuse": ("clematis.engine.stages.t2.quality_ops", "fuse", "glob"),
    "quality_mmr": ("clematis.engine.stages.t2.quality_ops", "maybe_apply_mmr", "glob"),
    "quality_trace": ("clematis.engine.stages.t2.quality", "_emit_quality_trace", "glob"),
    "quality_cfgsnap": ("clematis.engine.stages.t2.quality", "_quality_cfg_snapshot", "glob"),
    # apply / snapshot
    "write_snapshot": ("clematis.engine.apply", "write_snapshot", "glob"),
    "sidecar_write": ("clematis.engine.snapshot", "_write_sidecar_meta", "glob"),
    "sidecar_created_at": ("clematis.engine.snapshot", "_deterministic_created_at", "glob"),
    "sidecar_atomic": ("clematis.engine.snapshot", "atomic_write_text", "meta_only"),
    "cache_invalidate": ("clematis.engine.cache", "CacheManager.invalidate_namespace", "method"),
    # store double (RigStore) switches
    "store_apply_batch": ("", "", "store"),   # the first (batch) apply_deltas call of a turn
    "store_apply_each": ("", "", "store"),    # every single-delta call
    "store_apply_all": ("", "", "store"),     # every apply_deltas call
    # hooks the snapshot writer / boot loader call on the store (world spec `store_hooks: true` gives the store
    # `export_state` / `import_state`; without it the writer falls back to the `.w` weight map)
    "store_hook_export": ("", "", "store"),   # store.export_state() raises (snapshot-cadence turns)
    "store_hook_import": ("", "", "store"),   # store.import_state() raises (boot, snapshot with store.state)
    # state["logs"] list whose append raises (inside t3 emit_trace body)
    "t3_trace_logs": ("", "", "logs"),
}


def fault(site: str, exc: str = "RigFault", nth: Optional[int] = None) -> Dict[str, Any]:
    b: Dict[str, Any] = {"mode": "raise", "exc": exc}
    if nth is not None:
        b["nth"] = nth
    return b


def stub(ret: Any, raise_nth: Optional[int] = None, exc: str = "RigFault") -> Dict[str, Any]:
    b: Dict[str, Any] = {"mode": "stub", "ret": ret}
    if raise_nth is not None:
        b["raise_nth"] = raise_nth
        b["exc"] = exc
    return b


# ---------------------------------------------------------------------------------------------
# world
# ---------------------------------------------------------------------------------------------
class AttrDict(dict):
    """dict that also supports attribute access recursively (the shape `run_smoke_turn` builds)."""

    def __getattr__(self, name):
        try:
            return self[name]
        except KeyError as e:
            raise AttributeError(name) from e

    def __setattr__(self, name, value):
        self[name] = value

    def __delattr__(self, name):
        try:
            del self[name]
        except KeyError as e:
            raise AttributeError(name) from e


def to_attrdict(obj):
    if isinstance(obj, dict):
        return AttrDict({k: to_attrdict(v) for k, v in obj.items()})
    if isinstance(obj, list):
        return [to_attrdict(v) for v in obj]
    return obj


def deep_merge(a: dict, b: dict) -> dict:
    out = copy.deepcopy(a)
    for k, v in (b or {}).items():
        if isinstance(v, dict) and isinstance(out.get(k), dict):
            out[k] = deep_merge(out[k], v)
        else:
            out[k] = copy.deepcopy(v)
    return out


RIG_CFG_DEFAULTS: Dict[str, Any] = {
    # t1.decay: the validated default config has no `decay` block and `_compute_decay` indexes it (DESIGN §5 #4)
    "t1": {"decay": {"mode": "exp_floor", "rate": 0.6, "floor": 0.05}},
    "t4": {"snapshot_every_n_turns": 1, "cache_bust_mode": "none"},
}


class _RaisingList(list):
    def append(self, x):  # noqa: D401
        hits = getattr(self, "_hits", None)
        if hits is not None:
            hits.append("t3_trace_logs")
        raise make_exc(getattr(self, "_exc", "RigFault"))


class World:
    def __init__(self, scratch: Path, spec: dict):
        self.spec = spec
        self.root = Path(scratch)
        self.log_dir = self.root / "logs"
        self.snap_dir = self.root / "snaps"
        self.log_dir.mkdir(parents=True, exist_ok=True)
        self.snap_dir.mkdir(parents=True, exist_ok=True)
        self.cfg_plain: Dict[str, Any] = {}
        self.cfg = None
        self.state: Dict[str, Any] = {}
        self.agent = str(spec.get("agent", "a1"))
        self.store = None
        self.turns_run = 0


def _validated_cfg(spec: dict, snap_dir: Path) -> Dict[str, Any]:
    over = deep_merge(RIG_CFG_DEFAULTS, spec.get("cfg") or {})
    # every path the real code may write to is forced into scratch: snapshots and the T2 shadow-trace file
    # (`quality_trace.emit_trace` writes <perf.metrics.trace_dir>/rq_traces.jsonl, default ./logs/quality)
    over = deep_merge(over, {"t4": {"snapshot_dir": str(snap_dir)},
                             "perf": {"metrics": {"trace_dir": str(snap_dir.parent / "qtraces")}}})
    if spec.get("cfg_raw"):
        return over
    from configs.validate import validate_config  # type: ignore
    try:
        return validate_config(over)
    except Exception:
        # keys the validator refuses (e.g. t1.decay on some trees): validate without, then re-merge
        base = validate_config({})
        return deep_merge(base, over)


EXPORT_SHAPES = ("deep_list", "deep_dict", "very_deep", "exploding_mapping", "exploding_iter", "set_value", "bytes_value",
                 "tuple_keys", "circular", "nan", "object", "huge_int_key")


def export_shape(how: str, good: dict) -> Any:
    """what a store's `export_state()` hands back when it "succeeds" with something the snapshot writer cannot (or
    can only just) encode: nesting beyond the interpreter's recursion limit, containers whose iteration raises,
    non-JSON types, cycles"""
    if how in ("deep_list", "deep_dict", "very_deep"):
        n = 200000 if how == "very_deep" else 5000
        x: Any = 0
        for _ in range(n):
            x = {"k": x} if how == "deep_dict" else [x]
        return {"w": good["w"], "nested": x}
    if how == "exploding_mapping":
        class Boom(dict):
            def items(self):
                raise RuntimeError("mapping changed size during iteration")

            def __iter__(self):
                raise RuntimeError("mapping changed size during iteration")
        return {"w": good["w"], "m": Boom(a=1)}
    if how == "exploding_iter":
        class BoomL(list):
            def __iter__(self):
                raise OSError()

            def __len__(self):
                return 3
        return {"w": good["w"], "l": BoomL([1, 2, 3])}
    if how == "set_value":
        return {"w": {1, 2}}
    if how == "bytes_value":
        return {"w": b"\xff\x00"}
    if how == "tuple_keys":
        return {("node", "n:x"): 1.0}
    if how == "circular":
        d: Dict[str, Any] = {"w": good["w"]}
        d["self"] = d
        return d
    if how == "nan":
        return {"w": [float("nan"), float("inf")]}
    if how == "object":
        return {"w": object()}
    return {10 ** 400: 1}


def _make_store(kind: str, spec: dict):
    if kind == "none":
        return None
    from clematis.graph.store import InMemoryGraphStore, Node, Edge

    class RigStore(InMemoryGraphStore):
        """Graph store for T1 + MiniStore-like additive `apply_deltas` over ProposedDelta (as in the repo's
        integration test), with fault switches set by the rig."""

        def __init__(self):
            super().__init__()
            self.w: Dict[tuple, float] = {}
            self.wmin, self.wmax = -1.0, 1.0
            self.rig_calls: List[int] = []
            self.rig_fault: Dict[str, str] = {}   # "batch"/"each"/"all" -> exc name
            self.rig_turn_calls = 0
            self.rig_hits: List[str] = []
            self.rig_hook_calls: List[str] = []

        def apply_deltas(self, graph_id, deltas):  # type: ignore[override]
            n = self.rig_turn_calls
            self.rig_turn_calls += 1
            self.rig_calls.append(len(deltas))
            f = self.rig_fault
            if "all" in f:
                self.rig_hits.append("store_apply_all")
                raise make_exc(f["all"])
            if "batch" in f and n == 0:
                self.rig_hits.append("store_apply_batch")
                raise make_exc(f["batch"])
            if "each" in f and n > 0:
                self.rig_hits.append("store_apply_each")
                raise make_exc(f["each"])
            edits = clamps = 0
            for d in deltas:
                k = (d.target_kind, d.target_id, d.attr)
                old = self.w.get(k, 0.0)
                prop = old + float(d.delta)
                cl = max(self.wmin, min(self.wmax, prop))
                if cl != prop:
                    clamps += 1
                if cl != old:
                    self.w[k] = cl
                    edits += 1
            return {"edits": edits, "clamps": clamps}

    class RigStoreHooks(RigStore):
        """RigStore that also offers the structured export/import hooks `snapshot.py` prefers."""

        def export_state(self):
            self.rig_hook_calls.append("export_state")
            if "export" in self.rig_fault:
                self.rig_hits.append("store_hook_export")
                raise make_exc(self.rig_fault["export"])
            good = {"w": sorted([list(k), v] for k, v in self.w.items())}
            if "shape" in self.rig_fault:
                self.rig_hits.append("store_hook_export")
                return export_shape(self.rig_fault["shape"], good)
            return good

        def import_state(self, st):
            self.rig_hook_calls.append("import_state")
            if "import" in self.rig_fault:
                self.rig_hits.append("store_hook_import")
                raise make_exc(self.rig_fault["import"])
            self.w = {tuple(k): float(v) for k, v in (st or {}).get("w", [])}

    class NoFnStore(InMemoryGraphStore):
        apply_deltas = None  # type: ignore[assignment]

    st = (RigStoreHooks() if spec.get("store_hooks") else RigStore()) if kind == "rig" else NoFnStore()
    g = spec.get("graph") or {}
    st.ensure("g:surface")
    if g.get("nodes"):
        st.upsert_nodes("g:surface", [Node(id=n[0], label=n[1]) for n in g["nodes"]])
    if g.get("edges"):
        st.upsert_edges("g:surface", [Edge(id=e[0], src=e[1], dst=e[2], weight=float(e[3]), rel=e[4])
                                      for e in g["edges"]])
    return st


def reset_process_state() -> None:
    """Drop the process-global stage caches (T1 `_T1_CACHE*`, T2 `_T2_CACHE*`) so that worlds built in one
    harness process do not see each other (the warm-process effect itself is C01's subject)."""
    for mod, names in (("clematis.engine.stages.t1", ("_T1_CACHE", "_T1_CACHE_CFG", "_T1_CACHE_KIND")),
                       ("clematis.engine.stages.t2.cache", ("_T2_CACHE", "_T2_CACHE_CFG", "_T2_CACHE_KIND"))):
        try:
            m = importlib.import_module(mod)
        except Exception:
            continue
        for n in names:
            if hasattr(m, n):
                setattr(m, n, None)


def build_world(scratch: Path, spec: dict, fresh_process_state: bool = True) -> World:
    if fresh_process_state:
        reset_process_state()
    w = World(scratch, spec)
    w.cfg_plain = _validated_cfg(spec, w.snap_dir)
    w.cfg = to_attrdict(w.cfg_plain)
    state: Dict[str, Any] = {"version_etag": "0"}
    st = _make_store(spec.get("store", "rig"), spec)
    if st is not None:
        state["store"] = st
        state["active_graphs"] = ["g:surface"]
    w.store = st
    eps = spec.get("episodes")
    if eps is not None:
        from clematis.memory.index import InMemoryIndex
        idx = InMemoryIndex()
        enc = None
        for ep in eps:
            ep = dict(ep)
            if "vec_full" not in ep:   # embed with the repo's deterministic adapter (what T2 uses for the query)
                if enc is None:
                    from clematis.adapters.embeddings import BGEAdapter
                    enc = BGEAdapter(dim=int(w.cfg_plain.get("k_surface", 32)))
                ep["vec_full"] = enc.encode([str(ep.get("text", ""))])[0]
            idx.add(ep)
        state["mem_index"] = idx
        if spec.get("memory_index", True):
            state["memory_index"] = idx
    if spec.get("boot_loaded"):
        state["_boot_loaded"] = True
    if spec.get("gel") is not None:
        state["graph"] = copy.deepcopy(spec["gel"])
        state["gel"] = state["graph"]
    if spec.get("logs_list") == "raising":
        state["logs"] = _RaisingList()
    elif spec.get("logs_list") == "plain":
        state["logs"] = []
    state.update(copy.deepcopy(spec.get("state_extra") or {}))
    for name, content in (spec.get("snap_files") or {}).items():
        p = w.snap_dir / name
        if isinstance(content, dict) and "b64" in content:
            p.write_bytes(base64.b64decode(content["b64"]))
        else:
            p.write_text(str(content), encoding="utf-8")
    w.state = state
    return w


def make_ctx(w: World, turn_id: Any):
    spec = w.spec
    ctx = SimpleNamespace(turn_id=turn_id, agent_id=w.agent, now=spec.get("now"),
                          now_ms=spec.get("now_ms", 0), cfg=w.cfg, config=w.cfg)
    for k, v in (spec.get("ctx_extra") or {}).items():
        setattr(ctx, k, copy.deepcopy(v))
    return ctx


# ---------------------------------------------------------------------------------------------
# return-value builders for stubs
# ---------------------------------------------------------------------------------------------
def _make_ret(site: str, spec: Any):
    """JSON-able spec -> the object the orchestrator expects from that site."""
    from clematis.engine.types import (T1Result, T2Result, T4Result, ApplyResult, ProposedDelta, Plan, OpRef,
                                       EpisodeRef)
    if site == "t1":
        return T1Result(graph_deltas=[], metrics=dict(spec.get("metrics", {})))
    if site == "t2":
        retrieved = []
        for r in spec.get("retrieved", []):
            try:
                retrieved.append(EpisodeRef(id=str(r["id"]), owner=r.get("owner", "any"), score=float(r.get("score", 0.0)),
                                            title=r.get("title"), quarter=r.get("quarter"), text=r.get("text")))
            except TypeError:
                retrieved.append(dict(r))
        return T2Result(retrieved=retrieved, graph_deltas_residual=[], metrics=dict(spec.get("metrics", {})))
    if site == "deliberate":
        ops = []
        for o in spec.get("ops", []):
            ops.append(SimpleNamespace(**o) if isinstance(o, dict) else SimpleNamespace(kind=str(o)))
        deltas = [ProposedDelta(target_kind=d[0], target_id=d[1], attr=d[2], delta=float(d[3]),
                                op_idx=(d[4] if len(d) > 4 else None)) for d in spec.get("deltas", [])]
        return Plan(version="t3-plan-v1", reflection=bool(spec.get("reflection", False)), ops=ops, deltas=deltas)
    if site == "rag":
        return (_make_ret("deliberate", spec.get("plan", {})), dict(spec.get("metrics", {"rag_used": True})))
    if site in ("speak", "llm_speak"):
        return (spec.get("utter", ""), dict(spec.get("metrics", {})))
    if site == "dialogue":
        if "metrics" in spec:
            return (spec.get("utter", ""), dict(spec["metrics"]))
        return spec.get("utter", "")
    if site == "t4":
        appr = [ProposedDelta(target_kind=d[0], target_id=d[1], attr=d[2], delta=float(d[3]),
                              op_idx=(d[4] if len(d) > 4 else None)) for d in spec.get("approved", [])]
        rej = [OpRef(kind=str(r[0]), idx=int(r[1])) for r in spec.get("rejected", [])]
        return T4Result(approved_deltas=appr, rejected_ops=rej, reasons=list(spec.get("reasons", [])),
                        metrics=dict(spec.get("metrics", {})))
    if site == "apply":
        return ApplyResult(applied=spec.get("applied", 0), clamps=spec.get("clamps", 0),
                           version_etag=spec.get("version_etag"), snapshot_path=spec.get("snapshot_path"),
                           metrics=dict(spec.get("metrics", {})))
    if site == "reflect":
        from clematis.engine.stages.t3 import ReflectionResult
        return ReflectionResult(summary=spec.get("summary", ""),
                                memory_entries=[dict(e) for e in spec.get("entries", [])],
                                metrics=dict(spec.get("metrics", {})))
    if site == "hybrid_rerank":
        return None  # handled specially (identity rerank)
    return copy.deepcopy(spec)


def _mangle(site: str, r: Any, how: str) -> Any:
    items, rest = (r[0], r[1:]) if isinstance(r, tuple) else (r, None)
    items = [dict(it) if isinstance(it, dict) else it for it in (items or [])]
    if how == "bad_score":
        for j, it in enumerate(items):
            if isinstance(it, dict):
                it["score_fused"] = ["n/a", [], {}, None, "1e"][j % 5]
    elif how == "none_entry":
        items = items + [None]
    elif how == "no_ids":
        for it in items:
            if isinstance(it, dict):
                it.pop("id", None)
    return (items,) + tuple(rest) if rest is not None else items


def _summ(site: str, args: tuple, kwargs: dict) -> Dict[str, Any]:
    """Gate-relevant, JSON-able summary of a call's arguments."""
    info: Dict[str, Any] = {}
    try:
        if site in ("t1", "t2"):
            info["text"] = str(args[2]) if len(args) > 2 else None
        elif site == "t4":
            plan, utter = args[4], args[5]
            info["n_ops"] = len(getattr(plan, "ops", []) or [])
            info["utter"] = utter if isinstance(utter, str) else repr(utter)
        elif site == "apply":
            info["n_approved"] = len(getattr(args[2], "approved_deltas", []) or [])
        elif site == "gel_observe":
            info["n_items"] = len(args[2]) if len(args) > 2 else None
            info["turn"] = kwargs.get("turn")
        elif site == "gel_tick":
            info["turn"] = kwargs.get("turn")
        elif site == "reflect_run":
            info["utter"] = args[3] if isinstance(args[3], str) else repr(args[3])
        elif site == "cache_invalidate":
            info["ns"] = str(args[1]) if len(args) > 1 else None
        elif site == "sidecar_atomic":
            info["name"] = os.path.basename(str(args[0]))
        elif site == "write_snapshot":
            info["version_etag"] = args[2] if len(args) > 2 else None
            info["applied"] = args[3] if len(args) > 3 else None
    except Exception:
        pass
    return info


# ---------------------------------------------------------------------------------------------
# run
# ---------------------------------------------------------------------------------------------
class Run:
    def __init__(self):
        self.result: Optional[Dict[str, Any]] = None
        self.raised: Optional[Dict[str, str]] = None
        self.emitted: List[Tuple[str, dict]] = []
        self.logs: Dict[str, List[dict]] = {}
        self.files: Dict[str, List[dict]] = {}
        self.calls: List[Tuple[str, dict]] = []
        self.fault_hits: List[str] = []
        self.state: Dict[str, Any] = {}

    def canon(self, streams=CANON_STREAMS) -> Dict[str, Any]:
        return {"result": self.result, "raised": self.raised,
                "logs": {s: self.logs.get(s, []) for s in streams}}

    def to_json(self) -> Dict[str, Any]:
        return {"result": self.result, "raised": self.raised, "emitted": [[s, r] for s, r in self.emitted],
                "calls": [[s, i] for s, i in self.calls], "fault_hits": self.fault_hits, "state": self.state}


def canon_record(rec: dict) -> dict:
    out = {}
    for k, v in rec.items():
        if k in VOLATILE_KEYS:
            continue
        if k == "snapshot" and isinstance(v, str):
            v = os.path.basename(v)
        out[k] = v
    return json.loads(json.dumps(out, default=repr))


def _stream_name(filename: str) -> str:
    n = os.path.basename(str(filename))
    return n[:-6] if n.endswith(".jsonl") else n


def _resolve(mod: str, attr: str):
    m = importlib.import_module(mod)
    obj: Any = m
    parts = attr.split(".")
    for p in parts[:-1]:
        obj = getattr(obj, p)
    return obj, parts[-1]


_MISSING = object()


@contextlib.contextmanager
def _patched(run: Run, behaviours: Dict[str, dict], world: World):
    undo: List[Any] = []
    counters: Dict[str, int] = {}

    def wrap(site: str, orig, beh: dict):
        mode = beh.get("mode", "real")

        def wrapper(*args, **kwargs):
            n = counters.get(site, 0)
            counters[site] = n + 1
            info = _summ(site, args, kwargs)
            run.calls.append((site, info))
            do_raise = False
            if mode == "raise":
                do_raise = beh.get("nth") is None or beh.get("nth") == n
            elif mode == "stub" and beh.get("raise_nth") is not None:
                do_raise = beh.get("raise_nth") == n
            if do_raise:
                info["raised"] = beh.get("exc", "RigFault")
                run.fault_hits.append(site)
                raise make_exc(beh.get("exc", "RigFault"))
            if mode == "mangle":
                # run the REAL callable, then damage what it returned (a subsystem that "succeeds" with malformed
                # output); `how`: bad_score | none_entry | no_ids
                r = orig(*args, **kwargs)
                run.fault_hits.append(site)
                info["mangled"] = beh.get("how")
                return _mangle(site, r, beh.get("how", "bad_score"))
            if mode == "stub":
                if site == "hybrid_rerank":
                    return (args[2], {})
                if site == "quality_fuse" and beh.get("ret") is None:
                    return ([], {})          # idle fusion: proposes nothing
                ret = beh.get("ret")
                if isinstance(ret, list) and site not in ("gel_merge_candidates", "gel_split_candidates",
                                                          "gel_promote_clusters", "quality_fuse", "quality_mmr"):
                    ret = ret[min(n, len(ret) - 1)] if ret else None   # per-call script
                return _make_ret(site, ret)
            if orig is None or orig is _MISSING:
                raise RigError(f"site {site} has no real callable to delegate to")
            try:
                r = orig(*args, **kwargs)
                if site == "boot_load" and isinstance(r, dict):
                    info["loaded"] = bool(r.get("loaded"))
                return r
            except Exception as e:  # real callable raised by itself: record, re-raise
                info["raised_real"] = type(e).__name__
                raise
        wrapper.__name__ = f"rig_{site}"
        wrapper.__wrapped_site__ = site  # type: ignore[attr-defined]
        return wrapper

    try:
        for site, (mod, attr, kind) in SITES.items():
            beh = behaviours.get(site, {"mode": "real"})
            mode = beh.get("mode", "real")
            if kind == "store":
                st = world.store
                if st is not None and hasattr(st, "rig_fault"):
                    st.rig_turn_calls = 0
                    key = site.split("_")[-1]
                    if mode == "raise":
                        st.rig_fault[key] = beh.get("exc", "RigFault")
                    elif mode == "shape":          # export_state() returns a malformed / hostile structure
                        st.rig_fault["shape"] = beh.get("how", "deep_list")
                    else:
                        st.rig_fault.pop(key, None)
                continue
            if kind == "logs":
                if mode == "raise":
                    lst = _RaisingList(world.state.get("logs") or [])
                    lst._exc = beh.get("exc", "RigFault")  # type: ignore[attr-defined]
                    lst._hits = run.fault_hits  # type: ignore[attr-defined]
                    prev = world.state.get("logs", _MISSING)
                    world.state["logs"] = lst

                    def _undo_logs(prev=prev, lst=lst):
                        # keep what was appended before the fault; restore a plain list
                        world.state["logs"] = list(lst) if prev is _MISSING else (list(prev) if isinstance(prev, list) else prev)
                    undo.append(_undo_logs)
                continue
            if kind in ("pkg_opt", "pkg_reflect") and mode == "real":
                continue  # no override installed: the orchestrator uses its built-in path
            target, name = _resolve(mod, attr)
            if kind in ("pkg", "pkg_opt", "pkg_reflect"):
                had = name in vars(target)
                prev = vars(target).get(name, _MISSING)
                orig = getattr(target, name, None)
                setattr(target, name, wrap(site, orig, beh))

                def _undo_pkg(target=target, name=name, had=had, prev=prev):
                    if had:
                        setattr(target, name, prev)
                    else:
                        try:
                            delattr(target, name)
                        except AttributeError:
                            pass
                undo.append(_undo_pkg)
                continue
            orig = getattr(target, name, _MISSING)
            if kind == "meta_only":
                if mode == "real":
                    continue
                real = orig

                def meta_wrapper(path, *a, _real=real, _beh=beh, **k):
                    if str(path).endswith(".meta"):
                        run.calls.append(("sidecar_atomic", {"name": os.path.basename(str(path)),
                                                             "raised": _beh.get("exc", "RigFault")}))
                        run.fault_hits.append("sidecar_atomic")
                        raise make_exc(_beh.get("exc", "RigFault"))
                    return _real(path, *a, **k)
                setattr(target, name, meta_wrapper)
            elif orig is _MISSING or orig is None:
                if mode == "real":
                    continue
                setattr(target, name, wrap(site, None, beh))
            else:
                setattr(target, name, wrap(site, orig, beh))
            undo.append(lambda target=target, name=name, orig=orig: (
                setattr(target, name, orig) if orig is not _MISSING else delattr(target, name)))
        yield
    finally:
        for u in reversed(undo):
            try:
                u()
            except Exception:
                pass
        st = world.store
        if st is not None and hasattr(st, "rig_fault"):
            run.fault_hits.extend(st.rig_hits)
            for c in st.rig_calls:
                run.calls.append(("store_apply_deltas", {"n": c}))
            for c in getattr(st, "rig_hook_calls", []):
                run.calls.append(("store_" + c, {}))
            st.rig_hits, st.rig_calls = [], []
            st.rig_hook_calls = []
            st.rig_fault.clear()


@contextlib.contextmanager
def _env(world: World):
    keys = {"CLEMATIS_LOG_DIR": str(world.log_dir), "CLEMATIS_LOGS_DIR": str(world.log_dir),
            "CLEMATIS_SNAPSHOT_DIR": str(world.snap_dir), "CI": "true", "SOURCE_DATE_EPOCH": "0"}
    drop = ("CLEMATIS_T3_DENY", "CLEMATIS_T3_ALLOW")
    saved = {k: os.environ.get(k) for k in list(keys) + list(drop)}
    os.environ.update(keys)
    for k in drop:
        os.environ.pop(k, None)
    try:
        yield
    finally:
        for k, v in saved.items():
            if v is None:
                os.environ.pop(k, None)
            else:
                os.environ[k] = v


def observe_state(w: World) -> Dict[str, Any]:
    st = w.state
    out: Dict[str, Any] = {"version_etag": st.get("version_etag"), "boot_loaded": bool(st.get("_boot_loaded", False))}
    try:
        out["snap_files"] = sorted(p.name for p in w.snap_dir.iterdir())
    except Exception:
        out["snap_files"] = None
    body = w.snap_dir / f"state_{w.agent}.json"
    try:
        d = json.loads(body.read_text())
        out["snap_body"] = {k: d.get(k) for k in ("version_etag", "applied", "turn")}
    except Exception:
        out["snap_body"] = None
    cm = st.get("_cache_mgr")
    keys: Dict[str, List[str]] = {}
    if cm is not None:
        try:
            for ns, obj in sorted(getattr(cm, "_ns", {}).items()):
                inner = None
                for cand in ("_data", "_d", "_map", "_store", "_od", "_items"):
                    if isinstance(getattr(obj, cand, None), dict):
                        inner = getattr(obj, cand)
                        break
                keys[ns] = sorted(repr(k) for k in (inner or {}))
        except Exception:
            keys = {"?": ["unreadable"]}
    out["cache_keys"] = keys
    store = st.get("store")
    out["store_w"] = sorted([list(k), v] for k, v in getattr(store, "w", {}).items()) if store is not None else None
    idx = st.get("mem_index")
    try:
        out["mem_n"] = len(getattr(idx, "_eps", None) or getattr(idx, "episodes", None) or []) if idx is not None else None
    except Exception:
        out["mem_n"] = None
    g = st.get("graph")
    out["gel_edges"] = sorted(map(str, (g.get("edges") or {}).keys())) if isinstance(g, dict) else None
    try:
        out["gel"] = sorted([str(k), (v.get("weight") if isinstance(v, dict) else repr(v))]
                            for k, v in (g.get("edges") or {}).items()) if isinstance(g, dict) else None
    except Exception:
        out["gel"] = "unreadable"
    out["logs_n"] = len(st["logs"]) if isinstance(st.get("logs"), list) else None
    return json.loads(json.dumps(out, default=repr))


def run_turn(world: World, text: str, turn_id: Any = 1, behaviours: Optional[Dict[str, dict]] = None) -> Run:
    """Run the real `Orchestrator.run_turn` once on `world` (see module docstring)."""
    behaviours = behaviours or {}
    for s in behaviours:
        if s not in SITES:
            raise RigError(f"unknown site {s}")
    run = Run()
    iolog = importlib.import_module("clematis.io.log")
    orch_core = importlib.import_module(_COREM)
    importlib.import_module(_ORCH)
    real_unbuf = iolog._append_jsonl_unbuffered

    def rec_unbuf(filename, record):
        real_unbuf(filename, record)   # writes the scratch file (after identity normalisation)
        try:
            run.emitted.append((_stream_name(filename), canon_record(dict(record))))
        except Exception:
            run.emitted.append((_stream_name(filename), {"__unserialisable__": True}))

    # truncate scratch log files so `files` holds this turn only
    for p in world.log_dir.glob("*.jsonl"):
        p.unlink()
    ctx = make_ctx(world, turn_id)
    world.last_ctx = ctx  # type: ignore[attr-defined]
    with _env(world), _patched(run, behaviours, world):
        iolog._append_jsonl_unbuffered = rec_unbuf
        try:
            try:
                res = orch_core.Orchestrator().run_turn(ctx, world.state, text)
                run.result = {"line": getattr(res, "line", None), "events": list(getattr(res, "events", []) or [])}
            except RigError:
                raise
            except Exception as e:
                run.raised = {"type": type(e).__name__, "msg": safe_str(e)}
        finally:
            iolog._append_jsonl_unbuffered = real_unbuf
    world.turns_run += 1
    for s, r in run.emitted:
        run.logs.setdefault(s, []).append(r)
    for p in sorted(world.log_dir.glob("*.jsonl")):
        recs = []
        for line in p.read_text(encoding="utf-8").splitlines():
            if line.strip():
                try:
                    recs.append(canon_record(json.loads(line)))
                except Exception:
                    recs.append({"__unparsable__": line[:80]})
        run.files[_stream_name(p.name)] = recs
    run.state = observe_state(world)
    return run


def run_sequence(scratch: Path, spec: dict, turns: List[dict]) -> List[Run]:
    """Fresh world from `spec`, then one real turn per entry of `turns`:
    {"text": str, "turn_id": any (default index+1), "behaviours": {...}}."""
    w = build_world(scratch, spec)
    out = []
    for i, t in enumerate(turns):
        out.append(run_turn(w, t.get("text", ""), t.get("turn_id", i + 1), t.get("behaviours")))
    return out
