"""
c01_worker — one subprocess of the C01 end-to-end differential.

    PYTHONHASHSEED=<n> python -m harness.lib.c01_worker <job.json>

`job.json` = {"case": <case>, "variant": <variant>, "root": <scratch dir>}; the result is printed as ONE JSON
line on stdout (last line).  Everything the real engine writes goes under `root`.

case     {"spec": <turnrig world spec>, "sde": "0" | None (SOURCE_DATE_EPOCH set / unset),
          "turns": [{"agent","text","now_ms","now", "now_shape": str|none|absent, "now_ms_shape": int|float|callable|none}, ..]}
variant  {"clock": {"kind": "real"|"const"|"creep"|"jump"|"back"|"chaos", "t0": float, "step": float, "seed": int},
          "order": "pool" (real thread pool) | "fwd" | "rev" | "shuf:<seed>"  (prescribed completion order of every fan-out),
          "warm": 0|1|2   (number of warm-up executions of the same turn list, each on FRESH state objects and a
                           fresh scratch sub-directory, in the same interpreter BEFORE the measured execution)}

The adversarial clock replaces — BEFORE anything of the repository is imported, because `engine/cache.py` binds
`time.time` as a default argument at import time — `time.time/perf_counter/process_time` (+ `_ns`
variants; `time.monotonic` is left alone, see install_clock) and `datetime.datetime` (a subclass whose `now/utcnow/today` read the patched `time.time`) and
`datetime.date.today`.  `time.sleep` is left alone.

Observables (what C01 compares, byte for byte):
  lines      [TurnResult.line | {"raised": type}]            per turn
  logs       {stream filename: hex of bytes}                 every *.jsonl in the log dir, scratch root -> <ROOT>
  snaps      {filename: hex of bytes}                        every file in the snapshot dir, scratch root -> <ROOT>
"""
from __future__ import annotations

import json
import os
import sys
from pathlib import Path


class AdvClock:
    """Deterministic adversarial clock (own LCG; never touches `random`)."""

    def __init__(self, kind: str, t0: float = 1.0e6, step: float = 1.0, seed: int = 1):
        self.kind, self.t, self.step, self.n = kind, float(t0), float(step), 0
        self.s = (int(seed) * 2654435761 + 12345) & 0xFFFFFFFF

    def _rnd(self) -> float:
        self.s = (self.s * 1103515245 + 12345) & 0x7FFFFFFF
        return self.s / float(0x7FFFFFFF)

    def read(self) -> float:
        self.n += 1
        k = self.kind
        if k == "const":
            return self.t
        if k == "creep":            # a very fast machine: 1 ns per reading
            self.t += 1e-9
        elif k == "jump":           # a very slow machine: `step` seconds per reading
            self.t += self.step
        elif k == "back":           # clock running backwards
            self.t -= self.step
        elif k == "chaos":          # random signed jumps up to ±step
            self.t += (self._rnd() * 2.0 - 1.0) * self.step
        return self.t


def install_clock(spec: dict) -> None:
    kind = spec.get("kind", "real")
    if kind == "real":
        return
    import time
    import datetime as _dt
    clk = AdvClock(kind, spec.get("t0", 1.0e6), spec.get("step", 1.0), spec.get("seed", 1))
    rd = clk.read
    time.time = rd
    time.perf_counter = rd
    # time.monotonic is NOT replaced: the repository never reads it (table (d)), while threading/queue/concurrent.futures
    # do, and a monotonic clock that runs backwards hangs the standard library's thread pool, not the code under test
    time.process_time = rd
    time.time_ns = lambda: int(rd() * 1e9)
    time.perf_counter_ns = lambda: int(rd() * 1e9)
    real_dt = _dt.datetime
    real_date = _dt.date
    epoch = real_dt(1970, 1, 1, tzinfo=_dt.timezone.utc)

    def _from(t: float, tz=None):
        t = max(-6.0e10, min(2.0e11, t))    # keep inside datetime's range
        d = epoch + _dt.timedelta(seconds=t)
        return d.astimezone(tz) if tz is not None else d.replace(tzinfo=None)

    class AdvDateTime(real_dt):
        @classmethod
        def now(cls, tz=None):
            d = _from(rd(), tz)
            return cls(d.year, d.month, d.day, d.hour, d.minute, d.second, d.microsecond, tzinfo=d.tzinfo)

        @classmethod
        def utcnow(cls):
            return cls.now(None)

        @classmethod
        def today(cls):
            return cls.now(None)

    class AdvDate(real_date):
        @classmethod
        def today(cls):
            d = _from(rd())
            return cls(d.year, d.month, d.day)

    _dt.datetime = AdvDateTime
    _dt.date = AdvDate


def install_order(order: str) -> None:
    """Thread-order stream: replace the pool used by `clematis.engine.util.parallel.run_parallel` (T1 and T2 fan-out)
    by an executor that COMPLETES the submitted tasks one at a time in a prescribed order — "fwd" submission order,
    "rev" the opposite, "shuf:<seed>" a seeded permutation — each task on its own freshly started thread.
    `run_parallel` submits every task before it asks for the first result, so the whole fan-out is queued and then
    drained in the prescribed order."""
    if not order or order == "pool":
        return
    import threading
    from concurrent.futures import Future
    from harness import core as _core  # noqa: F401
    par = __import__("clematis.engine.util.parallel", fromlist=["x"])

    class _Fut(Future):
        def __init__(self, owner):
            super().__init__()
            self._owner = owner

        def result(self, timeout=None):
            self._owner._drain()
            return super().result(timeout)

    class OrderedExecutor:
        def __init__(self, max_workers=None, thread_name_prefix="", **_kw):
            self._q = []
            self._prefix = thread_name_prefix or "ordered"

        def __enter__(self):
            return self

        def __exit__(self, *exc):
            self._drain()
            return False

        def submit(self, fn, *a, **k):
            f = _Fut(self)
            self._q.append((f, fn, a, k))
            return f

        def shutdown(self, wait=True, **_kw):
            self._drain()

        def _drain(self):
            q, self._q = self._q, []
            idx = list(range(len(q)))
            if order == "rev":
                idx.reverse()
            elif order.startswith("shuf:"):
                st = (int(order[5:]) * 2654435761 + 99991) & 0x7FFFFFFF
                for i in range(len(idx) - 1, 0, -1):
                    st = (st * 1103515245 + 12345) & 0x7FFFFFFF
                    j = st % (i + 1)
                    idx[i], idx[j] = idx[j], idx[i]
            for i in idx:
                f, fn, a, k = q[i]

                def body(f=f, fn=fn, a=a, k=k):
                    try:
                        f.set_result(fn(*a, **k))
                    except BaseException as e:  # noqa: BLE001
                        f.set_exception(e)
                t = threading.Thread(target=body, name=f"{self._prefix}_{i}")
                t.start()
                t.join()

    par.ThreadPoolExecutor = OrderedExecutor


def _hexfiles(d: Path, root: Path, pattern: str) -> dict:
    out = {}
    rb = str(root).encode()
    if d.is_dir():
        for p in sorted(d.rglob(pattern)):
            if p.is_file():
                out[str(p.relative_to(d))] = p.read_bytes().replace(rb, b"<ROOT>").hex()
    return out


def execute(case: dict, root: Path) -> dict:
    """One execution of the turn list on FRESH state objects (process-global caches are NOT reset here:
    that is exactly the fresh-vs-warm difference)."""
    import copy
    import importlib
    from harness.lib import turnrig as TR
    spec = copy.deepcopy(case["spec"])
    root.mkdir(parents=True, exist_ok=True)
    w = TR.build_world(root, spec, fresh_process_state=False)
    orch_core = importlib.import_module("clematis.engine.orchestrator.core")
    lines = []
    with TR._env(w):
        # the rig forces SOURCE_DATE_EPOCH=0; a case may ask for it to be UNSET (restored by _env on exit)
        if case.get("sde", "0") is None:
            os.environ.pop("SOURCE_DATE_EPOCH", None)
        else:
            os.environ["SOURCE_DATE_EPOCH"] = str(case.get("sde", "0"))
        for i, t in enumerate(case["turns"]):
            w.agent = str(t.get("agent", "a1"))
            # ctx clock SHAPES (a generated dimension): now str | None | absent; now_ms int | float | callable | None
            now_shape, ms_shape = t.get("now_shape", "str"), t.get("now_ms_shape", "int")
            w.spec["now"] = t.get("now") if now_shape == "str" else None
            ms = t.get("now_ms", 0)
            w.spec["now_ms"] = {"int": ms, "float": float(ms) + 0.5, "none": None}.get(ms_shape, ms)
            ctx = TR.make_ctx(w, t.get("turn_id", i + 1))
            if ms_shape == "callable":
                ctx.now_ms = (lambda _v=ms: _v)
            if now_shape == "absent":
                try:
                    delattr(ctx, "now")
                except AttributeError:
                    pass
            try:
                res = orch_core.Orchestrator().run_turn(ctx, w.state, str(t.get("text", "")))
                lines.append(getattr(res, "line", None))
            except Exception as e:   # the differential compares the exception type as well
                lines.append({"raised": type(e).__name__})
    return {"lines": lines, "logs": _hexfiles(w.log_dir, root, "*.jsonl"), "snaps": _hexfiles(w.snap_dir, root, "*"),
            "sde_unset": case.get("sde", "0") is None}


def validate_msgs(configs) -> list:
    """error text of `validate_config` for each (malformed) config: did-you-mean suggestions and allowed-value lists"""
    from harness import core as _core  # noqa: F401  (puts the repository on sys.path)
    from configs.validate import validate_config
    out = []
    for c in configs:
        try:
            validate_config(c)
            out.append("ok")
        except Exception as e:
            out.append(f"{type(e).__name__}: {e}")
    return out


def main(argv) -> int:
    job = json.loads(Path(argv[1]).read_text())
    if job.get("mode") == "validate":
        sys.stdout.write("\n" + json.dumps({"msgs": validate_msgs(job["configs"]), "hashseed": os.environ.get("PYTHONHASHSEED")}) + "\n")
        return 0
    variant = job.get("variant", {})
    install_clock(variant.get("clock", {}))
    install_order(variant.get("order", "pool"))
    root = Path(job["root"])
    os.environ["CI"] = "true"
    os.environ["CLEMATIS3_VERIF"] = "1"
    for k in range(int(variant.get("warm", 0))):
        execute(job["case"], root / f"warm{k}")
    out = execute(job["case"], root / "run")
    out["hashseed"] = os.environ.get("PYTHONHASHSEED")
    sys.stdout.write("\n" + json.dumps(out) + "\n")
    return 0


if __name__ == "__main__":
    sys.exit(main(sys.argv))
