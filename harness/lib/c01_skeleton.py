"""
C01 skeleton rig: drives the REAL `Orchestrator.run_turn` with scripted recording stubs for the stages (through
harness.lib.turnrig) under SCRIPTED clocks, and records exactly what the wall clock contributed to each turn:

  el   the `consumed["ms"]` handed to `_should_yield` at each boundary check (observed by wrapping the module global)
  age  `now - ent.ts` at the turn-level cache lookup (observed by wrapping `_NamespaceCache.get`; the cache manager is
       built with the scripted `time_fn`, because `engine/cache.py` binds `time.time` as a default argument)

and encodes the emitted records in the integer form of `Clem.C01.Rec` (lean/Clem/Model/C01Turn.lean).
Any record whose key set is not the expected one is encoded with a `bad` marker, which breaks the correspondence.
"""
from __future__ import annotations

import importlib
import json
import time
import zlib
from pathlib import Path
from typing import Any, Dict, List, Optional

from harness.lib import turnrig as TR

REASONS = {"WALL_MS": 1, "BUDGET_T1_ITERS": 2, "BUDGET_T1_POPS": 3, "BUDGET_T2_K": 4, "BUDGET_T3_OPS": 5,
           "QUANTUM_EXCEEDED": 6}
STAGES = {"T1": 1, "T2": 2, "T3": 3, "T4": 4, "Apply": 5}
STREAMS = ("t1", "t2", "t3", "t3_plan", "t3_dialogue", "t4", "apply", "scheduler", "turn")
CANON = ("t1", "t2", "t4", "apply", "scheduler", "turn")


class Script:
    def __init__(self, vals: List[float], scale: float):
        self.vals, self.i, self.scale, self.last = list(vals) or [0], 0, scale, None

    def __call__(self) -> float:
        v = self.vals[self.i] if self.i < len(self.vals) else self.vals[-1]
        self.i += 1
        self.last = v
        return v * self.scale


def oi(x) -> List[int]:
    return [0] if x is None else [1, int(x)]


def model_cfg(w: "TR.World", has_now: bool) -> Dict[str, Any]:
    """The gates/budgets exactly as `run_turn` derives them from the validated config."""
    c = w.cfg_plain
    s = c.get("scheduler") or {}
    b = s.get("budgets") or {}

    def bud(k):
        v = b.get(k)
        return None if v is None else int(v)
    t3 = c.get("t3") or {}
    t3_on = bool(t3.get("enabled")) if "enabled" in t3 else (bool(t3.get("allow")) if "allow" in t3 else True)
    t4 = c.get("t4") or {}
    cache = t4.get("cache", {}) if isinstance(t4, dict) else {}
    ttl_conf = cache.get("ttl_sec", cache.get("ttl_s", 600))
    core = importlib.import_module("clematis.engine.orchestrator.core")
    return {"ci": True, "schedOn": bool(core._truthy(s.get("enabled", False))), "wallMs": bud("wall_ms"),
            "quantumMs": int(s.get("quantum_ms", 20)), "bIters": bud("t1_iters"), "bPops": bud("t1_pops"),
            "bK": bud("t2_k"), "bOps": bud("t3_ops"), "t3On": t3_on, "t4On": bool(t4.get("enabled", True)),
            "cacheOn": bool(cache.get("enabled", True)), "ttl": int(ttl_conf if ttl_conf is not None else 600),
            "hasNow": has_now}


def _num(agent: str) -> int:
    return int(str(agent)[1:])


def _line_tok(line: Any) -> int:
    if not isinstance(line, str):
        return -999999
    if line == "":
        return 0
    if line.startswith("u"):
        return int(line[1:])
    if line.startswith("w"):
        return -int(line[1:]) - 1
    return -999998


def _ms(v) -> Optional[int]:
    if v is None:
        return None
    return int(v) if float(v) == int(v) else 987654321


def encode(stream: str, r: dict, cache_on: bool, t4_on: bool = True) -> dict:
    """real (post-normalisation, as written to the file) record -> Clem.C01.Rec JSON"""
    out = {"s": stream, "id": [], "ms": None, "now": None, "durs": None, "y": None, "sl": None, "cms": None}
    keys = set(r)

    extra: List[int] = []

    def expect(req, opt=()):
        if not (set(req) <= keys <= set(req) | set(opt)):
            out["bad"] = f"keys {sorted(keys)}"
            # fold the unexpected fields into the identity content, so that the Lean monitor (same decisions => same
            # canonical records) sees a value that differs between two executions
            for k in sorted(keys - set(req) - set(opt)):
                extra.append(zlib.crc32(f"{k}={json.dumps(r[k], sort_keys=True, default=repr)}".encode()) % 1000003)
    try:
        t, a = int(r["turn"]), _num(r["agent"])
        canonical = stream in CANON
        if canonical:
            out["ms"] = _ms(r.get("ms"))
        out["now"] = None if "now" not in r else 1
        if stream == "t1":
            expect(["turn", "agent", "tok", "ms"], ["iters", "pops", "now"])
            out["id"] = [t, a, int(r["tok"])] + oi(r.get("iters")) + oi(r.get("pops"))
        elif stream == "t2":
            expect(["turn", "agent", "tok", "ms"], ["k_used", "cache_hit", "cache_size", "now"])
            out["id"] = [t, a, int(r["tok"])] + oi(r.get("k_used"))
            if cache_on or "cache_hit" in r:
                out["id"] += [int(bool(r["cache_hit"])), int(r["cache_size"])]
        elif stream in ("t3", "t3_plan"):
            out["id"] = [t, a, sum(int(v) for v in (r.get("ops_counts") or {}).values())]
        elif stream == "t3_dialogue":
            out["id"] = [t, a]
            out["ms"] = 0 if "ms" in r else None   # presence only: t3_dialogue is not an identity stream
        elif stream == "t4":
            expect(["turn", "agent", "approved", "rejected", "reasons", "ms"], ["now"])
            out["id"] = [t, a, int(r["approved"])]
            if r["rejected"] != 0 or r["reasons"]:
                out["bad"] = "t4 rejected/reasons"
        elif stream == "apply":
            expect(["turn", "agent", "applied", "clamps", "version_etag", "snapshot", "cache_invalidations", "ms"], ["now"])
            out["id"] = [t, a, int(r["applied"])]
        elif stream == "scheduler":
            expect(["turn", "slice", "agent", "policy", "reason", "enforced", "stage_end", "quantum_ms", "wall_ms",
                    "budgets", "consumed", "queued", "ms"], ["pick_reason"])
            b, c = r["budgets"], r["consumed"]
            st = STAGES[r["stage_end"]]
            cons = {1: oi(c.get("t1_iters")) + oi(c.get("t1_pops")), 2: oi(c.get("t2_k")), 3: oi(c.get("t3_ops"))}.get(st, [])
            out["id"] = ([t, int(r["slice"]), a, REASONS[r["reason"]], st, int(r["quantum_ms"])] + oi(r.get("wall_ms"))
                         + oi(b.get("t1_iters")) + oi(b.get("t1_pops")) + oi(b.get("t2_k")) + oi(b.get("t3_ops")) + cons)
            out["cms"] = int(c["ms"])
            if b.get("wall_ms") != r.get("wall_ms") or r["enforced"] is not True or r["queued"] != []:
                out["bad"] = "scheduler event shape"
        elif stream == "turn":
            expect(["turn", "agent", "durations_ms", "t1", "t2", "t4"], ["slice_idx", "yielded", "yield_reason", "now"])
            t1s = oi(r["t1"].get("pops")) + oi(r["t1"].get("iters"))
            t2d, t4d = r["t2"], r["t4"]
            t2s = [0] if not t2d else [1] + oi(t2d.get("k_used")) + [int(bool(t2d.get("cache_hit")))]
            d = r["durations_ms"]
            out["durs"] = [_ms(d[k]) for k in ("t1", "t2", "t4", "apply", "total")] if set(d) == {"t1", "t2", "t4", "apply", "total"} else [-1]
            if r.get("yielded"):
                t4s = [0] if not t4d else [1, int(t4d["approved"])]
                out["id"] = [t, a] + t1s + t2s + t4s + [REASONS[r["yield_reason"]]]
                out["y"], out["sl"] = True, int(r["slice_idx"])
            else:
                out["id"] = [t, a] + t1s + t2s + [1 if t4_on else 2, int(t4d["approved"]), int(t4d["rejected"])]
                out["y"] = r.get("yielded")
                out["sl"] = r.get("slice_idx")
        else:
            out["bad"] = "unexpected stream"
    except Exception as e:  # any shape surprise is a correspondence break, not a crash
        out["bad"] = f"{type(e).__name__}: {e}"
    out["id"] = list(out["id"]) + extra
    return out


def run_case(scratch: Path, case: dict, which: str) -> dict:
    """Run the case's turn list on the real run_turn under clock script `which` ("A" | "B")."""
    core = importlib.import_module("clematis.engine.orchestrator.core")
    cache_mod = importlib.import_module("clematis.engine.cache")
    spec = {"cfg": case["cfg"], "boot_loaded": True, "store": "none", "now": case.get("now"),
            "ctx_extra": {"slice_idx": case.get("slice_prev", 0)}}
    w = TR.build_world(scratch, spec)
    mcfg = model_cfg(w, bool(case.get("now")))
    pc = Script(case["clocks"][which]["pc"], 0.001)
    wt = Script(case["clocks"][which]["wt"], 1.0)
    els: List[int] = []
    ages: List[int] = []
    real_sy, real_cm, real_get, real_pc = core._should_yield, core.CacheManager, cache_mod._NamespaceCache.get, time.perf_counter

    def sy(slice_ctx, consumed):
        els.append(int(consumed.get("ms", 0)))
        return real_sy(slice_ctx, consumed)

    def cm_factory(max_entries=1024, ttl_sec=600, time_fn=None):
        return real_cm(max_entries=max_entries, ttl_sec=ttl_sec, time_fn=wt)

    def ns_get(self, key):
        ent = self._d.get(key)
        r = real_get(self, key)
        ages.append(0 if ent is None else int(round(wt.last - ent.ts)))
        return r

    outs, decs = [], []
    core._should_yield, core.CacheManager, cache_mod._NamespaceCache.get = sy, cm_factory, ns_get
    time.perf_counter = pc
    try:
        for i, t in enumerate(case["turns"]):
            del els[:], ages[:]
            w.agent = f"a{t['agent']}"
            w.state["version_etag"] = str(t["ver"])
            m1 = {"tok": t["t1Tok"]}
            if t["t1Iters"] is not None:
                m1["iters"] = t["t1Iters"]
            if t["t1Pops"] is not None:
                m1["pops"] = t["t1Pops"]
            m2 = {"tok": t["t2Tok"]}
            if t["t2K"] is not None:
                m2["k_used"] = t["t2K"]
            beh = {"t1": TR.stub({"metrics": m1}), "t2": TR.stub({"metrics": m2, "retrieved": []}),
                   "deliberate": TR.stub({"ops": [{"kind": "Speak"}] * t["ops"], "deltas": []}),
                   "dialogue": TR.stub({"utter": ("u%d" % t["utter"]) if t["utter"] else ""}),
                   "t4": TR.stub({"approved": [["node", "n1", "weight", 0.1]] * t["t4Tok"], "metrics": {}}),
                   "apply": TR.stub({"applied": t["applyTok"], "clamps": 0, "version_etag": None, "metrics": {}}),
                   "health": TR.stub(None)}
            run = TR.run_turn(w, "w%d" % t["text"], t["turn"], beh)
            if not mcfg["t3On"] and len(els) > 2:
                els.insert(2, 0)   # the T3 boundary check does not exist when T3 is gated off: keep el indexed by stage
            if run.raised:
                outs.append({"raised": run.raised["type"], "msg": run.raised["msg"]})
                decs.append({"el": list(els), "age": ages[0] if ages else 0, "vol": []})
                continue
            # raw records from the scratch files, in emission order
            per: Dict[str, List[dict]] = {}
            for p in sorted(w.log_dir.glob("*.jsonl")):
                per[p.name[:-6]] = [json.loads(l) for l in p.read_text(encoding="utf-8").splitlines() if l.strip()]
            recs = []
            idx: Dict[str, int] = {}
            for s, _ in run.emitted:
                k = idx.get(s, 0)
                idx[s] = k + 1
                raw = dict(per.get(s, [])[k]) if k < len(per.get(s, [])) else {}
                enc = encode(s, raw, mcfg["cacheOn"], mcfg["t4On"])
                if s not in STREAMS:
                    enc = {"s": s, "bad": "unexpected stream"}
                recs.append(enc)
            cm = w.state.get("_cache_mgr")
            outs.append({"recs": recs, "line": _line_tok(run.result["line"]),
                         "cache_n": (cm.stats.get("size", 0) if cm is not None else 0)})
            decs.append({"el": list(els), "age": ages[0] if ages else 0, "vol": []})
    finally:
        core._should_yield, core.CacheManager, cache_mod._NamespaceCache.get = real_sy, real_cm, real_get
        time.perf_counter = real_pc
    return {"cfg": mcfg, "outs": outs, "decs": decs}
