"""C08 — callers of the atomic helper (`engine/snapshot.py`, `io/log.py`) under fault injection.

Each caller is run for real under the same syscall injector; the model is the composition the
Lean file defines (`awb` / `swallow` / `withSidecar`).  An audit hook records every write-mode
`open` and every rename inside the scratch directory: a caller must touch final names only
through a rename of a temp created by the helper (the dynamic twin of the generated call table).
"""
from __future__ import annotations

import json
import os
import random
import shutil
import sys
import tempfile
import types
from pathlib import Path
from typing import Any, Dict, List, Optional, Tuple

from harness import core
from harness.core import Component

RETRIES = 80
#: record counts around and above plausible batch boundaries
NS = [0, 1, 2, 1000, 1024, 1025, 4095, 4096, 4097, 8192, 10000]
_AUDIT: Dict[str, Any] = {"root": None, "events": []}
_HOOKED = False


def _hook(event: str, args):
    root = _AUDIT["root"]
    if root is None:
        return
    try:
        if event == "open":
            path, mode, flags = args[0], args[1], args[2]
            if isinstance(path, (str, bytes, os.PathLike)):
                p = os.fspath(path)
                p = p.decode() if isinstance(p, bytes) else p
                if p.startswith(root) and isinstance(flags, int) and (flags & (os.O_WRONLY | os.O_RDWR | os.O_CREAT | os.O_TRUNC | os.O_APPEND)):
                    _AUDIT["events"].append(["open_w", os.path.basename(p)])
        elif event == "os.rename":
            s, d = os.fspath(args[0]), os.fspath(args[1])
            if str(s).startswith(root) or str(d).startswith(root):
                _AUDIT["events"].append(["rename", os.path.basename(str(s)), os.path.basename(str(d))])
        elif event in ("os.remove", "os.truncate"):
            p = os.fspath(args[0])
            if str(p).startswith(root):
                _AUDIT["events"].append([event, os.path.basename(str(p))])
    except Exception:
        pass


def _ensure_hook():
    global _HOOKED
    if not _HOOKED:
        sys.addaudithook(_hook)
        _HOOKED = True


PAYLOAD = {"version_etag": "e2", "store": {"n": [1, 2, 3]}, "k": "v"}
BASE = {"version_etag": "e1", "store": {"n": [1]}, "k": "v"}


class SourceFailed(RuntimeError):
    """Raised by the record iterator handed to `rewrite_jsonl` at a chosen position."""


def _records(n: int, raise_at: Optional[int], bad: Optional[str] = None):
    for i in range(n):
        if raise_at is not None and i == raise_at:
            if bad == "set":
                yield {"i": i, "v": {1, 2}}           # unserialisable leaf -> TypeError in json.dumps
                continue
            if bad == "surrogate":
                yield {"i": i, "v": "caf\ud800"}      # serialises, cannot be encoded -> UnicodeEncodeError
                continue
            raise SourceFailed(f"record source failed at {i}")
        yield {"i": i}


def _tok(s: Optional[str]) -> Optional[str]:
    """Large contents cross to the model as a digest token (the model treats contents as opaque)."""
    if s is None or len(s) <= 256:
        return s
    import hashlib
    return "#sha1:" + hashlib.sha1(s.encode("latin-1")).hexdigest()


def _n(case: dict) -> int:
    return int(case.get("n", 2))


def _call(caller: str, d: Path, case: Optional[dict] = None):
    case = case or {}
    from clematis.engine import snapshot as S
    if caller == "write_lines" and case.get("bad"):
        body = S._canonical_json(PAYLOAD)
        cut = {"start": 1, "middle": len(body) // 2, "end": len(body) - 1}[case.get("pos", "end")]
        body = body[:cut] + "\ud800" + body[cut:]     # a body that cannot be encoded
        return lambda: S._write_lines(str(d / "snapshot-e2.full.json"), {"schema": "snapshot:v1", "mode": "full", "etag_to": "e2"},
                                      body, codec="none", level=0)
    if caller == "auto_full" and case.get("bad"):
        pl = dict(PAYLOAD)
        pl["k"] = {1, 2} if case["bad"] == "set" else "caf\ud800"
        return lambda: S.write_snapshot_auto(str(d), etag_from=None, etag_to="e2", payload=pl)
    if caller == "sidecar" and case.get("bad"):
        return lambda: S._write_sidecar_meta(str(d / "state_a.json"), schema_version="v\ud800")
    if caller == "write_lines":
        return lambda: S._write_lines(str(d / "snapshot-e2.full.json"), {"schema": "snapshot:v1", "mode": "full", "etag_to": "e2"},
                                      S._canonical_json(PAYLOAD), codec="none", level=0)
    if caller == "auto_full":
        return lambda: S.write_snapshot_auto(str(d), etag_from=None, etag_to="e2", payload=PAYLOAD)
    if caller == "auto_delta":
        return lambda: S.write_snapshot_auto(str(d), etag_from="e1", etag_to="e2", payload=PAYLOAD, delta_mode=True)
    if caller == "sidecar":
        return lambda: S._write_sidecar_meta(str(d / "state_a.json"), schema_version="v1")
    if caller == "rewrite_jsonl":
        from clematis.io import log as L
        if "n" not in case and case.get("raise_at") is None:
            return lambda: L.rewrite_jsonl("t1.jsonl", [{"b": 1, "a": "x"}, {"turn": 2}])
        return lambda: L.rewrite_jsonl("t1.jsonl", _records(_n(case), case.get("raise_at"), case.get("bad")))
    if caller == "write_snapshot":
        ctx = types.SimpleNamespace(cfg={"t4": {"snapshot_dir": str(d)}}, agent_id="a", turn_id=3)
        return lambda: S.write_snapshot(ctx, {"store": None}, "etag-9", applied=1, deltas=[])
    raise KeyError(caller)


KIND = {"write_lines": "sidecar", "auto_full": "sidecar", "auto_delta": "sidecar", "write_snapshot": "sidecar",
        "sidecar": "swallow", "rewrite_jsonl": "plain"}


class CallerComp(Component):
    name = "atomic.callers"
    budget = {"quick": 120, "thorough": 6000, "search": 10000}

    def __init__(self):
        self._golden: Dict[Any, dict] = {}
        self._r: Dict[int, List[str]] = {}

    # -- environment ---------------------------------------------------------------------
    def _env(self, d: Path):
        saved = {k: os.environ.get(k) for k in ("SOURCE_DATE_EPOCH", "CLEMATIS_LOG_DIR", "CLEMATIS_LOGS_DIR")}
        os.environ["SOURCE_DATE_EPOCH"] = "1700000000"
        os.environ["CLEMATIS_LOG_DIR"] = str(d)
        return saved

    def _unenv(self, saved):
        for k, v in saved.items():
            if v is None:
                os.environ.pop(k, None)
            else:
                os.environ[k] = v

    @staticmethod
    def _gkey(case: dict):
        return (case["caller"], case.get("n")) if case["caller"] == "rewrite_jsonl" else (case["caller"], None)

    def _mkdir(self, caller: str, old: bool, gkey=None) -> Tuple[Path, Path]:
        from harness.props import c08
        root = Path(tempfile.mkdtemp(prefix="call_", dir=str(c08._scratch())))
        d = root / "snaps"
        d.mkdir()
        if caller == "auto_delta":
            from clematis.engine import snapshot as S
            saved = self._env(d)
            try:
                S.write_snapshot_auto(str(d), etag_from=None, etag_to="e1", payload=BASE)
            finally:
                self._unenv(saved)
        if old:
            g = self._golden.get(gkey if gkey is not None else (caller, None))
            if g:
                (d / g["dest"]).write_bytes(b"OLD-BODY")
                if g["meta"] is not None and KIND[caller] != "plain":
                    (d / (g["dest"] + ".meta")).write_bytes(b"OLD-META")
        return root, d

    def golden(self, case) -> dict:
        """Un-faulted run: which final names the caller writes and with which bytes."""
        if isinstance(case, str):
            case = {"caller": case}
        caller = case["caller"]
        key = self._gkey(case)
        if key in self._golden:
            return self._golden[key]
        from harness.lib import faults
        root, d = self._mkdir(caller, False)
        saved = self._env(d)
        try:
            before = faults.listing(d)
            gcase = {k: v for k, v in case.items() if k == "n"}
            out = faults.run_injected(_call(caller, d, gcase), d, [], [], record_hist=False)
        finally:
            self._unenv(saved)
        fs = out["fs"]
        shutil.rmtree(root, ignore_errors=True)
        if out["status"] != "returned":
            raise core.Infra(f"un-faulted run of caller {caller} failed: {out['status']} {out.get('exc')} {out['trace'][-3:]}")
        kind = KIND[caller]
        changed = sorted(n for n in fs if before.get(n) != fs[n])
        bodies = [n for n in changed if not n.endswith(".meta")]
        metas = [n for n in changed if n.endswith(".meta")]
        if kind == "swallow":
            m = metas[0] if metas else "state_a.json.meta"
            g = {"dest": m[:-len(".meta")], "data": "", "meta": _tok(fs.get(m)), "before": before}
        else:
            b = bodies[0] if bodies else (metas[0][:-len(".meta")] if metas else "unknown")
            g = {"dest": b, "data": _tok(fs.get(b, "")), "meta": _tok(fs.get(b + ".meta")) if kind == "sidecar" else None,
                 "before": before}
        g["before"] = {n: _tok(c) for n, c in g["before"].items()}
        self._golden[key] = g
        return g

    # -- generation ------------------------------------------------------------------------
    def gen(self, rng: random.Random, i: int) -> dict:
        caller = rng.choice(sorted(KIND))
        L = rng.choice([6, 12, 20, 30, 40])
        p = rng.choice([0.05, 0.15, 0.3])
        script = [("ok" if rng.random() >= p else rng.choice(["crash", "err:5", "err:28", "err:13", "err:16", "err:2", "short:1", "short:0"]))
                  for _ in range(L)]
        case = {"caller": caller, "old": rng.random() < 0.6, "script": script}
        if caller == "rewrite_jsonl" and rng.random() < 0.7:
            case["n"] = rng.choice(NS)
            if rng.random() < 0.3:
                case["raise_at"] = rng.choice([0, 1, case["n"] // 2, max(case["n"] - 1, 0), 4096, 4097])
            case["script"] = [o for o in script if not o.startswith("short") or o in ("short:0", "short:1")]
        return case

    # -- the real code ---------------------------------------------------------------------
    def impl(self, case: dict) -> Any:
        from harness.lib import faults
        _ensure_hook()
        caller = case["caller"]
        g = self.golden(case)
        root, d = self._mkdir(caller, case["old"], self._gkey(case))
        saved = self._env(d)
        body, meta = d / g["dest"], d / (g["dest"] + ".meta")
        before = faults.listing(d)
        try:
            _AUDIT["events"] = []
            _AUDIT["root"] = str(d)
            try:
                out = faults.run_injected(_call(caller, d, case), d, [body, meta], case["script"])
            finally:
                _AUDIT["root"] = None
            out["audit"] = list(_AUDIT["events"])
            try:
                from clematis.engine.snapshot import _pick_latest_snapshot_path
                pick = _pick_latest_snapshot_path(str(d))
                out["pick"] = None if pick is None else os.path.basename(pick)
            except Exception as e:  # pragma: no cover
                out["pick"] = f"!{type(e).__name__}"
        finally:
            self._unenv(saved)
            shutil.rmtree(root, ignore_errors=True)
        # large contents are replaced by digest tokens everywhere (model side uses the same tokens)
        out["hist"] = [[_tok(h[0][0]), _tok(h[0][1]), h[1]] for h in out["hist"]]
        out["fs"] = {n: _tok(c) for n, c in out["fs"].items()}
        out["before"] = {n: _tok(c) for n, c in before.items()}
        rs = [t.rsplit(".", 1)[-1] for t in out["tmps"]] + ["XXXXXXXX", "YYYYYYYY"]
        self._r[id(case)] = rs
        return out

    # -- the model ---------------------------------------------------------------------------
    def request(self, case: dict) -> dict:
        g = self.golden(case)
        kind = KIND[case["caller"]]
        rs = self._r.get(id(case), ["XXXXXXXX", "YYYYYYYY"])
        fs = dict(g["before"])
        if case["old"]:
            fs[g["dest"]] = "OLD-BODY"
            if g["meta"] is not None and kind != "plain":
                fs[g["dest"] + ".meta"] = "OLD-META"
        if kind == "swallow":
            dest, data = g["dest"] + ".meta", g["meta"]
        else:
            dest, data = g["dest"], g["data"]
        from harness.props.c08 import write_loop_present
        ra = case.get("raise_at")
        if case.get("bad") and (case["caller"] != "rewrite_jsonl" or (ra is not None and 0 <= ra < _n(case))):
            # the content cannot be serialised / encoded: the failure precedes every FS step (C08_serialise_before_temp)
            kind = "contentfail_swallowed" if kind == "swallow" else "contentfail"
        elif case["caller"] == "rewrite_jsonl" and ra is not None and 0 <= ra < _n(case):
            # the record source fails: nothing may be written at all (the payload is built before the single atomic write)
            kind = "iterfail"
        return {"c": "atomic.caller", "kind": kind, "loop": write_loop_present(), "retries": RETRIES, "dest": dest, "r1": rs[0], "r2": rs[1],
                "data": data, "meta": g["meta"] or "", "fs": [[n, c] for n, c in sorted(fs.items())], "script": case["script"],
                "_watch": g["dest"]}

    def compare(self, case, io, mo):
        if not (isinstance(io, dict) and "status" in io and isinstance(mo, dict) and "status" in mo):
            return super().compare(case, io, mo)
        g = self.golden(case)
        kind = KIND[case["caller"]]
        keep = set(io["before"]) | {g["dest"], g["dest"] + ".meta"}
        a = {"status": io["status"], "fs": sorted([[n, c if n in keep else "*"] for n, c in io["fs"].items()]), "trace": io["trace"]}
        b = {"status": mo["status"], "fs": sorted([[e[0], e[1] if e[0] in keep else "*"] for e in mo["fs"]]), "trace": mo["trace"]}
        if kind == "swallow":
            # the model watched (dest=.meta, dest.meta); the implementation watched (body, body.meta)
            a["hist"] = [[h[1], sorted(h[2])] for h in io["hist"]]
            b["hist"] = [[h[0], sorted(h[2])] for h in mo["hist"]]
        else:
            a["hist"] = [[h[0], h[1], sorted(h[2])] for h in io["hist"]]
            b["hist"] = [[h[0], h[1], sorted(h[2])] for h in mo["hist"]]
        a, b = core._canon(a), core._canon(b)
        return None if a == b else core.first_diff(a, b)

    # -- monitors ------------------------------------------------------------------------------
    def monitor_requests(self, case, io):
        g = self.golden(case)
        kind = KIND[case["caller"]]
        body, meta = g["dest"], g["dest"] + ".meta"
        before = io["before"]
        rq = []
        if kind != "swallow":
            rq.append(("body_all_or_nothing", {"c": "atomic.mon", "m": "reader", "old": before.get(body), "new": g["data"],
                                               "seen": [h[0] for h in io["hist"]] + [io["fs"].get(body)]}))
            rq.append(("body_returned_means_new", {"c": "atomic.mon", "m": "returned_new", "status": io["status"],
                                                   "new": g["data"], "cur": io["fs"].get(body)}))
        if kind != "plain" and g["meta"] is not None:
            rq.append(("sidecar_all_or_nothing", {"c": "atomic.mon", "m": "reader", "old": before.get(meta), "new": g["meta"],
                                                  "seen": [h[1] for h in io["hist"]] + [io["fs"].get(meta)]}))
        left = sorted(n for n in io["fs"] if n not in before and n not in (body, meta))
        if left:
            rq.append(("leftover_name_harmless", {"c": "atomic.mon", "m": "harmless", "dest": body, "names": left}))
        return rq

    def monitors(self, case, io):
        g = self.golden(case)
        kind = KIND[case["caller"]]
        body, meta = g["dest"], g["dest"] + ".meta"
        before = io["before"]
        res = []
        finals = {body, meta} | set(before)
        tmps = set(io["tmps"])
        bad = []
        for ev in io["audit"]:
            if ev[0] == "open_w" and ev[1] in finals:
                bad.append(ev)
            if ev[0] == "rename" and (ev[1] not in tmps or ev[2] not in (body, meta)):
                bad.append(ev)
            if ev[0] in ("os.remove", "os.truncate") and ev[1] in finals:
                bad.append(ev)
        res.append(("writes_only_via_helper", not bad, f"direct FS writes to final names: {bad[:4]}"))
        changed = [n for n, c in before.items() if n not in (body, meta) and io["fs"].get(n) != c]
        res.append(("frame_other_files_untouched", not changed, f"changed siblings {changed}"))
        if kind == "sidecar":
            body_done = any(s == "replace" and o == "ok" for s, o in io["trace"])
            res.append(("sidecar_failure_never_breaks_body", not (body_done and io["status"] == "raised"),
                        "raised after the body was replaced"))
        if io["status"] != "crashed" and not any((s in ("unlink", "exists")) and o.startswith("err") for s, o in io["trace"]):
            left = sorted(n for n in io["fs"] if n not in before and n not in (body, meta))
            res.append(("no_temp_left", not left, f"left {left}"))
        pick = io.get("pick")
        res.append(("picker_ignores_temp", pick is None or pick in before or pick in (body, meta), f"picked {pick!r}"))
        return res

    def tags(self, case, io):
        t = set()
        for s, o in io["trace"]:
            if o != "ok":
                t.add(f"{o.split(':')[0]}@{s}")
        nm = sum(1 for s, _ in io["trace"] if s == "mktemp")
        if "n" in case:
            t.add(f"records={case['n']}")
        if case.get("raise_at") is not None:
            t.add("source_raises")
        if case.get("bad"):
            t.add(f"content_fail:{case['bad']}")
        if any(s == "open_direct" for s, _ in io["trace"]):
            t.add("direct_open_for_write")
        if t:
            t.add(f"{case['caller']}:{io['status']}:writes={nm}")
        return sorted(t) or ["default"]

    def shrink(self, case):
        s = case["script"]
        for i in range(len(s)):
            if s[i] != "ok":
                yield dict(case, script=s[:i] + ["ok"] + s[i + 1:])
        if s:
            yield dict(case, script=s[:-1])
        if case.get("n", 0) > 2:
            for m in (case["n"] // 2, case["n"] - 1):
                c2 = dict(case, n=m)
                if c2.get("raise_at") is not None:
                    c2["raise_at"] = min(c2["raise_at"], max(m - 1, 0))
                yield c2


CALLERS = CallerComp()
COMPONENTS = [CALLERS]


def run(ctx, run_cases) -> None:
    quick = ctx.tier == "quick"
    outcomes = ["crash", "err:5", "err:13"] if quick else ["crash", "err:5", "err:28", "err:13", "err:16", "short:1"]
    for caller in sorted(KIND):
        for old in ((True,) if quick else (True, False)):
            base = {"caller": caller, "old": old, "script": []}
            from harness.props.c08 import safe_impl
            io0 = safe_impl(CALLERS, base)
            cases, outs = [base], [io0]
            for j in range(len(io0.get("trace") or [])):
                for o in outcomes:
                    c = {"caller": caller, "old": old, "script": ["ok"] * j + [o]}
                    cases.append(c)
                    outs.append(safe_impl(CALLERS, c))
            run_cases(ctx, CALLERS, cases, outs)
    # callers that take an iterable: record counts around / above plausible batch boundaries, faults on every FS call of
    # the whole call, record sources that raise at chosen positions
    from harness.props.c08 import safe_impl
    cases = []
    ns = [1, 2, 4095, 4096, 4097, 8192, 10000] if quick else NS + [20000]
    for n in ns:
        for old in (True, False):
            cases.append({"caller": "rewrite_jsonl", "old": old, "n": n, "script": []})
    for n in ((4097, 10000) if quick else (1025, 4097, 10000)):
        for ra in sorted({0, 1, n // 2, 4095, 4096, n - 1}):
            cases.append({"caller": "rewrite_jsonl", "old": True, "n": n, "raise_at": ra, "script": []})
    # contents that cannot be serialised / encoded, at the start, in the middle and at the end
    for bad in ("set", "surrogate"):
        for n, ra in ((3, 0), (3, 1), (3, 2), (5000, 0), (5000, 2500), (5000, 4999)):
            cases.append({"caller": "rewrite_jsonl", "old": True, "n": n, "raise_at": ra, "bad": bad, "script": []})
        if bad == "set":  # (_canonical_json escapes surrogates: ensure_ascii=True, so only the leaf type can fail there)
            cases.append({"caller": "auto_full", "old": True, "bad": bad, "script": []})
            cases.append({"caller": "auto_full", "old": True, "bad": bad, "script": ["ok", "ok", "ok", "err:28"]})
    for pos in ("start", "middle", "end"):
        cases.append({"caller": "write_lines", "old": True, "bad": "surrogate", "pos": pos, "script": []})
    cases.append({"caller": "sidecar", "old": True, "bad": "surrogate", "script": []})
    cases.append({"caller": "sidecar", "old": False, "bad": "surrogate", "script": ["ok", "crash"]})
    outs = [safe_impl(CALLERS, c) for c in cases]
    run_cases(ctx, CALLERS, cases, outs)
    for n in ((10000,) if quick else (4097, 10000)):
        base = {"caller": "rewrite_jsonl", "old": True, "n": n, "script": []}
        io0 = safe_impl(CALLERS, base)
        cases, outs = [], []
        for j in range(len(io0.get("trace") or [])):
            for o in (("crash", "err:28") if quick else ("crash", "err:28", "err:5", "err:13")):
                c = dict(base, script=["ok"] * j + [o])
                cases.append(c)
                outs.append(safe_impl(CALLERS, c))
        run_cases(ctx, CALLERS, cases, outs)
    core.run_component(ctx, CALLERS)
