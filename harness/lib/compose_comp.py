"""
compose_comp — end-to-end correspondence of the COMPOSED turn model (`lean/Clem/Model/Compose.lean`, routes in
`lean/Driver/HCompose.lean`) with the REAL `Orchestrator.run_turn`, driven through `harness/lib/turnrig.py`.

    COMPONENTS = [ComposeTurn(), ComposeHistory()]          (names `compose.turn`, `compose.hist`)

Gates opened in shares of the worlds (the v1 shares stay): the three caches (50 %), GEL incl. the merge/split/promotion block
(35 %), the scheduler with logical slice budgets (30 %), the T2 hybrid reranker over the GEL store (60 % of GEL worlds) and
fusion + MMR (25 %), configured planner thresholds (40 %), the reflection tail (25 %).
Step 5 (snapshots + boot): every committed cadence turn's `state_<agent>.json` BODY is compared key-order- and bit-exactly with
the model's `snapBody` (C06's `Clem.Snap.payloadOf` on the turn's own values); 30 % of the histories start in a fresh process
(`boot`: the boot hook runs on an empty snapshot directory), 50 % of the multi-turn histories are cut by a process boundary
(`restart_at`: fresh state / ctx / caches / memory index, the snapshot directory of the first process; the model boots from its
OWN predicted body via `bootOf` = C06's `loadFrom`).
Step 6 (memory growth): reflection worlds no longer hide the written entries — `owner_scope` any / agent (agent id "agent" in a
share) / world, recency window opened and T2 stage cache ON under repeated texts in shares; the model keeps the written entries
as state (`State.mem`) and retrieves over `initial ++ written so far`; id / cluster / quarter / token set / cosine of the
written episodes are oracles measured on the real index (`memEps`), their text / owner literal / vector presence are the model's.
Step 7 (several agents on one state): 30 % of the multi-turn histories without a process boundary alternate 2-3 agent ids
(`turn["agent"]` -> the turn's `ctx.agent_id`): owner scope, reflection ids, snapshot `agent` field and FILE (`state_<agent>.json`)
follow the turn's agent; store / version / GEL / memory index / T1 cache / T2 stage cache (owner in its key, fix 1b85992) are
shared.  The orchestrator's turn-level T2 cache key digests the agent since the fix `C05_turn_key_context` (with the T1 ids, the
memory index version and — hybrid on — the GEL edges; model: `OrchCtx`): it stays ON in half of these histories and never serves
one agent's result to another (`C01_compose_agents_scope_cached`).  Model: `runTurnsMA` (= `runTurns` when no turn names an agent).
Step 8 (the log stream): EVERY line the real turn appends to EVERY log file (t1, t2, gel, scheduler, t3, t3_plan, t3_dialogue, t4,
apply, t3_reflection, health, turn) is read back from the scratch log directory — as written by the repo's `append_jsonl` with
`CI=true`, i.e. after `normalize_for_identity` — and compared with `Clem.Compose.emitted` (lean/Clem/Model/ComposeLog.lean):
emission order across files, key order inside every record, value kinds (int vs float vs null) and floats by bits.  The
measured `ms*` values of the non-identity streams are oracles (`Clock`, read from the real lines); for the ones the CI
normalisation zeroes the request carries a junk value (7.25) that must not come through.  The per-stream records the earlier
comparisons / monitors read are DERIVED from that stream (`_logs_of_emitted`); the driver no longer builds records itself.

A case = a small world (1-3 active graphs with labelled nodes and weighted edges, node ids shared between graphs;
0-8 episodes of several owners embedded with the repo's deterministic adapter), a validated config (stage caches /
GEL / reflection / scheduler / perf gate / T2 quality layers OFF; in half of the cases the three caches — T1 result
cache, T2 stage cache, the orchestrator's CacheManager with `cache_bust_mode` none / on-apply — are ON and texts repeat,
so that hits, fills and invalidations occur), optional `state.meta.cooldowns`, and 1-4
turns (text, dry-run flag, optional planner hook: the orchestrator's own `t3_deliberate` indirection, installed as
"real `deliberate` + appended EditGraph ops + `plan.deltas`" — the only way a ProposedDelta ever reaches T4).

impl:   the REAL engine, every stage real (T1, T2, bundle, deliberate, rag_once, speak, T4, apply_changes, the rig's
        store), logs captured by the rig; light recorders (no behaviour change) note what each stage handed to the next.
model:  `runTurns` on the same world; the score oracles (cosine per (query text, episode), centroid cosines) are
        MEASURED with the repo's adapter/`_cosine` for exactly the query texts the real T2 embedded (as C11's
        `t2real` stream does) and handed to the model keyed by query text.
compare: every canonical record of the t1/t2/t4/apply/turn streams, the final plan's op list, the approved list,
        the batches the store received, the returned line, the number of T2 calls, the post-turn store weights and
        version — exactly (floats by bits).
repaired defect the model follows: `proposed_fixes/C13_cfg_snapshot_passes_policy.diff` (on the pinned tree `cfg_snapshot`
        dropped `t3.policy`, so a real turn planned with the default thresholds whatever the validated configuration said;
        failing inputs kept in `corpus/C01/compose.*__policy_thresholds.json`).
monitors (Lean, on the REAL turn): link.t1, link.query, link.bundle, link.plan, link.rag, link.line, link.handoff,
        link.version (each glue link: the model's link function applied to what the real upstream stage produced equals
        what the real downstream stage received) and c03.envelope, c11.hits, c12.budget, c13.plan (the per-stage Lean
        monitors of those packages on the real records), c17.yield (C17's decision table on the real boundary counters),
        link.t2stats, and C18's gel.mon monitors c18.canon / bounded / handoff_topk / obs_spec / tick_spec on the real
        state.graph before/after observe and tick;  (Python) records.turn_agent / streams / rollup / apply_version,
        line.budget, cache.hit_justified / size / invalidation / transparent (a history with a turn-level cache hit, run again with
        t4.cache off: same T2 statistics, line, store, version, GEL store, memory index at every turn), gel.order / handoff / tick_args / maintenance, quality.query,
        hybrid.handoff / called, records.hybrid, boot.once, memory.append_only / entry_shape / visible, agents.snapshot_files; (Lean, step 8, on the real lines) log.normalized
        (every line is a fixpoint of the identity normalisation), log.rollup (the turn record restates the stage records of the
        same turn), log.order (files in stage order, scheduler event right before the early turn record, gel lines between t2
        and apply), log.t3 (t3 / t3_plan restate the final plan's op kinds, the pre-rag retrieve request, the stashed flag); (Lean, step 5) snap.fields
        (the real body against the real turn's own records + C06's writer on the real state.graph), boot.load (state after the
        real boot hook = `bootOf` of the real body); replay.real_deterministic (the same history replayed
        on a freshly built world gives identical records, lines and state — C01 on the real engine).
"""
from __future__ import annotations

import contextlib
import copy
import datetime as dt
import importlib
import random
from typing import Any, Dict, List, Optional, Tuple

from harness.core import Component, Ctx, f2b, b2f, _canon, first_diff, run_driver
from harness.lib import turnrig as TR

NOW = "2025-09-01T00:00:00Z"
NOW_ISO_MS0 = "1970-01-01T00:00:00+00:00"
STREAMS = ("t1", "t2", "t4", "apply", "turn")
REL = {"supports": 0, "associates": 1, "contradicts": 2}
WORDS = ["apple", "Banana", "fruit", "car", "bike", "pie", "zebra", "tree", "app", "fruit pie"]
NODE_IDS = ["n1", "n2", "n10", "n3", "N4", "n5", "n6", "a:b", "z"]
TIERS = ["exact_semantic", "cluster_semantic", "archive"]
MONITORS = ["c17.yield", "link.t1", "link.query", "link.t2stats", "link.bundle", "link.plan", "link.rag", "link.line", "link.handoff", "link.version",
            "c03.envelope", "c11.hits", "c12.budget", "c13.plan"]

ASSUMPTIONS = [
    "composed turn (compose.turn / compose.hist): the perf/metrics gate, the LLM backend and node attrs.tags are OFF / absent; "
    "ctx.now is a fixed string; the world (graphs, INITIAL memory episodes, config, agent) does not change during a history; the "
    "memory index grows only through the reflection tail (modelled as state); the snapshot directory holds at most the one "
    "`state_<agent>.json` the history itself wrote (single agent, no delta/compressed snapshots); a process boundary carries "
    "nothing but that directory.  Multi-agent histories: no process boundary (which `state_*.json` a boot would pick depends "
    "on file mtimes).  In shares of the worlds GEL (graph.enabled: observe on all T2 hits, tick and merge/split/promotion before "
    "Apply; merge_candidates/split_candidates are oracles as in C18), the scheduler (scheduler.enabled with LOGICAL slice budgets: "
    "wall_ms / quantum_ms are huge and the model takes the measured elapsed time as 0 ms), and the T2 rerank layers (hybrid over the "
    "GEL store of the state; fusion with BM25 scores and MMR with token sets as oracles, as in C11) are ON",
    "fixed tree (C05_t2_key_* / C05_turn_key_context / C09_t2_*): the T2 stage cache key carries the hybrid settings + GEL digest, the "
    "label map and the memory index identity/version, and the orchestrator's turn-level key digests agent, T1 ids, index version and "
    "(hybrid on) the GEL edges — the stage cache stays ON in hybrid worlds and the turn-level cache may stay ON in multi-agent worlds",
    "caches ON: no TTL expiry and no capacity eviction inside a history (defaults 300 s / 600 s / 512 entries vs. at most 4 turns); "
    "the process-global T2 stage cache is transparent in such a world (its hit returns what the stage recomputes) and is only "
    "reflected in the record constants cache_enabled / cache_used / cache_misses",
    "the planner hook `clematis.engine.orchestrator.t3_deliberate` (the orchestrator's own indirection) is the only source of "
    "ProposedDeltas: the stock rule-based planner never sets `plan.deltas`; the hook used is `deliberate(bundle)` + appended "
    "EditGraph ops + a generated delta list",
    "utterances come from the default dialogue template without style prefix; no generated text triggers a rule of `_sanitize_utterance` "
    "(no t3_filter.jsonl line is ever written)",
    "log stream: CI=true (the rig's environment); the apply record's snapshot path is compared by basename (the directory is the "
    "scratch snapshot_dir); `pick_reason` absent (the rig's ctx has none); the scheduler event is written, not driver-captured",
]
TRUSTED = [
    "oracles of the composed turn, measured from the real run and handed to the model keyed by query text: BGEAdapter embeddings and "
    "`memory.index._cosine` per (query text, episode), centroid cosines per cluster, timestamp parsing / quarter labels / cluster ids "
    "(as in C11's t2real stream); numpy's pairwise summation for sim_stats/score_stats is MODELLED (npSum), not an oracle",
]

# what the composed model mirrors (for the integrator: merge into C01's MODELLED)
MODELLED = {
    "clematis/engine/orchestrator/core.py": ["Orchestrator.run_turn", "_derive_budgets", "_should_yield", "_m5_enabled"],
    "clematis/engine/stages/t2/quality.py": ["apply_quality"],
    "clematis/engine/stages/t2/state.py": ["gather_changed_labels", "build_label_map"],
    "clematis/engine/stages/t3/bundle.py": ["extract_t1_touched_nodes", "extract_labels_from_t1", "assemble_bundle",
                                            "cfg_snapshot", "cfg_caps"],
    "clematis/engine/stages/t3/policy.py": ["_policy_thresholds", "deliberate"],
    "clematis/engine/stages/t3/dialogue.py": ["speak"],
    "clematis/engine/stages/t4.py": ["_get_plan_ops", "_get_plan_deltas", "_get_turn", "_get_last_turn_map"],
    "clematis/engine/apply.py": ["apply_changes", "_should_snapshot"],
    "clematis/engine/snapshot.py": ["write_snapshot", "load_latest_snapshot"],
    "clematis/engine/orchestrator/reflection.py": ["write_reflection_entries", "_normalize_entry"],
    "clematis/memory/index.py": ["InMemoryIndex.add"],
    "clematis/engine/util/io_logging.py": ["normalize_for_identity"],
    "clematis/engine/health.py": ["check_and_log"],
    "clematis/engine/orchestrator/logging.py": ["log_t3_reflection"],
    "clematis/engine/stages/t3/dialogue.py": ["_top_snippet_ids"],
}


# ------------------------------------------------------------------------------------------------
# generator
# ------------------------------------------------------------------------------------------------

def _gen_graph(rng: random.Random, gid: str) -> dict:
    n = rng.choice([1, 2, 3, 3, 4, 5])
    ids = rng.sample(NODE_IDS, n)
    nodes = []
    for nid in ids:
        r = rng.random()
        label = None if r < 0.08 else "" if r < 0.12 else rng.choice(WORDS)
        nodes.append([nid, label])
    edges = []
    for i in range(rng.choice([0, 1, 2, 3, 5, 7])):
        s, d = rng.choice(ids), rng.choice(ids)
        w = rng.choice([1.0, 0.5, 0.9, -0.7, 0.25, 1e-7, 0.05, 2.0])
        edges.append([f"{gid}:e{i}", s, d, f2b(w), rng.choice(list(REL))])
    return {"gid": gid, "nodes": nodes, "edges": edges}


def _gen_eps(rng: random.Random, n: int, agent: str) -> List[dict]:
    now = dt.datetime(2025, 9, 1, tzinfo=dt.timezone.utc)
    ids = ["e1", "e10", "e2", "E3", "m1", "b", "e07", "zz"]
    rng.shuffle(ids)
    eps = []
    for i in range(n):
        e: Dict[str, Any] = {"id": ids[i]}
        r = rng.random()
        if r < 0.85:
            e["owner"] = rng.choice([agent, agent, "B", "world", "C"])
        elif r < 0.92:
            e["owner"] = None
        e["text"] = " ".join(rng.choice(WORDS) for _ in range(rng.choice([1, 2, 2, 3, 4])))
        r = rng.random()
        if r < 0.8:
            off = rng.choice([0, 1, 7, 29, 30, 31, 100, 364, 365, 400])
            e["ts"] = (now - dt.timedelta(days=off)).isoformat().replace("+00:00", "Z")
        elif r < 0.87:
            e["ts"] = ""
        elif r < 0.93:
            e["ts"] = None
        e["has_vec"] = rng.random() < 0.93
        r = rng.random()
        if r < 0.6:
            aux: Dict[str, Any] = {}
            if rng.random() < 0.7:
                aux["importance"] = f2b(rng.choice([0.5, 0.0, 1.0, 0.25, 0.75]))
            if rng.random() < 0.5:
                aux["cluster_id"] = rng.choice(["c1", "c2", "c3"])
            e["aux"] = aux
        eps.append(e)
    return eps


def _gen_text(rng: random.Random) -> str:
    r = rng.random()
    if r < 0.06:
        return ""
    if r < 0.1:
        return "  nothing matches here  "
    return " ".join(rng.choice(WORDS + ["the", "of", "APPLE", "Zebra"]) for _ in range(rng.choice([1, 2, 3, 4])))


def _gen_hook(rng: random.Random, graphs: List[dict]) -> Optional[dict]:
    """planner hook: appended EditGraph ops + ProposedDelta list (op_idx points into the final op list)."""
    ids = sorted({n[0] for g in graphs for n in g["nodes"]})
    n_ops = rng.choice([0, 1, 1, 2])
    ops = []
    for _ in range(n_ops):
        k = rng.choice([1, 1, 2, 3])
        sel = sorted(rng.sample(ids, min(k, len(ids))))
        ops.append({"kind": "EditGraph", "ids": sel, "cap": len(sel)})
    deltas = []
    for i in range(rng.choice([0, 1, 2, 3, 4, 6])):
        kind = rng.choice(["node", "node", "edge"])
        tid = ("n:" + rng.choice(ids)) if kind == "node" else "e:" + rng.choice(ids) + "|supports|" + rng.choice(ids)
        val = rng.choice([0.1, -0.2, 0.3, 0.3, 0.5, -0.9, 1.5, 1e-9, 0.05, 0.7, -0.3, 1.0, 0.9])
        op_idx = rng.choice([None, 0, 1, 1, 2, 3])
        deltas.append([kind, tid, "weight", f2b(val), op_idx, rng.choice([None, i])])
    return {"ops": ops, "deltas": deltas}


def gen_case(rng: random.Random, i: int, max_turns: int) -> dict:
    agent = rng.choice(["A", "A", "B", "world"])
    ng = rng.choice([1, 1, 2, 2, 3])
    graphs = [_gen_graph(rng, gid) for gid in ["g:surface", "g:b", "g:c"][:ng]]
    eps = _gen_eps(rng, rng.choice([0, 1, 2, 3, 4, 5, 6, 8, 8]), agent)
    tiers = list(TIERS) if rng.random() < 0.6 else rng.sample(TIERS, rng.choice([1, 2, 3]))
    gel_world = False
    repeat_p = 0.4
    cfg = {
        "t1": {"cache": {"enabled": False}, "queue_budget": rng.choice([300, 300, 40, 3, 1, 5]),
               "radius_cap": rng.choice([4, 4, 1, 2]), "iter_cap": rng.choice([50, 50, 1, 2]),
               "node_budget": rng.choice([1.5, 1.5, 1.0, 0.9])},
        "t2": {"cache": {"enabled": False}, "k_retrieval": rng.choice([1, 2, 3, 4, 8, 10, 10]),
               "sim_threshold": rng.choice([-1.0, -1.0, 0.0, 0.0, 0.05, 0.2, 0.3]),
               "tiers": tiers, "exact_recent_days": rng.choice([30, 30, 1, 7, 365]),
               "clusters_top_m": rng.choice([1, 2, 3, 3]),
               "owner_scope": rng.choice(["any", "any", "agent", "agent", "world"]),
               "residual_cap_per_turn": rng.choice([0, 1, 2, 32, 32]),
               "ranking": {"alpha_sim": rng.choice([1.0, 0.75]), "beta_recency": rng.choice([0.0, 0.2]),
                           "gamma_importance": rng.choice([0.0, 0.05])}},
        "t3": {"max_ops_per_turn": rng.choice([8, 3, 2, 1, 1]), "tokens": rng.choice([256, 256, 3, 5, 1]),
               "max_rag_loops": rng.choice([1, 1, 1, 0]), "backend": "rulebased"},
        "t4": {"enabled": rng.random() < 0.88, "cache": {"enabled": False}, "cache_bust_mode": "none",
               "delta_norm_cap_l2": rng.choice([1.5, 1.5, 0.4, 0.25]),
               "novelty_cap_per_node": rng.choice([0.3, 0.3, 0.1, 1.0, 1.0]),
               "churn_cap_edges": rng.choice([64, 64, 2, 1, 0]),
               "cooldowns": rng.choice([{}, {}, {"EditGraph": 2}, {"EditGraph": 3, "Speak": 1}, {"EditGraph": 0}]),
               "snapshot_every_n_turns": rng.choice([1, 1, 2, 3])},
    }
    if rng.random() < 0.4:
        # planner thresholds from the configuration (validated keys of the shipped configs/config.yaml)
        cfg["t3"]["policy"] = {k: v for k, v in (("tau_high", rng.choice([0.8, 0.5, 0.2, 0.05])),
                                                 ("tau_low", rng.choice([0.4, 0.1, 0.05, 0.0])),
                                                 ("epsilon_edit", rng.choice([0.1, 0.1, 0.0]))) if rng.random() < 0.8}
    if rng.random() < 0.35:
        # GEL on: observe (all T2 hits) + tick (+ merge/split/promotion block) run inside the turn
        maint = rng.random() < 0.5
        cfg["graph"] = {
            "enabled": True,
            "coactivation_threshold": rng.choice([0.0, 0.0, 0.02, 0.1, 0.3]),
            "observe_top_k": rng.choice([1, 2, 3, 3, 64]),
            "pair_cap_per_obs": rng.choice([1, 2, 2048, 2048]),
            "update": {"mode": rng.choice(["additive", "proportional"]), "alpha": rng.choice([0.3, 0.02, 0.6]),
                       "clamp_min": -1.0, "clamp_max": rng.choice([1.0, 0.5])},
            "decay": {"half_life_turns": rng.choice([1, 2, 200]), "floor": rng.choice([0.0, 0.0, 0.05, 0.2])},
        }
        if maint:
            cfg["graph"]["merge"] = {"enabled": rng.random() < 0.8, "min_size": rng.choice([2, 2, 3]), "min_avg_w": rng.choice([0.01, 0.2]),
                                     "max_diameter": rng.choice([1, 2]), "cap_per_turn": rng.choice([1, 1, 4])}
            cfg["graph"]["split"] = {"enabled": rng.random() < 0.5, "weak_edge_thresh": rng.choice([0.05, 0.3]),
                                     "min_component_size": rng.choice([1, 2]), "cap_per_turn": rng.choice([1, 4])}
            cfg["graph"]["promotion"] = {"enabled": rng.random() < 0.6, "label_mode": rng.choice(["lexmin", "concat_k"]),
                                         "topk_label_ids": rng.choice([1, 2, 3]), "attach_weight": rng.choice([0.5, 1.0, -0.3]),
                                         "cap_per_turn": rng.choice([1, 2])}
        cfg["t2"]["sim_threshold"] = rng.choice([-1.0, -1.0, 0.0])     # several hits per turn: pairs to co-activate
        cfg["t2"]["k_retrieval"] = rng.choice([3, 4, 8, 10])
        if rng.random() < 0.7:
            cfg["t2"]["owner_scope"] = "any"
        if len(eps) < 4:
            eps = _gen_eps(rng, rng.choice([4, 5, 6, 8]), agent)
        gel_world = True
    if rng.random() < 0.3:
        # scheduler on with LOGICAL slice budgets (huge wall/quantum: the clock never decides)
        cfg["scheduler"] = {"enabled": True, "policy": rng.choice(["round_robin", "fair_queue"]), "quantum_ms": 10 ** 8,
                            "budgets": {"t1_pops": rng.choice([None, None, 0, 1, 2, 3, 5]),
                                        "t1_iters": rng.choice([None, 0, 1, 1, 2, 50]),
                                        "t2_k": rng.choice([None, 0, 1, 2, 3, 3, 64]),
                                        "t3_ops": rng.choice([None, 1, 1, 2, 3]), "wall_ms": 10 ** 9}}
    quality_world = False
    if rng.random() < (0.6 if gel_world else 0.15):
        # T2 hybrid rerank over the GEL store of the state (edges written by earlier turns' observations)
        quality_world = True
        cfg["t2"]["hybrid"] = {"enabled": True, "use_graph": rng.random() < 0.93, "anchor_top_m": rng.choice([1, 2, 2, 3, 8]),
                               "walk_hops": rng.choice([1, 1, 2, 2]), "edge_threshold": rng.choice([0.0, 0.1, 0.1, 0.5]),
                               "lambda_graph": rng.choice([0.25, 1.0, 1.0, 0.5]), "damping": rng.choice([0.0, 0.5, 1.0]),
                               "degree_norm": rng.choice(["none", "none", "invdeg"]), "max_bonus": rng.choice([0.5, 0.5, 0.1, 2.0]),
                               "k_max": rng.choice([1, 2, 3, 128, 128, 128])}
        if gel_world and rng.random() < 0.7:
            # make the graph evidence count: edges that survive the decay and pass the reranker's threshold
            cfg["graph"]["decay"] = {"half_life_turns": 200, "floor": 0.0}
            cfg["graph"]["update"]["alpha"] = rng.choice([0.3, 0.6])
            cfg["graph"]["coactivation_threshold"] = 0.0
            cfg["graph"]["observe_top_k"] = 64
            cfg["t2"]["hybrid"]["edge_threshold"] = rng.choice([0.0, 0.1])
            cfg["t2"]["hybrid"]["k_max"] = rng.choice([3, 128, 128])
            repeat_p = 0.75
    if rng.random() < 0.25:
        # fusion (BM25 oracle) + MMR (token-set oracle)
        quality_world = True
        cfg["t2"]["quality"] = {"enabled": True, "shadow": False,
                                "lexical": {"bm25_k1": 1.2, "bm25_b": 0.75, "stopwords": rng.choice(["en-basic", "en-basic", "none"])},
                                "fusion": {"mode": "score_interp", "alpha_semantic": rng.choice([0.0, 0.6, 0.6, 1.0, 0.25])},
                                "mmr": {"enabled": rng.random() < 0.6, "lambda": rng.choice([0.0, 0.5, 0.5, 1.0, 0.3]),
                                        "k": rng.choice([None, None, 1, 2, 3])}}
    refl_flag = None
    refl_visible = False
    if rng.random() < 0.25:
        # reflection tail: gate (allow + stashed planner flag), summary over the utterance + T2 snippets, ops cap.
        # The written episodes are owned by the literal "agent" (reflection.py), appended to the memory index and
        # visible to later retrievals under owner_scope "any" — or "agent" when the agent's id is that literal.
        if agent == "world":
            agent = "A"
        mv = rng.random()
        refl_visible = mv < 0.65
        if mv < 0.45:
            cfg["t2"]["owner_scope"] = "any"
        elif mv < 0.65:
            agent = "agent"
            cfg["t2"]["owner_scope"] = "agent"
            for e in eps:
                if e.get("owner") in ("A", "B", "world") and rng.random() < 0.5:
                    e["owner"] = "agent"
        elif mv < 0.8:
            cfg["t2"]["owner_scope"] = "agent"   # agent id is not "agent": the entries stay invisible
        else:
            cfg["t2"]["owner_scope"] = "world"
        if rng.random() < 0.7:
            # make the written entries reachable: their ts is the turn clock (`now_iso` of now_ms = 0, year 1970), so
            # the recency window is opened; low threshold, room in k
            cfg["t2"]["exact_recent_days"] = rng.choice([0, 0, 100000])
            cfg["t2"]["sim_threshold"] = rng.choice([-1.0, -1.0, 0.0])
            cfg["t2"]["k_retrieval"] = rng.choice([4, 8, 10])
            cfg["t2"]["tiers"] = list(TIERS) if rng.random() < 0.7 else ["exact_semantic"]
        cfg["t3"]["allow_reflection"] = rng.random() < 0.85
        cfg["t3"]["reflection"] = {"backend": "rulebased", "summary_tokens": rng.choice([128, 128, 128, 8, 3, 0]),
                                   "topk_snippets": rng.choice([3, 3, 1, 0]), "embed": rng.random() < 0.8, "log": True}
        sc = cfg.setdefault("scheduler", {"enabled": False})
        sc.setdefault("budgets", {})
        sc["budgets"]["ops_reflection"] = rng.choice([5, 5, 5, 1, 1, 0, None])
        sc["budgets"]["time_ms_reflection"] = 10 ** 8
        refl_flag = rng.random() < 0.85
        if rng.random() < 0.3:
            cfg["t4"]["enabled"] = False      # the kill-switch bypass reaches the tail too (also in a dry run)
    caches = rng.random() < 0.5
    if caches:
        # v2: T1 result cache, T2 stage cache and the orchestrator's CacheManager ON (validator defaults for sizes/TTLs)
        cfg["t1"]["cache"] = {"enabled": True}
        # (the T2 stage cache key ignores the GEL store the hybrid reranker reads — C05's finding `t2:state`:
        #  it stays off in worlds where the reranker is on)
        cfg["t2"]["cache"] = {"enabled": True}   # (hybrid worlds too: fix C05_t2_key_hybrid_gel put the GEL digest into the key)
        cfg["t4"]["cache"] = {"enabled": True}
        cfg["t4"]["cache_bust_mode"] = rng.choice(["none", "on-apply", "on-apply"])
    if refl_visible and rng.random() < 0.6:
        # the T2 stage cache ON while the index grows under repeated query texts: its key carries the index version, so
        # the turn after a write must recompute (and see the new entry) instead of serving the stale list
        cfg["t2"]["cache"] = {"enabled": True}   # (hybrid worlds too: fix C05_t2_key_hybrid_gel put the GEL digest into the key)
        repeat_p = 0.85
    meta = None
    if rng.random() < 0.6:
        meta = {"cooldowns": {k: rng.choice([0, 1, 2, 3, "x"]) for k in rng.sample(["EditGraph", "Speak", "Other"],
                                                                                     rng.choice([1, 2]))}}
    nt = rng.randint(1, max_turns)
    if refl_flag is not None and rng.random() < 0.7:
        nt = max(nt, min(3, max_turns))    # later turns that can retrieve what earlier ones wrote
    first = rng.choice([1, 1, 2, 5])
    if meta is not None and rng.random() < 0.5:
        meta["cooldowns"]["EditGraph"] = first + rng.choice([-3, -2, -1, 0, 1])   # last use close to this history
    turns = []
    hot = _gen_hook(rng, graphs)
    for t in range(nt):
        hook = None
        if rng.random() < 0.6:
            hook = _gen_hook(rng, graphs)
            if rng.random() < 0.5 and hot["deltas"]:
                # the same targets again (weights accumulate in the store over the history; clamp at +-1)
                hook["deltas"] = copy.deepcopy(hot["deltas"]) + hook["deltas"][:1]
        text = turns[-1]["text"] if (turns and rng.random() < repeat_p) else _gen_text(rng)   # repeats: cache hits
        turns.append({"text": text, "turn_id": first + t, "dry": rng.random() < (0.25 if caches else (0.12 if refl_flag is not None else 0.07)), "hook": hook})
    # some memories repeat a turn's text (cosine 1.0 when T1 appends no label): high-evidence plans
    if gel_world and turns and turns[0]["text"].strip():
        # a few visible memories close to the first turn's text: positive cosines, pairs to co-activate, edges for the
        # hybrid reranker in later turns
        base = turns[0]["text"].strip()
        for e in eps[: rng.choice([2, 3, 3, 4])]:
            e["text"] = base if rng.random() < 0.6 else base + " " + rng.choice(WORDS)
            e["owner"] = agent
            e["has_vec"] = True
            e["ts"] = "2025-08-30T00:00:00Z"
    for e in (eps[4:] if gel_world else eps):
        if rng.random() < (0.6 if gel_world else 0.3):
            e["text"] = rng.choice(turns)["text"].strip() or e["text"]
    # step 5: process boundaries.  `boot`: the history starts in a fresh process (the boot hook runs on the first turn; the
    # snapshot directory is empty); `restart_at` = k: the process is replaced after k turns — a fresh state/ctx/caches/
    # memory index whose snapshot directory is the one the first process wrote.
    boot = rng.random() < 0.3
    restart_at = None
    if nt >= 2 and rng.random() < 0.5:
        restart_at = rng.randint(1, nt - 1)
    # step 7: several agents alternating on ONE state (owner scopes per turn, per-agent snapshot files, shared store /
    # version / GEL / memory index / T1 + T2 stage caches).  Since the fix `C05_turn_key_context` the orchestrator's
    # turn-level T2 cache key digests the agent too: the cache may stay ON (it is switched off in half of these worlds).
    if nt >= 2 and restart_at is None and rng.random() < 0.3:
        pool = [agent] + rng.sample([a for a in ["A", "B", "C", "agent"] if a != agent], rng.choice([1, 2]))
        for i, t in enumerate(turns):
            t["agent"] = pool[i % len(pool)] if rng.random() < 0.7 else rng.choice(pool)
        if rng.random() < 0.5:
            cfg["t4"]["cache"] = {"enabled": False}
        for e in eps:
            if e.get("owner") is not None and rng.random() < 0.5:
                e["owner"] = rng.choice(pool)
    return {"agent": agent, "graphs": graphs, "eps": eps, "cfg": cfg, "meta": meta, "turns": turns,
            "k_surface": 32, "caches": caches, "refl_flag": refl_flag, "boot": boot, "restart_at": restart_at}


# ------------------------------------------------------------------------------------------------
# the real engine
# ------------------------------------------------------------------------------------------------

def _c11():
    return importlib.import_module("harness.props.c11")


def _c18():
    return importlib.import_module("harness.props.c18")


def _ep_c11(case: dict, e: dict, enc) -> dict:
    """episode in c11's case format (`vec` = the repo adapter's embedding of the text, as float32 values)."""
    d = {k: v for k, v in e.items() if k not in ("has_vec",)}
    d["vec"] = [float(x) for x in enc.encode([e["text"]])[0]] if e.get("has_vec", True) else None
    return d


def _op_json(op: Any) -> dict:
    k = str(getattr(op, "kind", "") or "")
    if k == "Speak":
        return {"kind": k, "intent": str(op.intent), "topic_labels": [str(x) for x in (op.topic_labels or [])],
                "max_tokens": int(op.max_tokens)}
    if k == "EditGraph":
        return {"kind": k, "ids": [str(e.get("id")) for e in (op.edits or [])], "cap": int(op.cap)}
    if k == "RequestRetrieve":
        o = str(op.owner)
        return {"kind": k, "owner": o if o in ("agent", "world", "any") else "other", "k": int(op.k)}
    return {"kind": ""}


def _delta_json(d: Any) -> list:
    return [str(d.target_kind), str(d.target_id), str(d.attr), f2b(float(d.delta)),
            None if d.op_idx is None else int(d.op_idx), None if d.idx is None else int(d.idx)]


def _refs(lst) -> List[dict]:
    return [{"id": str(getattr(r, "id", None)), "owner": str(getattr(r, "owner", "")),
             "score": f2b(float(getattr(r, "score", 0.0))), "text": str(getattr(r, "text", "") or "")} for r in lst]


@contextlib.contextmanager
def _recorders(rec: dict, hook: Optional[dict], world):
    """Recording wrappers (they delegate to the real callables) + the optional planner hook."""
    import clematis.engine.orchestrator as orch
    import clematis.engine.orchestrator.core as ocore
    import clematis.engine.stages.t2.core as t2core
    from clematis.engine.types import EditGraphOp, ProposedDelta

    undo = []

    def patch(obj, name, val):
        had = name in vars(obj)
        old = getattr(obj, name, None)
        setattr(obj, name, val)
        undo.append((obj, name, had, old))

    real_load = ocore.load_latest_snapshot

    def load_rec(ctx, state):
        import json
        body = None
        try:
            # the only candidate file these worlds ever hold (`_pick_latest_snapshot_path`: state_*.json)
            p = world.snap_dir / f"state_{world.agent}.json"
            if p.exists():
                body = importlib.import_module("harness.props.c06").enc(json.loads(p.read_text(encoding="utf-8")))
        except Exception:
            body = {"unreadable": True}
        r = real_load(ctx, state)
        st = state.get("store") if isinstance(state, dict) else None
        rec["boot"] = {"version": state.get("version_etag"), "body": body,
                       "w": [[list(k), f2b(float(v))] for k, v in getattr(st, "w", {}).items()],
                       "gel": _gel_snap(state)}
        return r

    patch(ocore, "load_latest_snapshot", load_rec)

    RealEnc = t2core.BGEAdapter

    class RecEnc(RealEnc):  # type: ignore[misc,valid-type]
        def encode(self, texts):
            rec["q"].extend(str(t) for t in texts)
            return super().encode(texts)

    patch(t2core, "BGEAdapter", RecEnc)

    real_t1 = getattr(orch, "t1_propagate", ocore.t1_propagate)

    def t1_rec(ctx, state, text):
        rec["seq"].append("t1")
        r = real_t1(ctx, state, text)
        rec["deltaIds"] = [str(d.get("id")) for d in r.graph_deltas]
        rec["t1"] = {"pops": int(r.metrics.get("pops", 0)), "iters": int(r.metrics.get("iters", 0)),
                     "props": int(r.metrics.get("propagations", 0))}
        return r

    patch(orch, "t1_propagate", t1_rec)

    real_t2 = getattr(orch, "t2_semantic", ocore.t2_semantic)

    def t2_rec(ctx, state, text, t1):
        rec["seq"].append("t2")
        r = real_t2(ctx, state, text, t1)
        if rec["hits"] is None and rec["nodeIds"] is None:
            # the T2 stage itself (the plan bundle is not built yet); later calls come from rag_once's _retrieve_fn
            rec["stage_called"] = True
            rec["hits"] = _refs(r.retrieved)
            rec["kUsed"] = int(r.metrics.get("k_used", 0))
            rec["residual"] = [str(d.get("id")) for d in r.graph_deltas_residual]
        else:
            rec["hits2"] = [{"id": str(getattr(h, "id", "") or ""), "score": f2b(float(getattr(h, "score", 0.0) or 0.0))}
                            for h in r.retrieved]
        return r

    patch(orch, "t2_semantic", t2_rec)

    real_mpb = ocore.make_plan_bundle

    def mpb_rec(ctx, state, t1, t2):
        b = real_mpb(ctx, state, t1, t2)
        if rec["nodeIds"] is None:
            rec["nodeIds"] = [str(n.get("id")) for n in b["t1"]["touched_nodes"]]
            rec["sMax"] = f2b(float((b["t2"]["metrics"].get("sim_stats") or {}).get("max", 0.0)))
            rec["scores"] = [f2b(float(h.score)) for h in (getattr(t2, "retrieved", []) or [])]
        return b

    patch(ocore, "make_plan_bundle", mpb_rec)

    real_delib = ocore.deliberate

    def delib_rec(bundle):
        p = real_delib(bundle)
        rec["ops0"] = [_op_json(o) for o in p.ops]
        return p

    patch(ocore, "deliberate", delib_rec)

    if hook is not None:
        def hook_fn(ctx, state, bundle):
            p = real_delib(bundle)
            rec["ops0"] = [_op_json(o) for o in p.ops]
            for o in hook["ops"]:
                p.ops.append(EditGraphOp(kind="EditGraph", edits=[{"op": "upsert_node", "id": i} for i in o["ids"]],
                                         cap=int(o["cap"])))
            p.deltas = [ProposedDelta(target_kind=d[0], target_id=d[1], attr=d[2], delta=b2f(d[3]), op_idx=d[4],
                                      idx=d[5]) for d in hook["deltas"]]
            return p
        patch(orch, "t3_deliberate", hook_fn)

    real_speak = ocore.speak

    def speak_rec(dialog_bundle, plan):
        rec["ops"] = [_op_json(o) for o in (getattr(plan, "ops", []) or [])]
        return real_speak(dialog_bundle, plan)

    patch(ocore, "speak", speak_rec)

    real_t4 = ocore.t4_filter

    def t4_rec(ctx, state, t1, t2, plan, utter):
        rec["seq"].append("t4")
        r = real_t4(ctx, state, t1, t2, plan, utter)
        rec["t4"] = {"deltas": [_delta_json(d) for d in (getattr(plan, "deltas", []) or [])],
                     "ops": [str(getattr(o, "kind", "") or "") for o in (getattr(plan, "ops", []) or [])],
                     "approved": [_delta_json(d) for d in r.approved_deltas],
                     "rejected": [[str(o.kind), int(o.idx)] for o in r.rejected_ops]}
        return r

    patch(ocore, "t4_filter", t4_rec)

    import clematis.engine.stages.t2.quality_ops as qops
    real_bm25 = qops._bm25_scores

    def bm25_rec(query, items, *a, **k):
        out = real_bm25(query, items, *a, **k)
        try:
            rec["lex"][str(query)] = {str(i): f2b(float(v)) for i, v in out[0].items()}
        except Exception:
            pass
        return out

    patch(qops, "_bm25_scores", bm25_rec)

    import clematis.engine.stages.t2.quality as qual
    real_rr, real_aq = qual.rerank_with_gel, t2core._apply_quality

    def rr_rec(ctx, state, items):
        out = real_rr(ctx, state, items)
        hm = out[1] if isinstance(out[1], dict) else {}
        rec["hyb_calls"].append({"same_state": state is world.state,
                                 "info": {k: hm[k] for k in ("anchor_top_m", "walk_hops", "edge_threshold", "lambda_graph", "damping",
                                                             "degree_norm", "k_max", "k_considered", "k_reordered") if k in hm},
                                 "used": bool(hm.get("hybrid_used", False)),
                                 "hin": [str(getattr(r, "id", None)) for r in items],
                                 "hout": [str(getattr(r, "id", None)) for r in out[0]]})
        return out

    def aq_rec(ctx, state, retrieved, q_text, cfg_root, cfg_t2):
        rec["aq_q"].append(str(q_text))
        return real_aq(ctx, state, retrieved, q_text, cfg_root, cfg_t2)

    patch(qual, "rerank_with_gel", rr_rec)
    patch(t2core, "_apply_quality", aq_rec)

    rmod = importlib.import_module("clematis.engine.stages.t3.reflect")
    real_reflect = rmod.reflect

    def reflect_rec(bundle, cfg, embedder=None):
        rec["seq"].append("reflect")
        rec["refl"] = {"utter": str(getattr(bundle, "utter", "")), "snippets": [str(x) for x in (getattr(bundle, "snippets", []) or [])]}
        r = real_reflect(bundle, cfg, embedder=embedder)
        rec["refl"]["summary"] = str(getattr(r, "summary", ""))
        rec["refl"]["entries"] = [str(e.get("text", "")) if isinstance(e, dict) else str(e) for e in (getattr(r, "memory_entries", []) or [])]
        return r

    patch(rmod, "reflect", reflect_rec)

    c18 = importlib.import_module("harness.props.c18")
    real_obs, real_tick = ocore.gel_observe, ocore.gel_tick
    real_mc, real_sc = ocore.gel_merge_candidates, ocore.gel_split_candidates

    def obs_rec(ctx, state, items, *a, **k):
        its = list(items)
        rec["seq"].append("gel_observe")
        g = {"pre": c18.snap(state), "turn": k.get("turn"), "agent": k.get("agent"),
             "items": [[str(getattr(h, "id", None)), f2b(float(getattr(h, "score", 0.0)))] for h in its]}
        r = real_obs(ctx, state, its, *a, **k)
        g["post"] = c18.snap(state)
        g["out"] = {kk: r.get(kk) for kk in ("k_in", "k_used", "pairs_updated")}
        rec["gel_obs"] = g
        return r

    def tick_rec(ctx, state, *a, **k):
        rec["seq"].append("gel_tick")
        g = {"pre": c18.snap(state), "turn": k.get("turn"), "dt": k.get("decay_dt")}
        r = real_tick(ctx, state, *a, **k)
        g["post"] = c18.snap(state)
        g["out"] = {"decayed": r.get("decayed_edges"), "dropped": r.get("dropped_edges")}
        rec["gel_tick"] = g
        return r

    def mc_rec(ctx, state):
        r = real_mc(ctx, state)
        rec["merges"] = [dict(c18.merge_rec(x), avg_w=f2b(float(x.get("avg_w", 0.0)))) for x in r]
        return r

    def sc_rec(ctx, state):
        r = real_sc(ctx, state)
        rec["splits"] = [c18.split_rec(x) for x in r]
        return r

    patch(ocore, "gel_observe", obs_rec)
    patch(ocore, "gel_tick", tick_rec)
    patch(ocore, "gel_merge_candidates", mc_rec)
    patch(ocore, "gel_split_candidates", sc_rec)

    store = world.store
    real_apply = store.apply_deltas

    def store_rec(graph_id, deltas):
        rec["seq"].append("store")
        rec["calls"].append([_delta_json(d) for d in deltas])
        rec["graphIds"].append(str(graph_id))
        return real_apply(graph_id, deltas)

    store.apply_deltas = store_rec
    try:
        yield
    finally:
        try:
            del store.apply_deltas
        except Exception:
            pass
        for obj, name, had, old in reversed(undo):
            if had:
                setattr(obj, name, old)
            else:
                try:
                    delattr(obj, name)
                except AttributeError:
                    pass


def _ckey(d: list) -> str:
    return f"{d[0]}:{d[1]}:{d[2]}"


def build_world(scratch, case: dict, snap_files: Optional[dict] = None, booted: Optional[bool] = None):
    from clematis.adapters.embeddings import BGEAdapter
    from clematis.graph.store import Node, Edge
    c11 = _c11()
    enc = BGEAdapter(dim=int(case.get("k_surface", 32)))
    eps11 = [_ep_c11(case, e, enc) for e in case["eps"]]
    spec = {
        "cfg": copy.deepcopy(case["cfg"]), "agent": case["agent"], "now": NOW, "now_ms": 0,
        "boot_loaded": (not case.get("boot")) if booted is None else booted,
        "snap_files": dict(snap_files or {}),
        "graph": {"nodes": [], "edges": []},
        "episodes": [c11._ep_dict(e) for e in eps11],
        "state_extra": dict(({"meta": copy.deepcopy(case["meta"])} if case.get("meta") is not None else {}),
                            **({"_planner_reflection_flag": True} if case.get("refl_flag") else {})),
    }
    w = TR.build_world(scratch, spec)
    st = w.store
    active = []
    for g in case["graphs"]:
        st.ensure(g["gid"])
        st.upsert_nodes(g["gid"], [Node(id=n[0], label=n[1]) for n in g["nodes"]])
        if g["edges"]:
            st.upsert_edges(g["gid"], [Edge(id=e[0], src=e[1], dst=e[2], weight=b2f(e[3]), rel=e[4]) for e in g["edges"]])
        active.append(g["gid"])
    w.state["active_graphs"] = active
    return w, eps11


def _gel_snap(state):
    """c18's view of the GEL store + the schema tag of its meta block (the boot hook installs "v1.1" containers, the
    lazily created store says "v1"; c18 flags the former as unexpected because C18's worlds never boot)."""
    c18 = _c18()
    g = c18.snap(state)
    if g is None:
        return None
    meta = (c18.get_store(state) or {}).get("meta") or {}
    g["schema"] = meta.get("schema")
    if meta.get("promotions") in ([], None) and meta.get("schema") in ("v1", "v1.1"):
        g.pop("unexpected_meta", None)
    return g


def _mem_raw(w, n0: int) -> List[dict]:
    """the episodes the memory index holds beyond the initial ones (what `write_reflection_entries` added), in index order"""
    idx = w.state.get("mem_index")
    eps = getattr(idx, "_eps", None) or []
    return list(eps[n0:])


def _mem_c11(e: dict) -> dict:
    """a written episode in c11's case format"""
    d = {"id": e.get("id"), "text": e.get("text"), "tags": list(e.get("tags") or [])}
    if "owner" in e:
        d["owner"] = e["owner"]
    if "ts" in e:
        d["ts"] = e["ts"]
    v = e.get("vec_full")
    d["vec"] = None if v is None else [float(x) for x in v]
    return d


def _mem_view(e: dict) -> dict:
    return {"id": e.get("id"), "owner": e.get("owner"), "ts": e.get("ts"), "text": e.get("text"),
            "tags": list(e.get("tags") or []), "kind": e.get("kind"), "vec": e.get("vec_full") is not None,
            "keys": list(e.keys())}


def _agent_of(case: dict, t: dict) -> str:
    return str(t.get("agent") or case["agent"])


def _retok(vocab: Dict[str, int], case11: dict, eps_req: List[dict]) -> List[dict]:
    """c11 numbers the MMR tokens per request; a history whose index grows needs ONE numbering (the initial episodes are
    sent once, with the first turn): re-encode the token sets of a turn's episodes against a history-wide vocabulary."""
    from clematis.engine.stages.t2.quality_norm import tokenize
    from clematis.engine.stages.t2.quality_ops import _STOP_EN_BASIC
    stop = _STOP_EN_BASIC if case11["q"]["stopwords"] == "en-basic" else None
    for e in eps_req:
        ws = sorted(set(tokenize(e["text"], stopset=stop))) if e.get("text") else []
        e["toks"] = sorted(vocab.setdefault(w_, len(vocab)) for w_ in ws)
    return eps_req


JUNK_MS = 7.25   # stands in for the measured values CI normalisation zeroes: the model must not let them through


def _raw_emitted(w, run) -> List[list]:
    """Every line the turn appended to the log files, as written (CI identity normalisation applied by the repo's
    `append_jsonl`), in EMISSION order: [file name, record].  Records keep their key order (json.loads -> dict order).
    The apply record's snapshot path is cut to its basename (the directory is the rig's scratch `snapshot_dir`)."""
    import json, os
    lines: Dict[str, List[dict]] = {}
    for p in sorted(w.log_dir.glob("*.jsonl")):
        lines[p.name[:-6]] = [json.loads(l) for l in p.read_text(encoding="utf-8").splitlines() if l.strip()]
    out = []
    for sname, _ in run.emitted:
        q = lines.get(sname) or []
        if not q:
            out.append([sname + ".jsonl", {"__missing_line__": True}])
            continue
        d = q.pop(0)
        if sname == "apply" and isinstance(d.get("snapshot"), str):
            d["snapshot"] = os.path.basename(d["snapshot"])
        out.append([sname + ".jsonl", d])
    for sname, q in lines.items():
        for d in q:
            out.append([sname + ".jsonl", dict(d, __unexpected_line__=True)])
    return out


def _clock_of(raw: List[list]) -> dict:
    """the measured wall-clock values the records of the turn carry (oracles of the log model); the ones the identity
    normalisation zeroes are not observable: JUNK_MS stands in for them"""
    ck = {"t1": JUNK_MS, "t2": JUNK_MS, "t4": JUNK_MS, "apply": JUNK_MS, "total": JUNK_MS, "refl": JUNK_MS,
          "plan": 0.0, "rag": 0.0, "speak": 0.0, "gelObs": 0.0, "gelTick": 0.0, "gelMaint": 0.0, "consumedMs": 0}
    for f, d in raw:
        if f == "t3.jsonl":
            ck["plan"], ck["rag"], ck["speak"] = float(d.get("ms_plan", 0.0)), float(d.get("ms_rag", 0.0)), float(d.get("ms_speak", 0.0))
        elif f == "gel.jsonl":
            key = "gelObs" if d.get("event") == "observe_retrieval" else "gelTick" if d.get("event") == "edge_decay" else "gelMaint"
            ck[key] = float(d.get("ms", 0.0))
        elif f == "scheduler.jsonl":
            ck["consumedMs"] = int((d.get("consumed") or {}).get("ms", 0))
    return {k: (v if k == "consumedMs" else f2b(float(v))) for k, v in ck.items()}


def _logs_of_emitted(em: List[list]) -> Dict[str, List[dict]]:
    """the per-stream canonical records (volatile keys dropped, as the rig's `canon_record` does) of the model's log
    stream — what the stage-level comparisons and monitors of v1-v7 read"""
    c06 = importlib.import_module("harness.props.c06")
    out: Dict[str, List[dict]] = {}
    for f, wire in em:
        d = c06.dec(wire)
        d = {k: v for k, v in d.items() if k not in TR.VOLATILE_KEYS}
        if f == "scheduler.jsonl" and isinstance(d.get("consumed"), dict):
            d["consumed"] = {k: v for k, v in d["consumed"].items() if k != "ms"}
        out.setdefault(f[:-6], []).append(_canon(d))
    return out


def _gel_key_of_snap(g) -> Any:
    """what the turn-cache key digests of the GEL store: absent / the edge records, order-insensitive"""
    if g is None:
        return "absent"
    return tuple(sorted((e["k"], e["src"], e["dst"], e["w"], e["concept"], str(e["coact"]), str(e["lst"])) for e in g.get("edges", [])))


def _gel_key(state) -> Any:
    return _gel_key_of_snap(_gel_snap(state))


def _snap_stat(w):
    p = w.snap_dir / f"state_{w.agent}.json"
    try:
        st = p.stat()
        return (st.st_ino, st.st_mtime_ns, st.st_size)
    except OSError:
        return None


def _snap_written(w, before) -> Optional[dict]:
    """The snapshot body the turn wrote (wire encoding, key order as in the file), None when the file was not rewritten.
    `write_snapshot` replaces the file atomically: a rewrite changes (inode, mtime)."""
    import json
    after = _snap_stat(w)
    if after is None or after == before:
        return None
    p = w.snap_dir / f"state_{w.agent}.json"
    try:
        return {"body": importlib.import_module("harness.props.c06").enc(json.loads(p.read_text(encoding="utf-8")))}
    except Exception as e:
        return {"unreadable": f"{type(e).__name__}: {str(e)[:120]}"}


def _restart_world(scratch, case: dict, w):
    """A fresh process on the snapshot directory the previous process left behind (every file, byte for byte)."""
    import base64
    from pathlib import Path
    files = {p.name: {"b64": base64.b64encode(p.read_bytes()).decode()} for p in sorted(w.snap_dir.iterdir()) if p.is_file()}
    d = Path(scratch) / "restart"
    d.mkdir(parents=True, exist_ok=True)
    return build_world(d, case, snap_files=files, booted=False)


def run_real(scratch, case: dict) -> dict:
    """Drive the real engine over the whole history; returns observations per turn and the oracles."""
    import clematis.memory.index as mindex
    from clematis.adapters.embeddings import BGEAdapter
    c11 = _c11()
    w, eps11 = build_world(scratch, case)
    cfgp = w.cfg_plain
    enc = BGEAdapter(dim=int(cfgp.get("k_surface", 32)))
    t2c = cfgp.get("t2", {})
    out_turns = []
    lex_seen: Dict[str, dict] = {}
    vocab: Dict[str, int] = {}     # MMR token codes, stable over the whole history (the index grows: new words, new codes)
    for ti, t in enumerate(case["turns"]):
        if case.get("restart_at") is not None and ti == case["restart_at"]:
            w, eps11 = _restart_world(scratch, case, w)
            lex_seen = {}
        ag = _agent_of(case, t)
        w.agent = ag            # the rig builds the turn's ctx (`agent_id`) and names the snapshot file from this
        rec: Dict[str, Any] = {"boot": None, "q": [], "deltaIds": [], "t1": {"pops": 0, "iters": 0, "props": 0}, "hits": None,
                               "kUsed": 0, "residual": [], "scores": [], "nodeIds": None, "sMax": f2b(0.0),
                               "ops0": None, "ops": None, "t4": None, "calls": [], "graphIds": [], "hits2": None, "stage_called": False, "seq": [], "gel_obs": None,
                               "gel_tick": None, "merges": [], "splits": [], "lex": {}, "hyb_calls": [], "aq_q": [], "refl": None}
        w.spec["ctx_extra"] = {"_dry_run_until_t4": True} if t.get("dry") else {}
        ver_before = w.state.get("version_etag")
        snap_before = _snap_stat(w)
        gel_pre = _gel_key(w.state)
        mem_raw_before = _mem_raw(w, len(case["eps"]))
        mem11 = [_mem_c11(e) for e in mem_raw_before]
        with _recorders(rec, t.get("hook"), w):
            run = TR.run_turn(w, t["text"], t["turn_id"])
        snap_now = _snap_written(w, snap_before)
        raw_log = _raw_emitted(w, run)
        gel_raw = None
        if snap_now is not None and w.state.get("graph") is not None:
            try:
                gel_raw = importlib.import_module("harness.props.c06").enc(copy.deepcopy(w.state.get("graph")))
            except Exception:
                gel_raw = None
        # oracles for exactly the texts the real encoder saw
        queries = []
        for q in dict.fromkeys(rec["q"]):
            qv = enc.encode([q])[0]
            case11 = _case11(case, cfgp, eps11 + mem11, ag)
            req = c11.build_request(case11, lambda raw, qv=qv: float(mindex._cosine(qv, _np().frombuffer(raw, dtype=_np().float32))), {})
            # (a T2 stage-cache hit serves the result without calling BM25 again: the scores measured for this query
            #  text earlier in the history are the oracle — the memory index does not change)
            # (BM25 runs over the candidates of the query's owner — the agent under owner_scope "agent", else scope-wide —
            #  which is also what the stage-cache key carries)
            okey = ag if str(t2c.get("owner_scope", "any")).lower() == "agent" else str(t2c.get("owner_scope", "any")).lower()
            lex_seen.update({(okey, k): v for k, v in rec["lex"].items()})
            queries.append({"q": q, "cos": [e["cos"] for e in req["eps"]], "cscore": req["cfg"]["cscore"],
                            "lex": [[k, v] for k, v in (lex_seen.get((okey, q)) or {}).items()]})
            rec.setdefault("_h", req["h"])
            rec.setdefault("_q", req["q"])
            rec.setdefault("_eps_req", req["eps"])
            rec.setdefault("_nowUs", req["cfg"]["nowUs"])
        if "_eps_req" not in rec:
            req = c11.build_request(_case11(case, cfgp, eps11 + mem11, ag), lambda raw: 0.0, {})
            rec["_eps_req"], rec["_nowUs"] = req["eps"], req["cfg"]["nowUs"]
            rec["_h"], rec["_q"] = req["h"], req["q"]
        out_turns.append({
            "raised": run.raised, "line": (run.result or {}).get("line"),
            "logs": {s: run.logs.get(s, []) for s in STREAMS},
            "t3_plan": run.logs.get("t3_plan", []),
            "state": {"w": run.state.get("store_w"), "version": run.state.get("version_etag")},
            "gelLogs": run.logs.get("gel", []), "gel": _gel_snap(w.state),
            "schedLogs": _sched_logs(run),
            "reflLogs": run.logs.get("t3_reflection", []), "memN": (run.state.get("mem_n") or 0) - len(case["eps"]),
            # (a booting turn starts from the version the boot hook restored)
            "verBefore": ver_before if rec["boot"] is None else rec["boot"]["version"], "rec": rec,
            "storeW": [[list(k), f2b(float(v))] for k, v in getattr(w.store, "w", {}).items()], "gelRaw": gel_raw,
            "snapFiles": list(run.state.get("snap_files") or []),
            "gelKeyBefore": (None if not (cfgp.get("t2", {}).get("hybrid") or {}).get("enabled") else
                             (_gel_key_of_snap(rec["boot"]["gel"]) if rec["boot"] is not None else gel_pre)),
            # (ordered wire encoding: key order survives any later canonicalisation of the observation)
            "rawLog": [[f_, importlib.import_module("harness.props.c06").enc(d_)] for f_, d_ in raw_log],
            "clock": _clock_of(raw_log),
            "memBefore": [_mem_view(e) for e in mem_raw_before],
            "memAfter": [_mem_view(e) for e in _mem_raw(w, len(case["eps"]))],
            "memEps": _retok(vocab, _case11(case, cfgp, []), list(rec.get("_eps_req", [])))[len(case["eps"]):], "queries": queries, "snap": snap_now,
        })
    return {"turns": out_turns, "cfg_plain": cfgp, "snap": f"state_{case['agent']}.json"}


def _sched_logs(run) -> List[dict]:
    out = []
    for r in run.logs.get("scheduler", []):
        r = dict(r)
        if isinstance(r.get("consumed"), dict):
            r["consumed"] = {k: v for k, v in r["consumed"].items() if k != "ms"}   # measured elapsed time
        out.append(r)
    return out


def _orch_hit_turns(real: dict) -> List[int]:
    """turns whose T2 result was served by the orchestrator's turn-level cache (the t2 record says so)"""
    return [i for i, t in enumerate(real.get("turns", []))
            if not t["raised"] and t["logs"].get("t2") and bool(t["logs"]["t2"][0].get("cache_hit"))]


_T2_RESULT_KEYS = ("k_returned", "k_used", "sim_stats", "score_stats", "tier_sequence")


def _transp_view(t: dict) -> dict:
    """what a turn shows of its T2 result and what it leaves behind — nothing that mentions a cache"""
    l2 = (t["logs"].get("t2") or [{}])[0]
    return {"line": t["line"], "state": t["state"], "gel": t["gel"], "memAfter": t.get("memAfter"), "memN": t["memN"],
            "t2": {k: l2.get(k) for k in _T2_RESULT_KEYS if k in l2},
            "yield": [[r_.get("stage_end"), r_.get("reason")] for r_ in (t.get("schedLogs") or [])]}


def run_real_plain(scratch, case: dict) -> List[dict]:
    """The same history once more on a freshly built world, without recorders: what C01 says must be identical."""
    w, _ = build_world(scratch, case)
    out = []
    for ti, t in enumerate(case["turns"]):
        if case.get("restart_at") is not None and ti == case["restart_at"]:
            w, _ = _restart_world(scratch, case, w)
        w.agent = _agent_of(case, t)
        snap_before = _snap_stat(w)
        w.spec["ctx_extra"] = {"_dry_run_until_t4": True} if t.get("dry") else {}
        hook = t.get("hook")
        with _recorders({"boot": None, "q": [], "deltaIds": [], "t1": {}, "hits": None, "kUsed": 0, "residual": [], "scores": [],
                         "nodeIds": None, "sMax": f2b(0.0), "ops0": None, "ops": None, "t4": None, "calls": [],
                         "graphIds": [], "hits2": None, "stage_called": False, "seq": [], "gel_obs": None,
                         "gel_tick": None, "merges": [], "splits": [], "lex": {}, "hyb_calls": [], "aq_q": [], "refl": None}, hook, w) if hook is not None \
                else contextlib.nullcontext():
            run = TR.run_turn(w, t["text"], t["turn_id"])
        out.append({"raised": run.raised, "line": (run.result or {}).get("line"),
                    "logs": {s: run.logs.get(s, []) for s in STREAMS},
                    "state": {"w": run.state.get("store_w"), "version": run.state.get("version_etag")},
                    "gelLogs": run.logs.get("gel", []), "gel": _gel_snap(w.state), "schedLogs": _sched_logs(run),
                    "reflLogs": run.logs.get("t3_reflection", []), "memN": (run.state.get("mem_n") or 0) - len(case["eps"]),
                    "snap": _snap_written(w, snap_before),
                    "memAfter": [_mem_view(e) for e in _mem_raw(w, len(case["eps"]))]})
    return out


def _np():
    import numpy as np
    return np


def _case11(case: dict, cfgp: dict, eps11: List[dict], agent: Optional[str] = None) -> dict:
    t2 = cfgp.get("t2", {})
    rk = t2.get("ranking", {}) or {}
    hy = t2.get("hybrid", {}) or {}
    ql = t2.get("quality", {}) or {}
    return {
        "now": NOW, "scope": str(t2.get("owner_scope", "any")), "agent": agent or case["agent"],
        "k": int(t2.get("k_retrieval", 64)), "theta": f2b(float(t2.get("sim_threshold", 0.3))),
        "days": int(t2.get("exact_recent_days", 30)), "topM": int(t2.get("clusters_top_m", 3)),
        "tiers": list(t2.get("tiers", TIERS)),
        "rank": [f2b(float(rk.get("alpha_sim", 0.75))), f2b(float(rk.get("beta_recency", 0.2))),
                 f2b(float(rk.get("gamma_importance", 0.05)))],
        "eps": eps11,
        "hyb": {"enabled": bool(hy.get("enabled", False)), "use_graph": bool(hy.get("use_graph", True)),
                "anchor_top_m": int(hy.get("anchor_top_m", 8)), "walk_hops": int(hy.get("walk_hops", 1)),
                "edge_threshold": f2b(float(hy.get("edge_threshold", 0.10))), "lambda_graph": f2b(float(hy.get("lambda_graph", 0.25))),
                "damping": f2b(float(hy.get("damping", 0.50))), "degree_norm": str(hy.get("degree_norm", "none")),
                "max_bonus": f2b(float(hy.get("max_bonus", 0.50))), "k_max": int(hy.get("k_max", 128))},
        "edges": [],
        "q": {"enabled": bool(ql.get("enabled", False)), "mode": str((ql.get("fusion") or {}).get("mode", "score_interp")),
              "alpha_semantic": f2b(float((ql.get("fusion") or {}).get("alpha_semantic", 0.6))),
              "mmr_enabled": bool((ql.get("mmr") or {}).get("enabled", False)),
              "mmr_lambda": f2b(float((ql.get("mmr") or {}).get("lambda", 0.5))),
              "mmr_k": ((ql.get("mmr") or {}).get("k") if isinstance((ql.get("mmr") or {}).get("k"), int) else None),
              "stopwords": str((ql.get("lexical") or {}).get("stopwords", "en-basic"))},
        "faults": {"hybrid": False, "fuse": False, "mmr1": False, "mmr2": False},
        "t2k": None, "cap": int(t2.get("residual_cap_per_turn", 32)), "graphs": [], "active": [],
    }


# ------------------------------------------------------------------------------------------------
# model request
# ------------------------------------------------------------------------------------------------

def _t1_cfg_json(cfgp: dict) -> dict:
    from clematis.engine.stages import t1 as t1mod
    t = cfgp.get("t1", {}) or {}
    perf = cfgp.get("perf") or {}

    def fb(v):
        return None if v is None else f2b(float(v))

    decay = None
    if t.get("decay"):
        d = t["decay"]
        decay = {"attn_quad": d.get("mode", "exp_floor") == "attn_quad", "rate": fb(d.get("rate")),
                 "floor": fb(d.get("floor")), "alpha": fb(d.get("alpha"))}
    em = None
    if "edge_type_mult" in t:
        em = [[REL[k], f2b(float(v))] for k, v in t["edge_type_mult"].items() if k in REL]
    return {
        "queue_budget": t.get("queue_budget"), "node_budget": fb(t.get("node_budget")),
        "radius_cap": t.get("radius_cap"), "iter_cap": t.get("iter_cap"), "iter_cap_layers": t.get("iter_cap_layers"),
        "relax_cap": t.get("relax_cap"), "slice_iters": None, "slice_pops": None,
        "perf_enabled": bool(perf.get("enabled", False)),
        "metrics_enabled": bool((perf.get("metrics") or {}).get("report_memory", False)),
        "frontier": 0, "visited": 0, "dedupe": 0, "decay": decay, "edge_mult": em,
        "eps": f2b(float(getattr(t1mod, "EPS", 1e-6))),
        "cache_on": bool((t.get("cache", {}) or {}).get("enabled", True)),
    }


def build_request(case: dict, real: dict, route: str) -> dict:
    from clematis.engine.stages.t3 import policy as pol
    cfgp = real["cfg_plain"]
    t2, t3, t4 = cfgp.get("t2", {}), cfgp.get("t3", {}), cfgp.get("t4", {})
    graph = cfgp.get("graph") or {}
    rk = t2.get("ranking", {}) or {}
    scope_raw = str(t2.get("owner_scope", "any"))
    scope_l = scope_raw.lower()
    first = real["turns"][0]["rec"] if real["turns"] else {}
    eps_req = list(first.get("_eps_req", []))[:len(case["eps"])]
    meta = case.get("meta") or {}
    last = [[k, v if isinstance(v, int) and not isinstance(v, bool) else None]
            for k, v in (meta.get("cooldowns") or {}).items()]
    world = {
        "graphs": [{"gid": g["gid"], "nodes": [[n[0], n[1] if n[1] else None] for n in g["nodes"]],
                    "edges": [[e[1], e[2], e[3], REL[e[4]]] for e in g["edges"]]} for g in case["graphs"]],
        "eps": eps_req, "last": last, "agent": case["agent"], "reflFlag": bool(case.get("refl_flag")),
    }
    cfg = {
        "t1": _t1_cfg_json(cfgp),
        "scope": 1 if scope_l == "agent" else 2 if scope_l == "world" else 0,
        "ownerRaw": {"agent": 0, "world": 1, "any": 2}.get(scope_raw, 3),
        "k": int(t2.get("k_retrieval", 64)), "theta": f2b(float(t2.get("sim_threshold", 0.3))),
        "days": int(t2.get("exact_recent_days", 30)), "topM": int(t2.get("clusters_top_m", 3)),
        "tiers": [TIERS.index(x) if x in TIERS else 3 for x in t2.get("tiers", TIERS)],
        "alpha": f2b(float(rk.get("alpha_sim", 0.75))), "beta": f2b(float(rk.get("beta_recency", 0.2))),
        "gamma": f2b(float(rk.get("gamma_importance", 0.05))),
        "residualCap": int(t2.get("residual_cap_per_turn", 32)),
        "t3Enabled": bool(t3.get("enabled", t3.get("allow", True))) if ("enabled" in t3 or "allow" in t3) else True,
        "maxOps": int(t3.get("max_ops_per_turn", 3)), "tokens": int(t3.get("tokens", 256)),
        "maxRagLoops": int(t3.get("max_rag_loops", 1)),
        # `_policy_thresholds`: t3.policy of the configuration (via the bundle's cfg snapshot), else the defaults
        "tauHigh": f2b(float((t3.get("policy") or {}).get("tau_high", pol._DEFAULT_TAU_HIGH))),
        "tauLow": f2b(float((t3.get("policy") or {}).get("tau_low", pol._DEFAULT_TAU_LOW))),
        "epsEdit": f2b(float((t3.get("policy") or {}).get("epsilon_edit", pol._DEFAULT_EPS_EDIT))),
        "t4Enabled": bool(t4.get("enabled", True)),
        "capL2": f2b(float(t4.get("delta_norm_cap_l2", 1.5))), "capNov": f2b(float(t4.get("novelty_cap_per_node", 0.3))),
        "churn": int(t4.get("churn_cap_edges", 64)),
        "cooldowns": [[k, int(v)] for k, v in (t4.get("cooldowns") or {}).items()],
        "every": int(t4.get("snapshot_every_n_turns", 1)),
        "bounds": importlib.import_module("harness.props.c06").bounds_req(cfgp),
        "wmin": f2b(-1.0), "wmax": f2b(1.0),
        "t2CacheOn": bool((t2.get("cache", {}) or {}).get("enabled", True)),
        "orchCacheOn": bool((t4.get("cache", {}) or {}).get("enabled", True)),
        "bust": str(t4.get("cache_bust_mode") or "none") == "on-apply",
        "gel": _c18().model_cfg_json(_c18().model_of(graph)),
        "doMerge": bool((graph.get("merge") or {}).get("enabled", False)),
        "doSplit": bool((graph.get("split") or {}).get("enabled", False)),
        "doPromo": bool((graph.get("promotion") or {}).get("enabled", False)),
        "capMerge": int((graph.get("merge") or {}).get("cap_per_turn", 4)),
        "capSplit": int((graph.get("split") or {}).get("cap_per_turn", 4)),
        "capPromo": int((graph.get("promotion") or {}).get("cap_per_turn", 2)),
        "sched": _derive_budgets(cfgp),
        "refl": _refl_cfg(cfgp),
        "hyb": dict(first.get("_h") or {}, edges=[], fail=False),
        "qual": dict(first.get("_q") or {}, lex=[], failFuse=False, failMmr1=False, failMmr2=False),
    }
    turns = []
    for t, rt in zip(case["turns"], real["turns"]):
        hook = t.get("hook")
        turns.append({
            "text": t["text"], "turnId": int(t["turn_id"]), "dryRun": bool(t.get("dry")), "ctxText": "",
            "hook": hook is not None, "hookOps": (hook or {}).get("ops", []), "hookDeltas": (hook or {}).get("deltas", []),
            "agent": t.get("agent"), "clock": rt.get("clock", {}),
            "orc": {"queries": rt["queries"], "nowUs": rt["rec"].get("_nowUs", 0),
                    "merges": rt["rec"].get("merges", []), "splits": rt["rec"].get("splits", []),
                    "memEps": rt.get("memEps", [])},
        })
    # canonical records are captured AFTER the repo's identity normalisation (CI=true), which drops `now` from every
    # stream (C16_normalize_now_dropped): the expected records carry no `now`
    t3c = cfgp.get("t3", {}) or {}
    echo = {"agent": case["agent"], "now": None, "nowIso": dt.datetime.fromtimestamp(0, tz=dt.timezone.utc).isoformat(),
            "logNow": NOW, "ci": True, "policyBackend": str(t3c.get("backend", "rulebased")),
            "dlgTopK": int(((t3c.get("dialogue") or {}).get("include_top_k_snippets", 2)) or 2), "owner_scope": scope_l, "snapName": real["snap"],
            "gelMode": str((graph.get("update") or {}).get("mode", "additive")), "gelNow": NOW,
            "policy": str((cfgp.get("scheduler") or {}).get("policy", "round_robin")),
            "degreeNorm": str((t2.get("hybrid") or {}).get("degree_norm", "none"))}
    req = {"c": route, "world": world, "cfg": cfg, "state": {"w": [], "ver": 0}, "turns": turns, "echo": echo}
    if case.get("boot"):
        req["boot"] = {"body": None}          # fresh process on an empty snapshot directory
    if case.get("restart_at") is not None:
        req["restartAt"] = int(case["restart_at"])   # the second process boots from the model's own last body
    return req


def _ystage(rt: dict) -> Optional[str]:
    """stage_end of the scheduler event of a yielded real turn (None: the turn ran to the end)"""
    sl = rt.get("schedLogs") or []
    return str(sl[0].get("stage_end")) if sl else None


def _yrank(st: Optional[str]) -> int:
    return {"T1": 0, "T2": 1, "T3": 2, "T4": 3, "Apply": 4}.get(st, 5) if st is not None else 5


def _derive_budgets(cfgp: dict) -> Optional[dict]:
    """`_derive_budgets(ctx)` of the orchestrator, when `scheduler.enabled` (the model's `Cfg.sched`)"""
    sc = cfgp.get("scheduler") or {}
    if not sc.get("enabled"):
        return None
    b = sc.get("budgets") or {}
    out = {k: (None if b.get(k) is None else int(b.get(k))) for k in ("t1_pops", "t1_iters", "t2_k", "t3_ops", "wall_ms")}
    out["quantum_ms"] = int(sc.get("quantum_ms", 20))
    return out


def _refl_cfg(cfgp: dict) -> dict:
    """C19's `Clem.Refl.Cfg` of a validated configuration"""
    t3 = cfgp.get("t3", {}) or {}
    rf = t3.get("reflection", {}) or {}
    b = (cfgp.get("scheduler") or {}).get("budgets") or {}
    def oi(v):
        try:
            return None if v is None else int(v)
        except Exception:
            return None
    return {"allow": bool(t3.get("allow_reflection", False)), "backend": str(rf.get("backend", "rulebased")),
            "topk": int(rf.get("topk_snippets", 3)), "limit": int(rf.get("summary_tokens", 128)),
            "embed": bool(rf.get("embed", True)), "opsCap": oi(b.get("ops_reflection")), "wallMs": oi(b.get("time_ms_reflection")),
            "fxEnabled": False, "fxPathOk": False}


def _obs(rt: dict, committed: bool) -> dict:
    rec = rt["rec"]
    t4 = rec["t4"]
    try:
        vb, va = int(rt["verBefore"]), int(rt["state"]["version"])
    except Exception:
        vb, va = 0, -1
    return {
        "deltaIds": rec["deltaIds"], "q": rec["q"], "hits": rec["hits"] or [], "kUsed": rec["kUsed"],
        "residual": rec["residual"], "scores": rec["scores"], "nodeIds": rec["nodeIds"] if rec["nodeIds"] is not None else [],
        "sMax": rec["sMax"], "ops0": rec["ops0"], "opsFinal": rec["ops"], "hits2": rec["hits2"], "line": rt["line"],
        "t4": t4,
        "approvedKeys": [_ckey(d) + "=" + d[3] for d in (t4 or {}).get("approved", [])],
        "calls": [[_ckey(d) + "=" + d[3] for d in b] for b in rec["calls"]],
        "committed": committed, "verBefore": vb, "verAfter": va, "t1": rec["t1"],
        "orchHit": (not rec["stage_called"]) and _yrank(_ystage(rt)) >= 1,
        "yielded": ([rt["schedLogs"][0].get("stage_end"), rt["schedLogs"][0].get("reason")] if rt.get("schedLogs") else None),
        "kUsedStage": ((rt["logs"].get("t2") or [{}])[0].get("k_used") if rt["logs"].get("t2") else None),
        "simMeanRec": f2b(float((((rt["logs"].get("t2") or [{}])[0].get("sim_stats")) or {}).get("mean", 0.0))),
        "simMaxRec": f2b(float((((rt["logs"].get("t2") or [{}])[0].get("sim_stats")) or {}).get("max", 0.0))),
        "snapshot": (rt["logs"]["apply"][0].get("snapshot") is not None) if rt["logs"].get("apply") else None,
        "snapBody": (rt.get("snap") or {}).get("body"), "storeW": rt.get("storeW", []), "gelRaw": rt.get("gelRaw"),
        "applied": int((rt["logs"]["apply"][0].get("applied") or 0)) if rt["logs"].get("apply") else 0,
        "approved": (t4 or {}).get("approved", []),
    }


# ------------------------------------------------------------------------------------------------
# components
# ------------------------------------------------------------------------------------------------

def _decanon(x: Any) -> Any:
    """inverse of core._canon on replay files: {"f": bits} -> float"""
    if isinstance(x, dict):
        if set(x.keys()) == {"f"} and isinstance(x["f"], str):
            return b2f(x["f"])
        return {k: _decanon(v) for k, v in x.items()}
    if isinstance(x, list):
        return [_decanon(v) for v in x]
    return x


def _wrap(fn):
    def inner(self, case, *a, **k):
        return fn(self, self._norm(case), *a, **k)
    inner.__name__ = fn.__name__
    inner.__doc__ = fn.__doc__
    return inner


class _Compose(Component):
    name = "compose"
    max_turns = 1
    budget = {"quick": 60, "thorough": 600, "search": 400}
    deciding = True

    def __init__(self):
        self._real: Dict[int, Any] = {}
        self._normed: Dict[int, Any] = {}
        self._scratch = None

    def _norm(self, case: dict) -> dict:
        """a case read back from a replay file has its floats canonicalised: undo that (once per case object)"""
        try:
            canon = isinstance(case["cfg"]["t1"]["node_budget"], dict)
        except Exception:
            canon = False
        if not canon:
            return case
        hit = self._normed.get(id(case))
        if hit is None or hit[0] is not case:
            hit = (case, _decanon(case))
            self._normed[id(case)] = hit
        return hit[1]

    def bind(self, ctx: Ctx):
        self._scratch = ctx
        return self

    def gen(self, rng: random.Random, i: int) -> dict:
        return gen_case(rng, i, self.max_turns)

    def _run(self, case: dict) -> dict:
        hit = self._real.get(id(case))
        r = hit[1] if hit is not None and hit[0] is case else None
        if r is None:
            import tempfile
            from pathlib import Path
            base = self._scratch.tmpdir("compose") if self._scratch is not None else Path(tempfile.mkdtemp(prefix="compose_"))
            r = run_real(base, case)
            try:
                base2 = self._scratch.tmpdir("compose2") if self._scratch is not None else Path(tempfile.mkdtemp(prefix="compose2_"))
                r["again"] = run_real_plain(base2, case)
            except Exception as e:
                r["again"] = {"error": f"{type(e).__name__}: {str(e)[:160]}"}
            # whole-history cache transparency on the real engine (Lean: C01_compose_orch_cache_transparent_partial): when a
            # turn was served by the orchestrator's turn-level cache, the same history once more with `t4.cache` OFF
            try:
                if _orch_hit_turns(r):
                    off = copy.deepcopy(case)
                    off["cfg"].setdefault("t4", {}).setdefault("cache", {})["enabled"] = False
                    base3 = self._scratch.tmpdir("compose3") if self._scratch is not None else Path(tempfile.mkdtemp(prefix="compose3_"))
                    r["cache_off"] = run_real_plain(base3, off)
            except Exception as e:
                r["cache_off"] = {"error": f"{type(e).__name__}: {str(e)[:160]}"}
            self._real[id(case)] = (case, r)   # keeps the case alive: ids are not reused while it is cached
        return r

    @_wrap
    def impl(self, case: dict) -> Any:
        real = self._run(case)
        return {"turns": [{"raised": t["raised"], "line": t["line"], "logs": t["logs"], "state": t["state"],
                           "ops": t["rec"]["ops"], "approved": (t["rec"]["t4"] or {}).get("approved", []),
                           "rejected": (t["rec"]["t4"] or {}).get("rejected", []),
                           "storeCalls": t["rec"]["calls"], "graphIds": t["rec"]["graphIds"],
                           "hits": (t["rec"]["hits"] if t["rec"]["stage_called"] else None),
                           "t2Calls": len(t["rec"]["q"]), "t3_plan": t["t3_plan"],
                           "gelLogs": t["gelLogs"], "gel": t["gel"], "schedLogs": t["schedLogs"], "reflLogs": t["reflLogs"], "memN": t["memN"],
                           "snap": t.get("snap"), "rawLog": t.get("rawLog"),
                           "mem": [{"text": e["text"], "vec": e["vec"]} for e in t.get("memAfter", [])]} for t in real["turns"]]}

    @_wrap
    def request(self, case: dict) -> dict:
        try:
            return build_request(case, self._run(case), self.name)
        except Exception as e:   # the real run could not be driven (reported by `impl` as raised): no model request
            return {"c": self.name, "unavailable": f"{type(e).__name__}: {str(e)[:120]}"}

    @_wrap
    def compare(self, case, impl_out, model_out) -> Optional[str]:
        if not isinstance(model_out, dict) or "turns" not in model_out:
            return f"model error: {str(model_out)[:300]}"
        if isinstance(impl_out, dict) and "__raised__" in impl_out:
            return f"real engine raised: {impl_out}"
        for i, (a, b) in enumerate(zip(impl_out["turns"], model_out["turns"])):
            if a["raised"]:
                return f"turn {i}: run_turn raised {a['raised']}"
            if b.get("oracleMiss"):
                return f"turn {i}: the model asked for an oracle of a query text the real T2 never embedded: {b.get('qText')!r}"
            # THE LOG STREAM: every line the turn appended to every log file, in emission order, key order and value
            # kinds included, against `Clem.Compose.emitted` (measured ms fields of the non-identity streams are oracles)
            if a.get("rawLog") is not None:
                c06 = importlib.import_module("harness.props.c06")
                real_em = [[f, r_] for f, r_ in a["rawLog"]]
                if real_em != b.get("emitted"):
                    fa, fb = [x[0] for x in real_em], [x[0] for x in (b.get("emitted") or [])]
                    if fa != fb:
                        return f"turn {i}: log stream: files written in order {fa}, model {fb}"
                    for (f, ra), (_, rb) in zip(real_em, b["emitted"]):
                        if ra != rb:
                            da, db = c06.dec(ra), c06.dec(rb)
                            if list(da.keys()) != list(db.keys()):
                                return f"turn {i}: log stream: {f} keys {list(da.keys())}, model {list(db.keys())}"
                            return f"turn {i}: log stream: {f}: " + first_diff(_canon(da), _canon(db))
            b = dict(b, logs=_logs_of_emitted(b.get("emitted") or []))
            ops_a = a["ops"] if a["ops"] is not None else []
            mine = {"logs": _canon(a["logs"]), "line": a["line"], "ops": ops_a,
                    "approved": a["approved"], "rejected": a["rejected"], "storeCalls": a["storeCalls"],
                    "t2Calls": a["t2Calls"],
                    "w": _canon(sorted(a["state"]["w"] or [])), "version": a["state"]["version"]}
            theirs = {"logs": b["logs"], "line": b["line"], "ops": b["ops"], "approved": b["approved"],
                      "rejected": b["rejected"], "storeCalls": b["storeCalls"], "t2Calls": b["t2Calls"],
                      "w": sorted(b["state"]["w"], key=lambda p: p[0]), "version": b["state"]["version"]}
            mine["w"] = sorted(mine["w"], key=lambda p: p[0])
            if a.get("hits") is not None and b.get("t2Ran", True) and not b.get("orchHit"):
                # the retrieved list of the T2 stage: ids, owners, scores and texts in the final (reranked) order
                mine["hits"] = a["hits"]
                theirs["hits"] = b["hits"]
            mine["gelLogs"] = _canon(a["gelLogs"])
            theirs["gelLogs"] = b["logs"].get("gel", [])
            mine["reflLogs"] = _canon(a["reflLogs"])
            theirs["reflLogs"] = b["logs"].get("t3_reflection", [])
            mine["memN"] = a["memN"]
            theirs["memN"] = b.get("memN")
            # the memory index beyond the initial episodes: texts and vector presence, in index order
            mine["mem"] = a.get("mem", [])
            theirs["mem"] = [{"text": e["text"], "vec": e["vec"]} for e in b.get("mem", [])]
            mine["schedLogs"] = _canon(a["schedLogs"])
            theirs["schedLogs"] = b["logs"].get("scheduler", [])
            theirs["logs"] = {s_: b["logs"].get(s_, []) for s_ in STREAMS}
            c18 = _c18()
            mine["gel"] = c18.canon_state(a["gel"])
            theirs["gel"] = c18.canon_state(b.get("gel"))
            if theirs["gel"] is not None:
                theirs["gel"]["schema"] = "v1.1" if b.get("gelV11") else "v1"
            # the snapshot body this turn wrote (None: the file was not rewritten), key order and float bits included
            mine["snap"] = a.get("snap")
            theirs["snap"] = None if b.get("snapBody") is None else {"body": b["snapBody"]}
            if mine != theirs:
                return f"turn {i}: " + first_diff(_canon(mine), _canon(theirs))
            for g in a["graphIds"]:
                if g != "g:surface":
                    return f"turn {i}: store addressed graph {g!r}"
            if a["t3_plan"]:
                p = a["t3_plan"][0]
                kinds: Dict[str, int] = {}
                for o in b["ops"]:
                    kinds[o["kind"]] = kinds.get(o["kind"], 0) + 1
                exp = {"ops_counts": kinds, "requested_retrieve": b["requestedRetrieve"], "rag_used": b["ragUsed"]}
                got = {k: p.get(k) for k in exp}
                if got != exp:
                    return f"turn {i}: t3_plan record {got} model {exp}"
        if len(impl_out["turns"]) != len(model_out["turns"]):
            return "turn count differs"
        return None

    @_wrap
    def monitor_requests(self, case, impl_out) -> List[Tuple[str, dict]]:
        real = self._run(case)
        base = build_request(case, real, "compose.mon")
        t4on = bool(real["cfg_plain"].get("t4", {}).get("enabled", True))
        out = []
        for i, (t, rt) in enumerate(zip(case["turns"], real["turns"])):
            if rt["raised"]:
                continue
            yk = _yrank(_ystage(rt))
            committed = t4on and not t.get("dry") and yk >= 4
            ob = _obs(rt, committed)
            for m in MONITORS:
                if m == "link.query" and yk == 0:
                    continue   # yielded after T1: T2 never ran
                if m in ("link.bundle", "c13.plan", "link.plan", "link.rag", "link.t2stats") and rt["rec"]["nodeIds"] is None:
                    continue   # T3 did not run (dry-run compute phase / T3 gate): no bundle was built
                if m == "c11.hits" and not rt["rec"]["stage_called"]:
                    continue   # served by the orchestrator's cache: the stage did not run this turn
                r = dict(base)
                r.update({"which": m, "turn": i, "obs": ob})
                out.append((m, r))
            if not (rt.get("snap") or {}).get("unreadable"):
                r = dict(base)
                r.update({"which": "snap.fields", "turn": i, "obs": ob})
                out.append(("snap.fields", r))
            if rt.get("rawLog") is not None:
                for m in ("log.normalized", "log.rollup", "log.order", "log.t3"):
                    r = dict(base)
                    r.update({"which": m, "turn": i, "obs": dict(ob, rawLog=rt["rawLog"],
                                                                 kindsFinal=[o_["kind"] for o_ in (rt["rec"]["ops"] or [])],
                                                                 kinds0=[o_["kind"] for o_ in (rt["rec"]["ops0"] or [])] +
                                                                        [o_["kind"] for o_ in ((t.get("hook") or {}).get("ops") or [])])})
                    out.append((m, r))
            bt = rt["rec"].get("boot")
            if bt is not None and not isinstance(bt.get("body"), dict):
                g = bt.get("gel") or {}
                r = dict(base)
                r.update({"which": "boot.load", "turn": i,
                          "obs": dict(ob, bootBody=bt["body"], bootVer=bt["version"], bootW=bt["w"],
                                      bootEdges=[[e["k"], e["w"]] for e in g.get("edges", [])],
                                      bootNodes=[n[0] for n in g.get("nodes", [])])})
                out.append(("boot.load", r))
        out.extend(self._gel_monitor_requests(case, real))
        out.extend(self._refl_monitor_requests(case, real))
        return out

    def _refl_monitor_requests(self, case, real) -> List[Tuple[str, dict]]:
        """C19's Lean monitors (routes refl.mon.*) on what the REAL turns did: gate, ops cap, summary length."""
        if case.get("refl_flag") is None:
            return []
        rc = _refl_cfg(real["cfg_plain"])
        t4on = bool(real["cfg_plain"].get("t4", {}).get("enabled", True))
        out = []
        prev = 0
        for i, (t, rt) in enumerate(zip(case["turns"], real["turns"])):
            if rt["raised"]:
                continue
            rf = rt["rec"]["refl"]
            tj = {"agent": _agent_of(case, t), "turn": str(t["turn_id"]), "nowMs": 0, "iso": None, "dry": bool(t.get("dry")),
                  "t4on": t4on, "plan": False, "sflag": bool(case.get("refl_flag")), "cfg": rc,
                  "utter": (rf or {}).get("utter", ""), "items": (rf or {}).get("snippets", []), "arts": []}
            oj = {"mode": "real", "adapter": None, "elapsedUs": 0, "runFault": False, "indexMissing": False,
                  "writeFault": False, "addFail": [], "logFault": False}
            body = {"t": tj, "o": oj, "called": rf is not None, "nWritten": max(0, rt["memN"] - prev),
                    "logged": bool(rt["reflLogs"]), "texts": ([rf["summary"]] if rf and "summary" in rf else []), "real": True}
            prev = rt["memN"]
            if case.get("restart_at") is not None and i + 1 == case["restart_at"]:
                prev = 0   # the next turn runs in a fresh process: its memory index holds the initial episodes only
            for m in ("gate", "cap", "len"):
                out.append((f"c19.{m}", dict(body, c=f"refl.mon.{m}")))
        return out

    def _gel_monitor_requests(self, case, real) -> List[Tuple[str, dict]]:
        """C18's Lean monitors (route gel.mon) on what the REAL turns did to state.graph."""
        graph = real["cfg_plain"].get("graph") or {}
        if not graph.get("enabled"):
            return []
        c18 = _c18()
        cj = c18.model_cfg_json(c18.model_of(graph))
        el = c18.GelComp._edges_for_lean
        finals, top, obs, ticks = [], [], [], []
        for rt in real["turns"]:
            if rt["raised"]:
                continue
            rec = rt["rec"]
            finals.append(el(rt["gel"]))
            go, gt = rec["gel_obs"], rec["gel_tick"]
            if go is not None:
                obs.append({"pre": el(go["pre"]), "post": el(go["post"]), "items": go["items"], **go["out"]})
                if rec["stage_called"] and rec["hits"] is not None:
                    # the hand-off: pairs come from the top-k by score among ALL hits T2 returned
                    top.append({"pre": el(go["pre"]), "post": el(go["post"]),
                                "items": [[h["id"], h["score"]] for h in rec["hits"]]})
            if gt is not None:
                ticks.append({"pre": el(gt["pre"]), "post": el(gt["post"]), "dt": 1,
                              "decayed": gt["out"]["decayed"], "dropped": gt["out"]["dropped"]})
        promo = bool((graph.get("promotion") or {}).get("enabled", False))
        rq = [("c18.canon", {"c": "gel.mon", "kind": "canon", "cfg": cj, "states": finals}),
              ("c18.bounded", {"c": "gel.mon", "kind": "bounded_coact" if promo else "bounded", "cfg": cj, "states": finals})]
        if top:
            rq.append(("c18.handoff_topk", {"c": "gel.mon", "kind": "obstop", "cfg": cj, "steps": top}))
        if obs:
            rq.append(("c18.obs_spec", {"c": "gel.mon", "kind": "obs", "cfg": cj, "steps": obs}))
        if ticks:
            rq.append(("c18.tick_spec", {"c": "gel.mon", "kind": "tick", "cfg": cj, "steps": ticks}))
        return rq

    @_wrap
    def monitors(self, case, impl_out):
        """Cross-stream consistency of the REAL turn's records (what the glue copies from stage results into the
        t1/t2/t4/apply/turn streams)."""
        res = []
        real = self._run(case)
        t4c = real["cfg_plain"].get("t4", {})
        t4on = bool(t4c.get("enabled", True))
        orch_on = bool((t4c.get("cache", {}) or {}).get("enabled", True))
        sched_on = bool((real["cfg_plain"].get("scheduler") or {}).get("enabled", False))
        bust = str(t4c.get("cache_bust_mode") or "none") == "on-apply"
        # C01 on the real engine: the same (world, config, turn list) replayed on a fresh world gives the same
        # canonical records, lines and state
        again = real.get("again")
        if isinstance(again, list):
            first = [{"raised": t["raised"], "line": t["line"], "logs": t["logs"], "state": t["state"],
                      "gelLogs": t["gelLogs"], "gel": t["gel"], "schedLogs": t["schedLogs"], "reflLogs": t["reflLogs"], "memN": t["memN"],
                      "snap": t.get("snap"), "memAfter": t.get("memAfter")} for t in real["turns"]]
            same = _canon(first) == _canon(again)
            res.append(("replay.real_deterministic", same,
                        "replaying the history on a fresh world differs: " + ("" if same else first_diff(_canon(first), _canon(again)))))
        # C05 on the whole turn (Lean: C01_compose_orch_cache_transparent_partial): with the turn-level cache OFF every turn of
        # the history — in particular each one that was served by the cache — sees the same T2 result (a fresh
        # `t2_semantic` on the state of that moment) and leaves the same line, store, version, GEL store and memory index
        off = real.get("cache_off")
        if isinstance(off, list) and len(off) == len(real["turns"]):
            for i, (rt, ot) in enumerate(zip(real["turns"], off)):
                if rt["raised"] or ot["raised"]:
                    res.append(("cache.transparent", bool(rt["raised"]) == bool(ot["raised"]),
                                f"turn {i}: raised={rt['raised']} with the turn-level cache on, {ot['raised']} with it off"))
                    break
                a_, b_ = _transp_view(rt), _transp_view(ot)
                same = _canon(a_) == _canon(b_)
                res.append(("cache.transparent", same,
                            f"turn {i} ({'served by the cache' if i in _orch_hit_turns(real) else 'computed'}): cache on vs off: "
                            + ("" if same else first_diff(_canon(a_), _canon(b_)))))
                if not same:
                    break
        gel_on = bool((real["cfg_plain"].get("graph") or {}).get("enabled", False))
        for i, (t, rt) in enumerate(zip(case["turns"], real["turns"])):
            if rt["raised"]:
                continue
            rec, seq = rt["rec"], rt["rec"]["seq"]
            ykg = _yrank(_ystage(rt))
            want_obs = gel_on and not t.get("dry") and ykg >= 2
            want_tick = gel_on and t4on and not t.get("dry") and ykg >= 4
            ok = (("gel_observe" in seq) == want_obs) and (("gel_tick" in seq) == want_tick)
            if ok and want_obs:
                io = seq.index("gel_observe")
                # (served by the orchestrator's cache: the only t2 calls are rag_once's, after the observation)
                ok = (not rec["stage_called"] or seq.index("t2") < io) and ("t4" not in seq or io < seq.index("t4"))
            if ok and want_tick:
                it = seq.index("gel_tick")
                ok = seq.index("t4") < it and ("store" not in seq or it < seq.index("store"))
            res.append(("gel.order", ok, f"turn {i}: call order {seq} (graph.enabled={gel_on}, t4={t4on}, dry={bool(t.get('dry'))})"))
            go = rec["gel_obs"]
            if go is not None:
                okh = go["turn"] == int(t["turn_id"]) and go["agent"] == _agent_of(case, t)
                if rec["stage_called"] and rec["hits"] is not None:
                    okh = okh and go["items"] == [[h["id"], h["score"]] for h in rec["hits"]]
                res.append(("gel.handoff", okh, f"turn {i}: observe got {go['items']} turn={go['turn']} agent={go['agent']}; "
                                                 f"T2 returned {[[h['id'], h['score']] for h in (rec['hits'] or [])]}"))
            mrecs = [r for r in rt["gelLogs"] if "merge_attempts" in r]
            if gel_on:
                gcfg = real["cfg_plain"].get("graph") or {}
                dm, ds, dp = (bool((gcfg.get(k) or {}).get("enabled", False)) for k in ("merge", "split", "promotion"))
                want_m = want_tick and (dm or ds or dp)
                okm = len(mrecs) == (1 if want_m else 0)
                why = f"{len(mrecs)} maintenance records"
                if okm and want_m:
                    cm_, cs_, cp_ = (int((gcfg.get(k) or {}).get("cap_per_turn", d)) for k, d in (("merge", 4), ("split", 4), ("promotion", 2)))
                    merges = rec["merges"] if dm else []
                    splits = rec["splits"] if ds else []
                    clusters = [m for m in merges if m["nodes"]] if dp else []     # promotions derive from the merge candidates
                    exp = {"merge_attempts": len(merges), "merge_applied": len(merges[:cm_]), "split_attempts": len(splits),
                           "split_applied": len(splits[:cs_]), "promotion_applied": len(clusters[:cp_])}
                    got = {k: mrecs[0].get(k) for k in exp}
                    gm = (rt["gel"] or {}).get("merges") or []
                    tail = gm[len(gm) - exp["merge_applied"]:] if exp["merge_applied"] else []
                    okm = got == exp and [m["sig"] for m in tail] == [m["sig"] for m in merges[:cm_]]
                    why = f"maintenance record {got}, candidates/caps give {exp}; merges stored {[m['sig'] for m in tail]}"
                res.append(("gel.maintenance", okm, f"turn {i}: {why}"))
            gt = rec["gel_tick"]
            if gt is not None:
                res.append(("gel.tick_args", gt["turn"] == int(t["turn_id"]) and gt["dt"] == 1,
                            f"turn {i}: tick(decay_dt={gt['dt']}, turn={gt['turn']})"))
        hyb_on = bool((real["cfg_plain"].get("t2", {}).get("hybrid") or {}).get("enabled", False))
        kmax = int((real["cfg_plain"].get("t2", {}).get("hybrid") or {}).get("k_max", 128))
        for i, rt in enumerate(real["turns"]):
            if rt["raised"]:
                continue
            rec = rt["rec"]
            # the rerank layers are handed the query text T2 embedded, the engine's own state, and only reorder
            # (hybrid: first item fixed, only the first k_max may move)
            # (a T2 stage-cache hit returns before the layers run: fewer calls than embeddings)
            okq = set(rec["aq_q"]) <= set(rec["q"]) and set(rec["lex"]) <= set(rec["q"]) and rec["aq_q"][:1] == rec["q"][:1][:len(rec["aq_q"])]
            if (real["cfg_plain"].get("t2", {}).get("quality") or {}).get("enabled"):
                res.append(("quality.query", okq, f"turn {i}: apply_quality/BM25 got {rec['aq_q']} / {sorted(rec['lex'])}, T2 embedded {rec['q']}"))
            for hc in rec["hyb_calls"]:
                okh = hc["same_state"] and sorted(hc["hin"]) == sorted(hc["hout"]) and hc["hin"][:1] == hc["hout"][:1] \
                    and hc["hin"][max(kmax, 0):] == hc["hout"][max(kmax, 0):]
                res.append(("hybrid.handoff", okh, f"turn {i}: rerank_with_gel state-is-engine-state={hc['same_state']} in={hc['hin']} out={hc['hout']} k_max={kmax}"))
            l2 = (rt["logs"].get("t2") or [None])[0]
            # (with the T2 stage cache on, the stage call may be served by it while rag's second call reranks: the
            #  first rerank call is the stage's only when every embedded query was reranked)
            if rec["stage_called"] and l2 is not None and rec["hyb_calls"] and len(rec["hyb_calls"]) == len(rec["q"]):
                hc0 = rec["hyb_calls"][0]
                okr = (l2.get("hybrid") or {}) == hc0["info"] and bool(l2.get("hybrid_used")) == hc0["used"]
                res.append(("records.hybrid", okr, f"turn {i}: t2 record hybrid={l2.get('hybrid')} hybrid_used={l2.get('hybrid_used')}; reranker reported {hc0['info']} used={hc0['used']}"))
            if rec["stage_called"]:
                # (a T2 stage-cache hit returns before the rerank layer: with that cache on only "never without hybrid")
                t2c_on = bool((real["cfg_plain"].get("t2", {}).get("cache") or {}).get("enabled", True))
                okc = ((len(rec["hyb_calls"]) >= 1) == hyb_on) if not t2c_on else (hyb_on or not rec["hyb_calls"])
                res.append(("hybrid.called", okc, f"turn {i}: {len(rec['hyb_calls'])} rerank calls, hybrid.enabled={hyb_on}, t2.cache={t2c_on}"))
        if case.get("refl_flag") is not None:
            topk = int((real["cfg_plain"].get("t3", {}).get("reflection") or {}).get("topk_snippets", 3))
            prevn = 0
            for i, (t, rt) in enumerate(zip(case["turns"], real["turns"])):
                if case.get("restart_at") is not None and i == case["restart_at"]:
                    prevn = 0   # fresh process: the memory index holds the initial episodes only
                if rt["raised"]:
                    continue
                rec, rf = rt["rec"], rt["rec"]["refl"]
                yk_ = _yrank(_ystage(rt))
                # the tail is only reached by a turn that runs to the end; what it hands to `reflect` is this turn's
                # utterance and the texts of the first topk hits T2 returned; the index grows by what the record says
                ok = not (rf is not None and (yk_ < 5 or (t.get("dry") and t4on)))
                why = "reflect called in a turn that returned early"
                allow = bool(real["cfg_plain"].get("t3", {}).get("allow_reflection", False))
                if ok and rf is None and allow and case.get("refl_flag") and not t.get("dry") and yk_ == 5:
                    ok, why = False, "allowed, requested (stashed planner flag), turn ran to the end — but reflect was not called"
                if ok and rf is not None:
                    exp_sn = [h["text"] for h in (rec["hits"] or []) if h["text"]][: max(topk, 0)] if rec["stage_called"] else rf["snippets"]
                    # (`reflect` cuts the snippets to topk itself: only the first topk are observable)
                    ok = rf["utter"] == (rt["line"] if rec["ops"] else "") and rf["snippets"][: max(topk, 0)] == exp_sn
                    why = f"reflect got utter={rf['utter']!r} snippets={rf['snippets']}; turn line={rt['line']!r}, T2 texts={exp_sn}"
                if ok:
                    wrote = rt["memN"] - prevn
                    logged = (rt["reflLogs"] or [{}])[0].get("ops_written", 0) if rt["reflLogs"] else 0
                    # (`ops_written` of the record is the number of entries `reflect` produced; the write step applies
                    #  the ops cap on top — C19's `logOf` / `writeEntries`)
                    capv = ((real["cfg_plain"].get("scheduler") or {}).get("budgets") or {}).get("ops_reflection")
                    capn = max(0, int(capv)) if capv is not None else 0
                    expw = min(len((rf or {}).get("entries", [])), capn) if rf is not None else 0
                    ok = 0 <= wrote <= logged and wrote == expw
                    why = f"memory index grew by {wrote} (reflect produced {len((rf or {}).get('entries', []))}, ops cap {capv}), t3_reflection says ops_written={logged}"
                prevn = rt["memN"]
                res.append(("reflect.handoff", ok, f"turn {i}: {why}"))
        # memory growth (step 6): what `write_reflection_entries` leaves in the index, and what later retrievals see of it
        import hashlib
        scope_cfg = str((real["cfg_plain"].get("t2") or {}).get("owner_scope", "any")).lower()
        init_ids = {str(e.get("id")) for e in case["eps"]}
        ts_expected = dt.datetime.fromtimestamp(0, tz=dt.timezone.utc).isoformat()   # the rig's turn clock: now_ms = 0
        for i, (t, rt) in enumerate(zip(case["turns"], real["turns"])):
            if rt["raised"] or "memBefore" not in rt:
                continue
            mb, ma = rt["memBefore"], rt["memAfter"]
            res.append(("memory.append_only", ma[:len(mb)] == mb,
                        f"turn {i}: the index no longer starts with the {len(mb)} entries it held before the turn"))
            bad = []
            for slot, e in enumerate(ma[len(mb):]):
                h = hashlib.sha256("|".join([_agent_of(case, t), str(t["turn_id"]), str(slot), str(e["text"])]).encode("utf-8")).hexdigest()[:12]
                want = {"id": f"refl-{t['turn_id']}-{_agent_of(case, t)}-{slot}-{h}", "owner": "agent", "ts": ts_expected,
                        "kind": "summary", "keys": ["id", "owner", "ts", "kind", "tags", "text"] + (["vec_full"] if e["vec"] else [])}
                got = {k: e.get(k) for k in want}
                if got != want or not e["tags"]:
                    bad.append((got, want))
            res.append(("memory.entry_shape", not bad, f"turn {i}: written episode {bad[:1]}"))
            if rt["rec"]["stage_called"]:
                before_ids = {str(e["id"]) for e in mb}
                new_ids = {str(e["id"]) for e in ma[len(mb):]}
                vis = scope_cfg == "any" or (scope_cfg == "agent" and _agent_of(case, t) == "agent")
                hits = [str(h["id"]) for h in (rt["rec"]["hits"] or [])]
                alien = [h for h in hits if h not in init_ids and h not in before_ids]
                leak = [h for h in hits if h in before_ids and h not in init_ids and not vis]
                res.append(("memory.visible", not alien and not leak and not (set(hits) & (new_ids - before_ids - init_ids)),
                            f"turn {i}: hits {hits}: not in the index at the start of the turn {alien}, "
                            f"reflection entries outside the owner scope {scope_cfg!r} {leak}"))
        # several agents on one state (step 7): each agent's snapshot goes to its own file, named after the turn's agent
        wrote = set()
        for i, (t, rt) in enumerate(zip(case["turns"], real["turns"])):
            if rt["raised"] or "snapFiles" not in rt or case.get("restart_at") is not None:
                continue
            ag = _agent_of(case, t)
            if rt.get("snap") is not None:
                wrote.add(f"state_{ag}.json")
            have = {n for n in rt["snapFiles"] if n.endswith(".json")}
            res.append(("agents.snapshot_files", have == wrote,
                        f"turn {i} (agent {ag}): snapshot directory holds {sorted(have)}, the turns so far wrote {sorted(wrote)}"))
        for i, rt in enumerate(real["turns"]):
            # the boot hook runs on the first turn of a process (`_boot_loaded`), and only there
            want_boot = (i == 0 and bool(case.get("boot"))) or (case.get("restart_at") is not None and i == case["restart_at"])
            res.append(("boot.once", (rt["rec"].get("boot") is not None) == want_boot,
                        f"turn {i}: load_latest_snapshot {'ran' if rt['rec'].get('boot') is not None else 'did not run'}, "
                        f"first turn of a process: {want_boot}"))
        seen_keys: List[Tuple[str, str]] = []     # (version, text) pairs the orchestrator cache holds
        for i, (t, a, rt) in enumerate(zip(case["turns"], impl_out.get("turns", []), real["turns"])):
            if case.get("restart_at") is not None and i == case["restart_at"]:
                seen_keys = []   # a fresh process: the cache manager lives on the state, which was replaced
            if orch_on and not a["raised"] and a["logs"].get("t2"):
                # C05 on the orchestrator's T2 cache, on the real records: a hit only for a (version, text) it was
                # filled with earlier in this history and not invalidated since; size and invalidation counts add up
                r2 = a["logs"]["t2"][0]
                # (fix C05_turn_key_context: the key also digests the agent, the ids T1 touched, the memory index version
                #  and — hybrid on — the GEL edges; ctx.now / cfg / graph etags are constant in a history)
                key = (str(rt["verBefore"]), str(t["text"]), _agent_of(case, t), tuple(sorted(rt["rec"]["deltaIds"])),
                       len(rt.get("memBefore") or []), rt.get("gelKeyBefore"))
                hit = bool(r2.get("cache_hit"))
                res.append(("cache.hit_justified", hit == (key in seen_keys),
                            f"turn {i}: cache_hit={hit} for key {key}, cache holds {seen_keys}"))
                if key not in seen_keys:
                    seen_keys.append(key)
                res.append(("cache.size", r2.get("cache_size") == len(seen_keys),
                            f"turn {i}: cache_size={r2.get('cache_size')} but {len(seen_keys)} keys were stored"))
                if a["logs"].get("apply"):
                    inv = a["logs"]["apply"][0].get("cache_invalidations")
                    exp_inv = len(seen_keys) if bust else 0
                    res.append(("cache.invalidation", inv == exp_inv,
                                f"turn {i}: cache_invalidations={inv}, expected {exp_inv} (bust={bust})"))
                    if bust:
                        seen_keys = []
            if a["raised"]:
                res.append(("turn_total", False, f"turn {i}: run_turn raised {a['raised']}"))
                continue
            lg, rec = a["logs"], rt["rec"]
            bad = [(s, r) for s in STREAMS for r in lg.get(s, [])
                   if r.get("turn") != t["turn_id"] or r.get("agent") != _agent_of(case, t)]
            res.append(("records.turn_agent", not bad, f"turn {i}: record of another turn/agent: {bad[:1]}"))
            yk = _yrank(_ystage(rt))
            committed = t4on and not t.get("dry") and yk >= 4
            want = {"t1": 1, "t2": 1 if yk >= 1 else 0, "t4": 1 if (t4on and yk >= 3) else 0, "apply": 1 if committed else 0,
                    "turn": 1 if yk < 5 else (0 if (t.get("dry") and t4on) else 1)}
            got = {s: len(lg.get(s, [])) for s in STREAMS}
            res.append(("records.streams", got == want, f"turn {i}: records per stream {got}, expected {want}"))
            if got != want:
                continue
            ok, why = True, ""
            if want["turn"]:
                tr = lg["turn"][0]
                exp = {"t1": {k: lg["t1"][0].get(k) for k in ("pops", "iters", "graphs_touched")},
                       "t2": ({"k_returned": lg["t2"][0].get("k_returned"), "k_used": lg["t2"][0].get("k_used"),
                               "cache_hit": bool(lg["t2"][0].get("cache_hit", False))} if yk >= 1 else {}),
                       "t4": ({"approved": len(a["approved"]), "rejected": len(a["rejected"])} if yk >= 3 else {}),
                       "yielded": (True if yk < 5 else None)}
                gotr = {k: tr.get(k) for k in exp}
                if gotr != exp:
                    ok, why = False, f"turn record {gotr} vs stage records {exp}"
            if ok and yk >= 1 and rec["stage_called"] and lg["t2"][0].get("k_returned") != len(rec["hits"] or []):
                ok, why = False, "t2.k_returned differs from the number of hits T2 returned"
            if ok and want["t4"] and (lg["t4"][0].get("approved") != len(a["approved"])
                                      or lg["t4"][0].get("rejected") != len(a["rejected"])):
                ok, why = False, "t4 record counts differ from the T4 result"
            res.append(("records.rollup", ok, f"turn {i}: {why}"))
            if want["apply"]:
                ap = lg["apply"][0]
                try:
                    okv = ap.get("version_etag") == a["state"]["version"] == str(int(rt["verBefore"]) + 1)
                except Exception:
                    okv = False
                res.append(("records.apply_version", okv,
                            f"turn {i}: apply record version {ap.get('version_etag')!r}, state after {a['state']['version']!r}, before {rt['verBefore']!r}"))
            if a["ops"]:
                sp = [o for o in a["ops"] if o["kind"] == "Speak"]
                budget = sp[0]["max_tokens"] if sp and sp[0]["max_tokens"] else int(real["cfg_plain"].get("t3", {}).get("tokens", 256))
                res.append(("line.budget", len((a["line"] or "").split()) <= max(0, budget) or not rec["ops"],
                            f"turn {i}: line {a['line']!r} exceeds {budget} tokens"))
        return res

    @_wrap
    def tags(self, case, impl_out) -> List[str]:
        tg = set()
        real = self._run(case)
        if len(case["graphs"]) > 1:
            tg.add("multi_graph")
        if (real["cfg_plain"].get("graph") or {}).get("enabled"):
            tg.add("gel_on")
            for rt in real["turns"]:
                g = rt["gel"] or {}
                if g.get("edges"):
                    tg.add("gel_edges")
                if g.get("merges"):
                    tg.add("gel_merge_applied")
                if g.get("splits"):
                    tg.add("gel_split_applied")
                if g.get("nodes"):
                    tg.add("gel_promotion_applied")
                gt = rt["rec"]["gel_tick"]
                if gt and gt["out"]["dropped"]:
                    tg.add("gel_tick_dropped")
                go = rt["rec"]["gel_obs"]
                if go and go["out"]["k_used"] < go["out"]["k_in"]:
                    tg.add("gel_observe_filtered")
        if (real["cfg_plain"].get("scheduler") or {}).get("enabled"):
            tg.add("sched_on")
            for rt in real["turns"]:
                st = _ystage(rt)
                if st is not None:
                    tg.add("yield_" + st + "_" + str(rt["schedLogs"][0].get("reason")))
                l2 = (rt["logs"].get("t2") or [{}])[0]
                if l2 and l2.get("k_used", 0) < l2.get("k_returned", 0):
                    tg.add("t2_slice_clamped")
        if case["cfg"]["t2"].get("hybrid", {}).get("enabled"):
            tg.add("hybrid_on")
            for rt in real["turns"]:
                l2 = (rt["logs"].get("t2") or [{}])[0]
                if l2.get("hybrid_used"):
                    tg.add("hybrid_used")
                if (l2.get("hybrid") or {}).get("k_reordered"):
                    tg.add("hybrid_reordered")
        if case["cfg"]["t2"].get("quality", {}).get("enabled"):
            tg.add("quality_on")
            if case["cfg"]["t2"]["quality"]["mmr"]["enabled"]:
                tg.add("mmr_on")
        if case.get("refl_flag") is not None:
            tg.add("reflection_world")
            for rt in real["turns"]:
                if rt["rec"]["refl"] is not None:
                    tg.add("reflect_called")
                if rt["reflLogs"]:
                    tg.add("reflection_logged")
                    if rt["reflLogs"][0].get("ops_written"):
                        tg.add("reflection_written")
        if case.get("caches"):
            tg.add("caches_on")
        if case["cfg"].get("t3", {}).get("policy"):
            tg.add("policy_thresholds_configured")
        if len(case["turns"]) > 1:
            tg.add(f"turns_{len(case['turns'])}")
        ids = [n[0] for g in case["graphs"] for n in g["nodes"]]
        if len(set(ids)) < len(ids):
            tg.add("node_id_shared_between_graphs")
        if not real["cfg_plain"].get("t4", {}).get("enabled", True):
            tg.add("killswitch")
        for t, rt in zip(case["turns"], real["turns"]):
            rec = rt["rec"]
            if rec["deltaIds"]:
                tg.add("t1_touched")
            if rec["q"] and rec["q"][0] != (t["text"] or "").strip():
                tg.add("labels_appended")
            if rec["hits"]:
                tg.add("t2_hits")
            if rec["residual"]:
                tg.add("t2_residual")
            if len(rec["q"]) > 1:
                tg.add("rag_second_retrieval")
            if rec["ops"] and any(o["kind"] == "EditGraph" for o in (rec["ops0"] or [])):
                tg.add("stock_planner_edits")
            if rec["ops"] and any(o["kind"] == "RequestRetrieve" for o in rec["ops"]):
                tg.add("plan_requests_retrieve")
            if rec["ops"] and rec["ops"][0].get("intent") in ("summary", "assertion", "ack"):
                tg.add("intent_" + rec["ops"][0]["intent"])
            if rt["line"] and rec["ops"] and len(rt["line"].split()) >= rec["ops"][0].get("max_tokens", 10 ** 6) > 0:
                tg.add("utterance_truncated")
            if t.get("dry"):
                tg.add("dry_run")
            if not rec["stage_called"]:
                tg.add("orch_cache_hit")
            l1 = (rt["logs"].get("t1") or [{}])[0]
            if l1.get("cache_hits"):
                tg.add("t1_cache_hit")
            la = (rt["logs"].get("apply") or [{}])[0]
            if la.get("cache_invalidations"):
                tg.add("cache_invalidated")
            if t.get("hook"):
                tg.add("planner_hook")
            t4 = rec["t4"] or {}
            if t4.get("deltas"):
                tg.add("t4_deltas")
            if t4.get("approved"):
                tg.add("t4_approved")
            if t4.get("rejected"):
                tg.add("t4_cooldown_blocked")
            if t4.get("deltas") and len(t4.get("approved", [])) < len({_ckey(d) for d in t4["deltas"]}):
                tg.add("t4_dropped")
            if rec["calls"] and rec["calls"][0]:
                tg.add("store_batch_nonempty")
            lg = rt["logs"].get("apply") or []
            if lg and lg[0].get("clamps"):
                tg.add("store_clamped")
            if lg and lg[0].get("snapshot") is None:
                tg.add("no_snapshot_turn")
            if t.get("hook") and t["hook"]["deltas"] and len(rec["q"]) > 1 and not t4.get("deltas"):
                tg.add("rag_dropped_hook_deltas")
            sn = rt.get("snap")
            if sn and sn.get("body") is not None:
                tg.add("snapshot_body_compared")
                try:
                    bd = importlib.import_module("harness.props.c06").dec(sn["body"])
                    if (bd.get("gel") or {}).get("edges"):
                        tg.add("snapshot_gel_edges")
                    if (bd.get("store") or {}).get("weights"):
                        tg.add("snapshot_store_weights")
                    if bd.get("deltas"):
                        tg.add("snapshot_deltas")
                except Exception:
                    pass
            bt = rec.get("boot")
            if bt is not None:
                tg.add("boot_empty_dir" if bt.get("body") is None else "boot_from_snapshot")
                if bt.get("body") is not None:
                    if bt["w"]:
                        tg.add("restart_restored_weights")
                    if bt["version"] not in ("0", None):
                        tg.add("restart_restored_version")
                    if (bt.get("gel") or {}).get("edges"):
                        tg.add("restart_restored_gel_edges")
        for rt in real["turns"]:
            if rt.get("memBefore"):
                tg.add("memory_grown_before_turn")
                mids = {str(e["id"]) for e in rt["memBefore"]}
                if any(str(h["id"]) in mids for h in (rt["rec"]["hits"] or [])):
                    tg.add("reflection_entry_retrieved")
                if any(e["vec"] for e in rt["memBefore"]):
                    tg.add("memory_entry_embedded")
        ags = {_agent_of(case, t) for t in case["turns"]}
        if len(ags) > 1:
            tg.add(f"agents_{len(ags)}")
            files = {n for rt in real["turns"] for n in rt.get("snapFiles", []) if n.endswith(".json")}
            if len(files) > 1:
                tg.add("per_agent_snapshot_files")
            if str(case["cfg"]["t2"].get("owner_scope")) == "agent":
                hs = {tuple(sorted(str(h["id"]) for h in (rt["rec"]["hits"] or []))) for rt in real["turns"] if rt["rec"]["stage_called"]}
                if len(hs) > 1:
                    tg.add("agents_scope_switch")
            if case.get("caches"):
                tg.add("agents_shared_stage_caches")
        if case.get("restart_at") is not None:
            tg.add("restart")
        return sorted(tg) or ["default"]

    @_wrap
    def shrink(self, case):
        if len(case["turns"]) > 1:
            for i in range(len(case["turns"])):
                yield dict(case, turns=case["turns"][:i] + case["turns"][i + 1:])
        for i in range(len(case["eps"])):
            yield dict(case, eps=case["eps"][:i] + case["eps"][i + 1:])
        if len(case["graphs"]) > 1:
            yield dict(case, graphs=case["graphs"][:-1])
        for j, t in enumerate(case["turns"]):
            if t.get("hook"):
                ts = list(case["turns"])
                ts[j] = dict(t, hook=None)
                yield dict(case, turns=ts)


class ComposeTurn(_Compose):
    name = "compose.turn"
    max_turns = 1
    budget = {"quick": 250, "thorough": 2400, "search": 1500}


class ComposeHistory(_Compose):
    name = "compose.hist"
    max_turns = 4
    budget = {"quick": 150, "thorough": 1500, "search": 1000}


COMPONENTS = [ComposeTurn(), ComposeHistory()]


def run(ctx: Ctx) -> None:
    """Run both components (what the integrator calls from C01's `run`)."""
    from harness.core import run_component
    for c in COMPONENTS:
        c.bind(ctx)
        c._real.clear()
        run_component(ctx, c)
        c._real.clear()
