"""Strings matched by a (simple) regular expression, generated from its sre parse tree.

`gen(src, flags, rng)`   a random string the pattern matches (verified with the real `re` by the caller)
`minimal(src, flags)`    a match with the fewest whitespace-separated tokens the generator can build
                         (optional parts dropped, minimal repeat counts, every alternative / mixed class tried)
`first_may_be_space(src, flags)`  can a match start with a whitespace character?
Supports literals, classes, categories, groups, alternation, bounded/unbounded repeats, zero-width assertions
(ignored while generating; the caller verifies the result).  Anything else raises `Unsupported`.
"""
from __future__ import annotations

import itertools
import random
import re

try:  # Python >= 3.11
    import re._parser as sre_parse
    import re._constants as sre_c
except ImportError:  # pragma: no cover
    import sre_parse
    import sre_constants as sre_c


class Unsupported(Exception):
    pass


_CAT = {sre_c.CATEGORY_SPACE: (" ", "\t", "\n"), sre_c.CATEGORY_DIGIT: ("0", "7"), sre_c.CATEGORY_WORD: ("a", "Z", "_"),
        sre_c.CATEGORY_NOT_SPACE: ("x", "."), sre_c.CATEGORY_NOT_DIGIT: ("x", " "), sre_c.CATEGORY_NOT_WORD: (".", " ")}


def _class_members(items):
    out = []
    for op, av in items:
        if op is sre_c.LITERAL:
            out.append(chr(av))
        elif op is sre_c.RANGE:
            out += [chr(av[0]), chr(av[1])]
        elif op is sre_c.CATEGORY:
            out += list(_CAT[av])
        else:
            raise Unsupported(str(op))
    return out


def _options(node, rng, minimal):
    """list of candidate strings for one node (all alternatives when `minimal`, else one random pick)"""
    op, av = node
    if op is sre_c.LITERAL:
        c = chr(av)
        return [c] if minimal or rng is None else [rng.choice([c, c.upper(), c.lower()])]
    if op is sre_c.AT:
        return [""]
    if op is sre_c.ANY:
        return ["x"]
    if op is sre_c.CATEGORY:
        m = _CAT[av]
        return [m[0]] if minimal else [rng.choice(m)]
    if op is sre_c.IN:
        mem = _class_members(av)
        if minimal:
            ws = [c for c in mem if c.isspace()][:1]
            nw = [c for c in mem if not c.isspace()][:1]
            return ws + nw
        return [rng.choice(mem)]
    if op is sre_c.SUBPATTERN:
        return _seq_options(av[3], rng, minimal)
    if op is sre_c.BRANCH:
        alts = av[1]
        if minimal:
            return [s for a in alts for s in _seq_options(a, rng, minimal)]
        return _seq_options(rng.choice(alts), rng, minimal)
    if op in (sre_c.MAX_REPEAT, sre_c.MIN_REPEAT):
        lo, hi, sub = av
        if minimal:
            # minimal repeat count, and one more when the part is optional (a separator may be needed by a `\\b`)
            out = []
            for n in ([lo] if lo > 0 else [0, 1] if hi >= 1 else [0]):
                parts = [_seq_options(sub, rng, minimal)[:4] for _ in range(n)]
                out += ["".join(t) for t in itertools.islice(itertools.product(*parts), 128)] if parts else [""]
            return out
        n = rng.randint(lo, min(lo + 3, hi if hi != sre_c.MAXREPEAT else lo + 3))
        parts = [_seq_options(sub, rng, minimal) for _ in range(n)]
        return ["".join(t) for t in itertools.islice(itertools.product(*parts), 64)] if parts else [""]
    raise Unsupported(str(op))


def _seq_options(seq, rng, minimal):
    parts = [_options(n, rng, minimal) for n in seq]
    return ["".join(t) for t in itertools.islice(itertools.product(*parts), 4096)] if parts else [""]


def gen(src: str, flags: int, rng: random.Random) -> str:
    return _seq_options(sre_parse.parse(src, flags), rng, False)[0]


def minimal(src: str, flags: int) -> str:
    pat = re.compile(src, flags)
    cands = [s for s in _seq_options(sre_parse.parse(src, flags), None, True) if pat.fullmatch(s)]
    if not cands:
        raise Unsupported("no generated candidate matches")
    return min(cands, key=lambda s: (len(s.split()), len(s), s))


def _first(seq):
    """(set of possible first characters of a match of `seq`, can `seq` match without consuming?)"""
    firsts = set()
    for op, av in seq:
        if op is sre_c.AT:
            continue
        if op is sre_c.LITERAL:
            return firsts | {chr(av)}, False
        if op is sre_c.IN:
            return firsts | set(_class_members(av)), False
        if op is sre_c.CATEGORY:
            return firsts | set(_CAT[av]), False
        if op is sre_c.ANY:
            return firsts | {" ", "x"}, False
        if op is sre_c.SUBPATTERN:
            f, nullable = _first(av[3])
        elif op is sre_c.BRANCH:
            f, nullable = set(), False
            for a in av[1]:
                fa, na = _first(a)
                f |= fa
                nullable = nullable or na
        elif op in (sre_c.MAX_REPEAT, sre_c.MIN_REPEAT):
            f, nullable = _first(av[2])
            nullable = nullable or av[0] == 0
        else:
            raise Unsupported(str(op))
        firsts |= f
        if not nullable:
            return firsts, False
    return firsts, True


def first_may_be_space(src: str, flags: int) -> bool:
    f, nullable = _first(sre_parse.parse(src, flags))
    return nullable or any(c.isspace() for c in f)
