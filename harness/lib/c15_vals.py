"""Value / element domains shared by the C15 cache components.

The Lean models treat stored values as opaque naturals.  On the Python side a value id denotes a
concrete Python object: the first ids are the *falsy / sentinel-looking* values a cache must store and
serve like any other (None — e.g. a negative-cache entry —, 0, "", False, (), 0.0); every other id is the
integer itself.  Identity of a value coming back from the implementation is (type, repr), so 0 / False / 0.0
stay distinct although they are `==`.

Several APIs conflate "hit on a stored None" with "miss" in their *return value* (LRUBytes.get,
LRUCache.get, DeterministicLRU.get(key) …) while the state (recency, counters) still tells them apart:
`obs` / `obs_model` canonicalise such a return value on both sides (None ↦ null), the state observations
always carry the id.
"""
from __future__ import annotations

import random
from typing import Any, List, Optional

FALSY: List[Any] = [None, 0, "", False, (), 0.0]
P = len(FALSY)
NONE_ID = 0
#: ids whose Python values are pairwise non-`==` (for code that compares values: merge `assert_equal`)
NEQ_FALSY_IDS = [0, 1, 2, 4]


def val_of(i: int) -> Any:
    return FALSY[i] if 0 <= i < P else i


def val_id(v: Any) -> int:
    """Inverse of `val_of`; -1 for a foreign object."""
    if type(v) is int and v >= P:
        return v
    for j, f in enumerate(FALSY):
        if type(f) is type(v) and repr(f) == repr(v):
            return j
    return -1


def obs(v: Any) -> Optional[int]:
    """Implementation side of a value-or-miss return: None stays None."""
    return None if v is None else val_id(v)


def obs_model(r: Optional[int]) -> Optional[int]:
    """Model side of a value-or-miss return (`Option Nat`): a hit on the id of None reads as None."""
    return None if r is None or r == NONE_ID else r


def gen_val(rng: random.Random, neq_only: bool = False) -> int:
    """Boundary-biased value id: ~45 % falsy objects (None most often), else an integer."""
    r = rng.random()
    if r < 0.2:
        return NONE_ID
    if r < 0.45:
        return rng.choice(NEQ_FALSY_IDS if neq_only else list(range(P)))
    return rng.randrange(P, 1000 if not neq_only else 50)


# ---- elements of the set-like containers (DeterministicLRUSet, ring.DeterministicLRU, DedupeRing) ----
_FALSY_ELEMS = ["", None, 0]


def elem(i: int) -> Any:
    """Element for index i: even small indices are falsy hashables ("", None, 0), the rest strings."""
    if i % 2 == 0 and i // 2 < len(_FALSY_ELEMS):
        return _FALSY_ELEMS[i // 2]
    return f"n{i}"


def elem_id(x: Any) -> int:
    for j, f in enumerate(_FALSY_ELEMS):
        if type(f) is type(x) and f == x:
            return 2 * j
    if isinstance(x, str) and x[:1] == "n" and x[1:].isdigit():
        return int(x[1:])
    return -1
