"""C05 — cache-on / cache-off differential on the REAL stages through the REAL `run_turn` (rig: turnrig).

A *case* is a JSON-able history over one or two engine states that live in ONE process:

    {"mode": <cache configuration>, "cap": int, "ttl": int, "worlds": [spec, spec?], "base": {cfg overlay},
     "ops": [ {"op": "turn", "w": 0, "agent": "A", "text": "...", "cfg": {overlay}, "now": "...", "kill": bool,
               "sched": {budgets} | None},
              {"op": "node", "w": 0, "id": .., "label": ..}, {"op": "edge", "w": 0, "id", "src", "dst", "wt", "rel"},
              {"op": "episode", "w": 0, "ep": {...}}, {"op": "clock", "dt": int} ] }

`run_history(scratch, case, caches_on)` replays the history once.  With `caches_on=False` every cache of the
mode is switched off (T1 stage cache, T2 stage cache, turn-level manager); everything else in the configuration
is the same.  The observation per turn is what the stages returned *as used by the orchestrator*:
T1Result.graph_deltas + counters, T2Result.retrieved ids/order/scores, residual deltas, counters — minus the
cache diagnostics (`DIAG_T1`, `DIAG_T2`).

Cache configurations (`MODES`):
  t1_lru / t2_lru    legacy LRU+TTL stage cache with an INJECTED clock (pre-installed in the stage module with
                     the very configuration tuple the stage expects, so the stage keeps it)
  t1_bytes / t2_bytes  byte-bounded LRUBytes under perf.enabled
  turn               turn-level CacheManager (state._cache_mgr) with an injected clock
  all_lru / all_bytes  all three on
"""
from __future__ import annotations

import copy
import importlib
import json
from pathlib import Path
from typing import Any, Dict, List, Optional

from harness import core as _core
from harness.lib import turnrig as TR

MODES = ["t1_lru", "t1_bytes", "t2_lru", "t2_bytes", "turn", "all_lru", "all_bytes"]

# Cache diagnostics: the ONLY result fields that may differ between a cached and an uncached run.
# (derived from the code: every metrics key written next to a cache get/put in stages/t1.py and
#  stages/t2/core.py, plus `max_delta`, which the cached T1 path reports as 0.0 by design;
#  `diag_keys_from_source` re-derives the list from the AST and `run` notes any drift.)
DIAG_T1 = {"cache_hits", "cache_misses", "cache_used", "cache_enabled", "max_delta",
           "t1.cache_evictions", "t1.cache_bytes"}
DIAG_T2 = {"cache_hits", "cache_misses", "cache_used", "cache_enabled", "t2.cache_evictions", "t2.cache_bytes"}


def diag_keys_from_source() -> Dict[str, List[str]]:
    """String constants of the two stage files that name a cache diagnostic (contain 'cache' and are used as a
    metrics key: subscript store / dict-literal key) + 'max_delta'."""
    import ast
    out = {}
    for tag, rel in (("t1", "clematis/engine/stages/t1.py"), ("t2", "clematis/engine/stages/t2/core.py")):
        src = (_core.REPO / rel).read_text()
        keys = set()
        for node in ast.walk(ast.parse(src)):
            if isinstance(node, ast.Dict):
                for k in node.keys:
                    if isinstance(k, ast.Constant) and isinstance(k.value, str):
                        keys.add(k.value)
            if isinstance(node, ast.Subscript) and isinstance(node.ctx, ast.Store):
                s = node.slice
                if isinstance(s, ast.Constant) and isinstance(s.value, str):
                    keys.add(s.value)
        keys = {k for k in keys if ("cache" in k and not k.startswith("_") and k not in ("cache", "embed_store"))}
        if tag == "t1":
            keys.add("max_delta")
        out[tag] = sorted(keys)
    return out


def code(x: Any) -> int:
    """48-bit code of an opaque payload (only equality matters on the Lean side)."""
    import hashlib
    if not isinstance(x, str):
        x = json.dumps(_core._canon(x), sort_keys=True, default=repr)
    return int(hashlib.sha1(x.encode("utf-8", "surrogatepass")).hexdigest()[:12], 16)


def cps(s: str) -> List[int]:
    return [ord(c) for c in s]


class KeyLog(list):
    """keys a stage asked its cache for + whether each lookup was a hit"""

    def __init__(self):
        super().__init__()
        self.hits: List[bool] = []

    def reset(self):
        del self[:]
        del self.hits[:]


class Spy:
    """Transparent wrapper around a stage cache that logs the keys the stage asks for."""

    def __init__(self, inner, log: list):
        self._inner, self._log = inner, log

    def get(self, key):
        self._log.append(key)
        val = self._inner.get(key)
        if hasattr(self._log, "hits"):
            self._log.hits.append(val is not None)
        return val

    def put(self, *a, **k):
        return self._inner.put(*a, **k)

    def __contains__(self, key):
        return key in self._inner

    def items(self):
        return self._inner.items()


def graph_content(g) -> list:
    nodes = []
    for nid, n in g.nodes.items():
        try:
            tags = list((getattr(n, "attrs", None) or {}).get("tags", []) or [])
        except Exception:
            tags = []
        nodes.append([str(nid), str(n.id), n.label, tags])
    edges = [[str(eid), e.src, e.dst, _core.f2b(float(e.weight)), e.rel] for eid, e in g.edges.items()]
    return [nodes, edges]


def t1_raw(ctx, state, text: str, gid: str = "g:surface") -> dict:
    """The read-set of `_t1_one_graph(gid)` as the record `Clem.CacheKeys.T1Raw` (+ the seeds)."""
    from clematis.engine.stages.t1 import _match_keywords, _cfg_get
    from clematis.engine.cache import stable_key
    cfg_t1 = ctx.cfg.t1
    g = state["store"].get_graph(gid)
    labels = []
    for n in g.nodes.values():
        if getattr(n, "label", None):
            labels.append((n.id, n.label))
        for kw in list((getattr(n, "attrs", None) or {}).get("tags", []) or []):
            if isinstance(kw, str) and kw:
                labels.append((n.id, kw))
    seeds = sorted(_match_keywords(text, labels).keys())
    # further active graphs (multi-graph states): their content and seeds are part of what the T1 call reads
    others = [x for x in (state.get("active_graphs") or []) if x != gid]
    all_content = [[gid, graph_content(g)]]
    all_seeds = [gid + "|" + s_ for s_ in seeds]
    for og in others:
        g2 = state["store"].get_graph(og)
        lab2 = [(n.id, n.label) for n in g2.nodes.values() if getattr(n, "label", None)]
        all_content.append([og, graph_content(g2)])
        all_seeds += [og + "|" + s_ for s_ in sorted(_match_keywords(text, lab2).keys())]
    caps = getattr(ctx, "slice_budgets", None) or {}
    relax = cfg_t1.get("relax_cap", None)
    oi = lambda v: None if v is None else int(v)
    return {
        "gid": code(gid), "graph": code(all_content), "_graph0": code(graph_content(g)), "_ngraphs": 1 + len(others),
        "text": code(text),
        "decay": code(stable_key(cfg_t1.get("decay", {}))),
        "mult": code(stable_key(cfg_t1.get("edge_type_mult", {"supports": 1.0, "associates": 0.6, "contradicts": 0.8}))),
        "radius": int(cfg_t1.get("radius_cap", 4)), "iter": int(cfg_t1.get("iter_cap", 50)),
        "layers": int(cfg_t1.get("iter_cap_layers", 50)), "queue": int(cfg_t1.get("queue_budget", 10000)),
        "relax": oi(relax), "nb": int(_core.f2b(float(cfg_t1.get("node_budget", 1.5)))),
        "sIters": oi(caps.get("t1_iters")), "sPops": oi(caps.get("t1_pops")),
        "fr": int(_cfg_get(ctx.cfg, ["perf", "t1", "caps", "frontier"], 0) or 0),
        "vis": int(_cfg_get(ctx.cfg, ["perf", "t1", "caps", "visited"], 0) or 0),
        "ded": int(_cfg_get(ctx.cfg, ["perf", "t1", "dedupe_window"], 0) or 0),
        "perf": bool(_cfg_get(ctx.cfg, ["perf", "enabled"], False)),
        "seeds": [code(s_) for s_ in (seeds if not others else all_seeds)], "_seeds": list(seeds),
        "_decay": stable_key(cfg_t1.get("decay", {})), "_gid": gid, "_etag": state["store"].version_etag(gid),
    }


def _flat(d: Any, prefix: str = "") -> Dict[str, Any]:
    """dotted-leaf view of a config subtree"""
    out: Dict[str, Any] = {}
    if isinstance(d, dict):
        for k, v in d.items():
            out.update(_flat(v, f"{prefix}{k}."))
    else:
        out[prefix[:-1]] = d if isinstance(d, (int, str, bool, type(None))) else repr(d)
    return out


def t2_raw(ctx, state, text: str, t1) -> dict:
    """The read-set of `t2_semantic` as the record `Clem.CacheKeys.T2Raw`."""
    from clematis.engine.stages.t2.state import gather_changed_labels, build_label_map
    from clematis.engine.stages.t2.helpers import owner_for_query
    cfg = ctx.cfg
    cfg_t2 = cfg.get("t2", {})
    idx = state.get("mem_index")
    eps = getattr(idx, "_eps", []) if idx is not None else []
    rk = cfg_t2.get("ranking", {}) or {}
    caps = getattr(ctx, "slice_budgets", None) or {}
    q = cfg_t2.get("quality", {}) or {}
    return {
        "tiers": [code(str(t)) for t in cfg_t2.get("tiers", ["exact_semantic", "cluster_semantic", "archive"])],
        "_tiers": list(cfg_t2.get("tiers", ["exact_semantic", "cluster_semantic", "archive"])),
        "text": cps(text or ""), "labels": [cps(l) for l in gather_changed_labels(state, t1)],
        "days": int(cfg_t2.get("exact_recent_days", 30)), "thr": int(_core.f2b(float(cfg_t2.get("sim_threshold", 0.3)))),
        "topM": int(cfg_t2.get("clusters_top_m", 3)),
        "quality": code(q) if bool(q.get("enabled", False)) else None,
        "sliceK": code(repr(caps.get("t2_k"))) if caps.get("t2_k") is not None else None,
        "_sliceK": repr(caps.get("t2_k")) if caps.get("t2_k") is not None else None,
        "scope": code(str(cfg_t2.get("owner_scope", "any")).lower()), "_scope": str(cfg_t2.get("owner_scope", "any")).lower(),
        "owner": code(repr(owner_for_query(ctx, cfg_t2))), "_owner": repr(owner_for_query(ctx, cfg_t2)),
        "k": int(cfg_t2.get("k_retrieval", 64)), "now": code(str(getattr(ctx, "now", None))), "_now": str(getattr(ctx, "now", None)),
        "rank": [int(_core.f2b(float(rk.get("alpha_sim", 0.75)))), int(_core.f2b(float(rk.get("beta_recency", 0.2)))),
                 int(_core.f2b(float(rk.get("gamma_importance", 0.05))))],
        "rcap": int(cfg_t2.get("residual_cap_per_turn", 32)), "ksurf": int(cfg.get("k_surface", 32)),
        "ver": int(idx.index_version()) if idx is not None else 0,
        "index": code(index_content(idx)) if idx is not None else 0,
        "labelMap": code(sorted(build_label_map(state).items())),
        "_q": _flat(q), "_hyb": _flat(cfg_t2.get("hybrid", {}) or {}),
        "_gel": code(sorted((str(k), str(v)) for k, v in ((state.get("graph") or {}).get("edges") or {}).items())),
        "rest": 0,       # ctx.enc and the contents of an aliasing map file: constant within a history
        "tok": code(str(id(idx))) if idx is not None else 0,
        "hybrid": (code([_flat(cfg_t2.get("hybrid", {}) or {}),
                         sorted((str(k), str(v)) for k, v in ((state.get("graph") or {}).get("edges") or {}).items())])
                   if bool((cfg_t2.get("hybrid", {}) or {}).get("enabled", False)) else 0),
        "_hybrid_on": bool((cfg_t2.get("hybrid", {}) or {}).get("enabled", False)),
    }


class Clock:
    def __init__(self):
        self.t = 1000.0

    def __call__(self):
        return self.t


def _cache_overlay(mode: str, on: bool, cap: int, ttl: int) -> dict:
    off = {"enabled": False, "max_entries": 0, "ttl_s": 0}
    lru = {"enabled": True, "max_entries": cap, "ttl_s": ttl}
    t1_on = on and mode in ("t1_lru", "all_lru")
    t2_on = on and mode in ("t2_lru", "all_lru")
    t1b = on and mode in ("t1_bytes", "all_bytes")
    t2b = on and mode in ("t2_bytes", "all_bytes")
    turn_on = on and mode in ("turn", "all_lru", "all_bytes")
    ov: Dict[str, Any] = {
        "t1": {"cache": lru if t1_on else off},
        "t2": {"cache": lru if t2_on else off},
        "t4": {"cache": {"enabled": bool(turn_on), "namespaces": ["t2:semantic"], "max_entries": cap, "ttl_sec": ttl}},
    }
    if mode.endswith("bytes"):
        # perf.enabled is part of the configuration of BOTH runs (it also gates the T1 perf caps); only the cache
        # capacities are zeroed in the reference run
        ov["perf"] = {"enabled": True, "metrics": {"report_memory": False},
                      "t1": {"cache": {"max_entries": cap if t1b else 0, "max_bytes": 100000 if t1b else 0}},
                      "t2": {"cache": {"max_entries": cap if t2b else 0, "max_bytes": 100000 if t2b else 0}}}
    return ov


def _install_stage_caches(mode: str, on: bool, cap: int, ttl: int, clock: Clock, spy1: list, spy2: list) -> None:
    """Pre-install the stage caches (legacy LRU with an INJECTED clock / LRUBytes), wrapped in a key-logging spy;
    the stage keeps a cache whose configuration tuple equals the one it derives from the config."""
    TR.reset_process_state()
    if not on:
        return
    from clematis.engine.cache import LRUCache, ThreadSafeCache, ThreadSafeBytesCache
    from clematis.engine.util.lru_bytes import LRUBytes
    m1 = importlib.import_module("clematis.engine.stages.t1")
    m2 = importlib.import_module("clematis.engine.stages.t2.cache")
    if mode in ("t1_lru", "all_lru"):
        m1._T1_CACHE = Spy(ThreadSafeCache(LRUCache(max_entries=cap, ttl_s=ttl, time_fn=clock)), spy1)
        m1._T1_CACHE_CFG, m1._T1_CACHE_KIND = ("lru", cap, ttl), "lru"
    if mode in ("t2_lru", "all_lru"):
        m2._T2_CACHE = Spy(ThreadSafeCache(LRUCache(max_entries=cap, ttl_s=ttl, time_fn=clock)), spy2)
        m2._T2_CACHE_CFG, m2._T2_CACHE_KIND = ("lru", cap, ttl), "lru"
    if mode in ("t1_bytes", "all_bytes"):
        m1._T1_CACHE = Spy(ThreadSafeBytesCache(LRUBytes(max_entries=cap, max_bytes=100000)), spy1)
        m1._T1_CACHE_CFG, m1._T1_CACHE_KIND = ("bytes", cap, 100000), "bytes"
    if mode in ("t2_bytes", "all_bytes"):
        m2._T2_CACHE = Spy(LRUBytes(max_entries=cap, max_bytes=100000), spy2)
        m2._T2_CACHE_CFG, m2._T2_CACHE_KIND = ("bytes", cap, 100000), "bytes"


def _canon_t1(r) -> dict:
    m = getattr(r, "metrics", {}) or {}
    return {"deltas": copy.deepcopy(list(getattr(r, "graph_deltas", []) or [])),
            "metrics": {k: copy.deepcopy(v) for k, v in m.items() if k not in DIAG_T1}}


def _canon_t2(r) -> dict:
    m = getattr(r, "metrics", {}) or {}
    hits = []
    for h in getattr(r, "retrieved", []) or []:
        if isinstance(h, dict):
            hits.append([str(h.get("id")), _core.f2b(float(h.get("score", 0.0)))])
        else:
            hits.append([str(getattr(h, "id", None)), _core.f2b(float(getattr(h, "score", 0.0)))])
    return {"retrieved": hits,
            "residual": copy.deepcopy(list(getattr(r, "graph_deltas_residual", []) or [])),
            "metrics": {k: copy.deepcopy(v) for k, v in m.items() if k not in DIAG_T2}}


def _jsonable(x):
    return json.loads(json.dumps(_core._canon(x), default=repr))


def index_content(idx) -> list:
    """Everything T2 reads from the memory index, in order (ids, texts, owners, dates, importance, exact vectors)."""
    out = []
    for e in (getattr(idx, "_eps", []) or []):
        v = e.get("vec_full")
        try:
            vb = [_core.f2b(float(x)) for x in list(v)] if v is not None else None
        except Exception:
            vb = repr(v)
        out.append([e.get("id"), e.get("text"), e.get("owner"), e.get("ts"), e.get("tags"), e.get("aux"), vb])
    return out


def world_versions(wi: int, w) -> dict:
    """The version components of the cache keys next to the content they stand for (after a mutating op)."""
    st = w.state
    store, idx = st.get("store"), st.get("mem_index")
    rec: Dict[str, Any] = {"w": wi}
    if store is not None:
        rec["etag"] = store.version_etag("g:surface")
        rec["graph"] = code(graph_content(store.get_graph("g:surface")))
    if idx is not None:
        rec["ver"] = int(idx.index_version())
        rec["index"] = code(index_content(idx))
    return rec


def _real_apply_store(store):
    """The rig's store overrides `apply_deltas` (additive ProposedDelta semantics for the turn's own apply).  Dict
    deltas ({"op": "upsert_edge"|"upsert_node", ...}) are routed to the REAL `InMemoryGraphStore.apply_deltas`."""
    from clematis.graph.store import InMemoryGraphStore
    base = type(store)

    class C05Store(base):  # type: ignore[misc, valid-type]
        def apply_deltas(self, graph_id, deltas):  # type: ignore[override]
            if deltas and all(isinstance(d, dict) for d in deltas):
                return InMemoryGraphStore.apply_deltas(self, graph_id, deltas)
            return base.apply_deltas(self, graph_id, deltas)

    store.__class__ = C05Store


def run_history(scratch: Path, case: dict, caches_on: bool, key_log: Optional[list] = None,
                trace: Optional[list] = None) -> List[dict]:
    """Replay the history; returns one observation per `turn` op.  `trace` (optional) receives, after the initial
    build and after EVERY op, the version components (graph etag, index version) and the content codes per state."""
    mode, cap, ttl = case["mode"], int(case.get("cap", 512)), int(case.get("ttl", 300))
    clock = Clock()
    spy1: KeyLog = KeyLog()
    spy2: KeyLog = KeyLog()
    _install_stage_caches(mode, caches_on, cap, ttl, clock, spy1, spy2)
    from clematis.engine.cache import CacheManager
    orch = importlib.import_module("clematis.engine.orchestrator")
    t1mod = importlib.import_module("clematis.engine.stages.t1")
    t2mod = importlib.import_module("clematis.engine.stages.t2")
    cur: Dict[str, Any] = {}

    seen_t2: set = set()

    def cap_t1(ctx, state, text):
        try:
            raw = t1_raw(ctx, state, text)
        except Exception as e:      # malformed configuration: no record (the stage itself decides what happens)
            raw = {"__err__": type(e).__name__}
        spy1.reset()
        r = t1mod.t1_propagate(ctx, state, text)
        cur["t1"] = _canon_t1(r)
        live.append(("t1", r))
        m = getattr(r, "metrics", {}) or {}
        cur["x1"] = {"raw": raw, "real": list(spy1), "res": code(cur["t1"]), "hit": int(m.get("cache_hits", 0) or 0)}
        return r

    def cap_t2(ctx, state, text, t1):
        try:
            raw = t2_raw(ctx, state, text, t1)
        except Exception as e:
            raw = {"__err__": type(e).__name__}
        spy2.reset()
        r = t2mod.t2_semantic(ctx, state, text, t1)
        c = _canon_t2(r)
        cur.setdefault("x2", []).append({"raw": raw, "real": list(spy2), "res": code(c),
                                        "hit": bool(any(spy2.hits)) or id(r) in seen_t2})
        seen_t2.add(id(r))
        keep.append(r)
        live.append(("t2", r))
        if "t2" not in cur:
            cur["t2"] = c
            cur["t2_src"] = "stage"
        else:                       # the one-shot RAG inside T3 calls the stage again with its own query
            cur.setdefault("t2_rag", []).append(c)
        return r

    keep: list = []                 # keeps results alive so that `id` stays unique
    live: list = []                 # the result objects handed out during the current turn (aliasing monitor)

    class CapMgr(CacheManager):
        def get(self, namespace, key):
            hit, val = super().get(namespace, key)
            cur.setdefault("xturn", []).append({"ns": namespace, "real": key, "hit": bool(hit)})
            if hit and namespace == "t2:semantic" and "t2" not in cur:
                cur["t2"] = _canon_t2(val)
                cur["t2_src"] = "turn-cache"
            return hit, val

    overlay = _cache_overlay(mode, caches_on, cap, ttl)
    worlds = []
    for wi, spec in enumerate(case["worlds"]):
        sp = dict(copy.deepcopy(spec))
        sp.setdefault("boot_loaded", True)
        if sp.get("gel_pairs"):
            from clematis.engine.stages.hybrid import _edge_key
            sp["gel"] = {"nodes": {}, "edges": {_edge_key(a, b): {"src": a, "dst": b, "weight": float(wt)}
                                                for a, b, wt in sp.pop("gel_pairs")}}
        sp["cfg"] = TR.deep_merge(TR.deep_merge(case.get("base") or {}, sp.get("cfg") or {}), overlay)
        w = TR.build_world(Path(scratch) / f"w{wi}", sp, fresh_process_state=False)
        if caches_on and mode in ("turn", "all_lru", "all_bytes"):
            w.state["_cache_mgr"] = CapMgr(max_entries=cap, ttl_sec=ttl, time_fn=clock)
        if w.store is not None and sp.get("graph2"):
            from clematis.graph.store import Node as _N, Edge as _E
            g2 = sp["graph2"]
            w.store.ensure("g:aux")
            if g2.get("nodes"):
                w.store.upsert_nodes("g:aux", [_N(id=n[0], label=n[1]) for n in g2["nodes"]])
            if g2.get("edges"):
                w.store.upsert_edges("g:aux", [_E(id=e[0], src=e[1], dst=e[2], weight=float(e[3]), rel=e[4]) for e in g2["edges"]])
            w.state["active_graphs"] = ["g:surface", "g:aux"]
        if w.store is not None and callable(getattr(type(w.store), "apply_deltas", None)):
            _real_apply_store(w.store)
        worlds.append(w)
        if trace is not None:
            trace.append(world_versions(wi, w))
    # the results as the rest of the turn receives them (a turn-level hit hands out its own object)
    health = importlib.import_module("clematis.engine.health")
    real_health = health.check_and_log

    def cap_health(ctx, state, t1, t2, *a, **k):
        for kind, obj in (("t1", t1), ("t2", t2)):
            if obj is not None and not any(o is obj for _, o in live):
                live.append((kind, obj))
        return real_health(ctx, state, t1, t2, *a, **k)

    had = {n: (n in vars(orch), vars(orch).get(n)) for n in ("t1_propagate", "t2_semantic")}
    out: List[dict] = []
    try:
        orch.t1_propagate = cap_t1
        orch.t2_semantic = cap_t2
        health.check_and_log = cap_health
        turn_no = 0
        for op in case["ops"]:
            k = op["op"]
            if k == "clock":
                clock.t += float(op["dt"])
            elif k == "node":
                from clematis.graph.store import Node
                worlds[op["w"]].store.upsert_nodes("g:surface", [Node(id=op["id"], label=op["label"])])
            elif k == "edge":
                from clematis.graph.store import Edge
                worlds[op["w"]].store.upsert_edges("g:surface", [Edge(id=op["id"], src=op["src"], dst=op["dst"],
                                                                       weight=float(op["wt"]), rel=op["rel"])])
            elif k == "episode":
                w = worlds[op["w"]]
                ep = dict(op["ep"])
                from clematis.adapters.embeddings import BGEAdapter
                vec_text = ep.pop("vec_text", None)     # a vector that is not the embedding of the text (re-embedded row)
                ep["vec_full"] = BGEAdapter(dim=int(w.cfg_plain.get("k_surface", 32))).encode(
                    [str(ep.get("text", "") if vec_text is None else vec_text)])[0]
                w.state["mem_index"].add(ep)
            elif k == "edge_rmw":
                # read-modify-write: mutate the STORED object, then upsert that same object
                st = worlds[op["w"]].store
                e = st.get_graph("g:surface").edges[op["id"]]
                e.weight = float(op["wt"])
                st.upsert_edges("g:surface", [e])
            elif k == "node_rmw":
                st = worlds[op["w"]].store
                n = st.get_graph("g:surface").nodes[op["id"]]
                n.label = op["label"]
                st.upsert_nodes("g:surface", [n])
            elif k == "edge_copy":
                # control: upsert of an equal FRESH copy (a no-op for every reader)
                from clematis.graph.store import Edge
                st = worlds[op["w"]].store
                e = st.get_graph("g:surface").edges[op["id"]]
                st.upsert_edges("g:surface", [Edge(id=e.id, src=e.src, dst=e.dst, weight=e.weight, rel=e.rel)])
            elif k == "gel":
                from clematis.engine.stages.hybrid import _edge_key
                g = worlds[op["w"]].state.setdefault("graph", {"nodes": {}, "edges": {}})
                g.setdefault("edges", {})[_edge_key(op["a"], op["b"])] = {"src": op["a"], "dst": op["b"], "weight": float(op["wt"])}
            elif k == "apply":
                # the REAL apply_changes handing dict deltas to the REAL InMemoryGraphStore.apply_deltas
                from clematis.engine.apply import apply_changes
                from types import SimpleNamespace as _NS
                w = worlds[op["w"]]
                turn_no += 1
                ctx = TR.make_ctx(w, turn_no)
                with TR._env(w):
                    apply_changes(ctx, w.state, _NS(approved_deltas=copy.deepcopy(op["deltas"])))
            elif k == "turn":
                turn_no += 1
                w = worlds[op["w"]]
                cfg = TR.deep_merge(TR.deep_merge(case.get("base") or {}, op.get("cfg") or {}), overlay)
                if op.get("kill"):
                    cfg = TR.deep_merge(cfg, {"t4": {"enabled": False}})
                if op.get("sched") is not None:
                    cfg = TR.deep_merge(cfg, {"scheduler": {"enabled": True, "quantum_ms": 10 ** 8,
                                                            "budgets": dict(op["sched"], wall_ms=10 ** 9)}})
                w.cfg_plain = TR._validated_cfg({"cfg": cfg}, w.snap_dir)
                w.cfg = TR.to_attrdict(w.cfg_plain)
                w.agent = str(op.get("agent", "A"))
                w.spec["now"] = op.get("now", "2025-09-01T00:00:00Z")
                cur.clear()
                ver_before = w.state.get("version_etag")
                _idx0 = w.state.get("mem_index")
                _t2c = w.cfg_plain.get("t2") or {}
                _hyb_on = bool((_t2c.get("hybrid") or {}).get("enabled", False))
                turn_ctx = {
                    "agent": repr(w.agent), "now": str(w.spec["now"]),
                    "config": code([_t2c, w.cfg_plain.get("perf"), w.cfg_plain.get("k_surface")]),
                    "graphs": [w.store.version_etag("g:surface")] if w.store is not None else [],
                    "indexVer": int(_idx0.index_version()) if _idx0 is not None else None,
                    "gel": code(sorted((str(k), str(v)) for k, v in ((w.state.get("graph") or {}).get("edges") or {}).items()))
                    if _hyb_on else 0,
                }
                del live[:]
                beh = {"store_apply_all": TR.fault("store_apply_all", "OSError")} if op.get("outage") else None
                run = TR.run_turn(w, op["text"], turn_id=turn_no, behaviours=beh)
                if case.get("mutate_returned"):
                    # value aliasing: a caller that edits the containers of a result it was handed (after the turn is over)
                    # must not change what a later hit returns
                    for kind, obj in live:
                        try:
                            if kind == "t1":
                                obj.graph_deltas.append({"op": "upsert_node", "id": "__caller_edit__"})
                                obj.metrics["__caller_edit__"] = 1
                            else:
                                obj.retrieved.reverse()
                                obj.graph_deltas_residual.append({"op": "upsert_node", "id": "__caller_edit__"})
                                obj.metrics["__caller_edit__"] = 1
                        except Exception:
                            pass
                sb = getattr(getattr(w, "last_ctx", None), "slice_budgets", None) or {}
                turn_ctx["t1"] = sorted(str(d.get("id")) for d in ((cur.get("t1") or {}).get("deltas") or []))
                for xt in cur.get("xturn", []):
                    xt["ctx"] = turn_ctx
                    xt["raw"] = {"version": None if ver_before is None else cps(str(ver_before)), "text": cps(str(op["text"])),
                                 "sliceK": code("t2_k=" + repr(sb.get("t2_k"))) if sb.get("t2_k") is not None else None,
                                 "_sliceK": ("t2_k=" + repr(sb.get("t2_k"))) if sb.get("t2_k") is not None else None}
                out.append(_jsonable({"t1": cur.get("t1"), "t2": cur.get("t2"), "t2_rag": cur.get("t2_rag"),
                                      "t2_src": cur.get("t2_src"), "x1": cur.get("x1"), "x2": cur.get("x2"),
                                      "xturn": cur.get("xturn"), "ver_before": ver_before, "w": op["w"], "kill": bool(op.get("kill")),
                                      "applied": any(site == "apply" for site, _ in run.calls),
                                      "raised": run.raised, "version": run.state.get("version_etag")}))
            else:
                raise TR.RigError(f"unknown op {k}")
            if trace is not None and "w" in op:
                trace.append(world_versions(op["w"], worlds[op["w"]]))
    finally:
        health.check_and_log = real_health
        for n, (h, prev) in had.items():
            if h:
                setattr(orch, n, prev)
            else:
                try:
                    delattr(orch, n)
                except AttributeError:
                    pass
        TR.reset_process_state()
    return out


EXTRA = ("t2_src", "x1", "x2", "xturn", "ver_before", "w", "kill", "applied")


def strip_src(obs: List[dict]) -> List[dict]:
    return [{k: v for k, v in o.items() if k not in EXTRA} for o in obs]


def first_divergence(on: List[dict], off: List[dict]) -> Optional[dict]:
    # [state, version before the turn, apply_changes ran during the turn]
    vers = [[o.get("w"), o.get("ver_before"), bool(o.get("applied"))] for o in on]
    for i, (a, b) in enumerate(zip(on, off)):
        for st in ("t1", "t2", "t2_rag", "raised", "version"):
            if a.get(st) != b.get(st):
                return {"turn": i, "stage": st, "src": a.get("t2_src"), "versions": vers,
                        "diff": _core.first_diff(a.get(st), b.get(st)) if type(a.get(st)) == type(b.get(st)) else
                        f"served {json.dumps(a.get(st))[:200]} vs fresh {json.dumps(b.get(st))[:200]}"}
    if len(on) != len(off):
        return {"turn": min(len(on), len(off)), "stage": "len", "src": None, "versions": vers,
                "diff": "different number of turns"}
    return None
