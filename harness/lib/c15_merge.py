"""C15 components: merge_caches_deterministic and the ThreadSafeCache / ThreadSafeBytesCache lock wrappers."""
from __future__ import annotations

import json
import random
import sys
import threading
from typing import Any, Dict, List, Tuple

from harness.core import Component
from harness.lib.c15_ttl import Clock
from harness.lib.c15_vals import val_of, val_id, obs, obs_model, gen_val, P as NFALSY


class DictCache:
    """Plain insertion-ordered cache satisfying CacheProtocol (harness-side test double)."""

    def __init__(self, pairs=()):
        self.d: Dict[int, int] = {}
        self.visited: List[int] = []
        for k, v in pairs:
            self.d[k] = v

    def get(self, key):
        return self.d.get(key)

    def put(self, key, value):
        self.d[key] = value

    def __contains__(self, key):
        self.visited.append(key)
        return key in self.d

    def items(self):
        return list(self.d.items())


class MergeComp(Component):
    name = "merge"
    budget = {"quick": 300, "thorough": 12000, "search": 12000}

    def gen(self, rng: random.Random, i: int) -> dict:
        nk = rng.choice([2, 3, 5, 8])
        nw = rng.choice([1, 2, 3, 4])
        distinct = rng.random() < 0.7
        # key_order_key table (a permutation when distinct, else with ties)
        if distinct:
            kord = rng.sample(range(-nk, nk + 3), nk)
            words = rng.sample(range(-3, 9), nw)
        else:
            kord = [rng.randrange(3) for _ in range(nk)]
            words = [rng.randrange(2) for _ in range(nw)]
        workers = []
        agree = rng.random() < 0.3      # all workers agree on values (assert_equal passes)
        agreed = [gen_val(rng, neq_only=True) for _ in range(nk)]
        for w in range(nw):
            keys = rng.sample(range(nk), rng.randrange(nk + 1))
            workers.append({"ord": words[w], "items": [[k, agreed[k] if agree else gen_val(rng, neq_only=True)] for k in keys]})
        mode = rng.choice(["first_wins", "first_wins", "assert_equal"])
        target = rng.choice(["dict", "lru"])
        case: Dict[str, Any] = {"target": target, "mode": mode, "kord": kord, "workers": workers, "distinct": distinct,
                                "perm": rng.sample(range(nw), nw), "shuffle_seed": rng.randrange(1 << 30)}
        npre = rng.choice([0, 0, 1, 2])
        if target == "dict":
            case["pre"] = [[k, agreed[k] if agree else gen_val(rng, neq_only=True)] for k in rng.sample(range(nk), min(nk, npre))]
        else:
            case["max"] = rng.choice([1, 2, 3, 5, 100])
            case["ttl"] = rng.choice([0, 0, 5])
            case["now"] = rng.choice([10, 14, 16, 30])
            case["pre"] = [[rng.choice([0, 10, 12]), k, agreed[k] if agree else gen_val(rng, neq_only=True)]
                           for k in rng.sample(range(nk), min(nk, npre))]
        return case

    def request(self, case: dict) -> dict:
        rq = {"c": "merge", "target": case["target"], "mode": case["mode"], "pre": case["pre"],
              "workers": [{"ord": w["ord"], "items": [[case["kord"][k], k, v] for k, v in w["items"]]}
                          for w in case["workers"]]}
        for f in ("max", "ttl", "now"):
            if f in case:
                rq[f] = case[f]
        return rq

    def _run(self, case: dict, workers: List[dict]) -> dict:
        from clematis.engine.cache import merge_caches_deterministic, LRUCache
        clock = Clock()
        if case["target"] == "dict":
            target: Any = DictCache([(k, val_of(v)) for k, v in case["pre"]])
        else:
            target = LRUCache(max_entries=case["max"], ttl=case["ttl"], time_fn=clock)
            for t, k, v in case["pre"]:
                clock.now = t
                target.put(k, val_of(v))
            clock.now = case["now"]
        wcs = []
        for i, w in enumerate(workers):
            wkey = f"w{w['ord']}:{i}"           # opaque worker handle; order key is looked up
            wcs.append((wkey, DictCache([(k, val_of(v)) for k, v in w["items"]])))
        raised = False
        try:
            merge_caches_deterministic(target, wcs, worker_order_key=lambda wk: int(wk[1:].split(":")[0]),
                                       key_order_key=lambda k: case["kord"][k], on_conflict=case["mode"])
        except AssertionError:
            raised = True
        if case["target"] == "dict":
            return {"raised": raised, "items": [[k, val_id(v)] for k, v in target.items()], "visited": list(target.visited)}
        st = target.stats
        d = target._ns._d
        return {"raised": raised, "s": {"keys": list(d.keys()), "ts": [int(e.ts) for e in d.values()],
                                        "vals": [val_id(e.value) for e in d.values()], "n": len(target),
                                        "hits": st["hits"], "misses": st["misses"], "evicted": st["evicted"]}}

    def impl(self, case: dict) -> Any:
        base = self._run(case, case["workers"])
        # the same merge with the workers listed in another order and every worker's dict in another order
        rs = random.Random(case["shuffle_seed"])
        ws2 = []
        for j in case["perm"]:
            w = case["workers"][j]
            its = list(w["items"])
            rs.shuffle(its)
            ws2.append({"ord": w["ord"], "items": its})
        alt = self._run(case, ws2)
        return {"base": base, "alt": alt}

    def compare(self, case, impl_out, model_out):
        if not (isinstance(impl_out, dict) and "base" in impl_out):
            return super().compare(case, impl_out, model_out)
        b = dict(impl_out["base"])
        m = dict(model_out) if isinstance(model_out, dict) else model_out
        if isinstance(m, dict):
            seq = m.pop("seq", None)
            if isinstance(m.get("s"), dict):
                m["s"].pop("inv", None)
            vis = b.pop("visited", None)
            if vis is not None and seq is not None and not b["raised"]:
                if vis != [kv[0] for kv in seq]:
                    return f"visiting order: impl={vis} model={[kv[0] for kv in seq]}"
        return super().compare(case, b, m)

    def monitors(self, case, impl_out):
        res = []
        b, a = impl_out["base"], impl_out["alt"]
        if case["distinct"]:
            bb = {k: v for k, v in b.items() if k != "visited"}
            aa = {k: v for k, v in a.items() if k != "visited"}
            res.append(("deterministic_in_worker_and_key_order", bb == aa and b.get("visited") == a.get("visited"),
                        f"listing order changed the result: {json.dumps(b)[:300]} vs {json.dumps(a)[:300]}"))
        if case["target"] == "dict" and case["mode"] == "first_wins":
            # first_wins: own value, else the first carrier in (worker order key, key order key) order
            want = dict((k, v) for k, v in case["pre"])
            ws = sorted(case["workers"], key=lambda w: w["ord"])
            for w in ws:
                for k, v in sorted(w["items"], key=lambda kv: case["kord"][kv[0]]):
                    want.setdefault(k, v)
            if case["distinct"]:
                res.append(("first_wins", dict(map(tuple, b["items"])) == want and not b["raised"],
                            f"merged {b['items']} expected {want}"))
        if case["target"] == "dict" and case["mode"] == "assert_equal":
            vals: Dict[int, set] = {}
            for k, v in case["pre"]:
                vals.setdefault(k, set()).add(v)
            for w in case["workers"]:
                for k, v in w["items"]:
                    vals.setdefault(k, set()).add(v)
            conflict = any(len(v) > 1 for v in vals.values())
            res.append(("assert_equal_raises_iff_conflict", b["raised"] == conflict,
                        f"raised={b['raised']} but value sets {vals}"))
        if case["target"] == "lru":
            res.append(("target_within_capacity", b["s"]["n"] <= case["max"], f"{b['s']}"))
        return res

    def tags(self, case, impl_out):
        t = set()
        b = impl_out["base"]
        if b["raised"]:
            t.add("assert_raised")
        allk = [k for w in case["workers"] for k, _ in w["items"]]
        if len(allk) != len(set(allk)):
            t.add("conflict")
        if not case["distinct"]:
            t.add("order_key_ties")
        if any(0 <= v < NFALSY for w in case["workers"] for _, v in w["items"]):
            t.add("falsy_values")
        if case["target"] == "lru" and b["s"]["evicted"]:
            t.add("target_evicts")
        if len(case["workers"]) > 1 and case["perm"] != sorted(case["perm"]):
            t.add("relisted")
        if t:
            t |= {case["target"], case["mode"]}
        return sorted(t) or ["default"]

    def shrink(self, case):
        for i in range(len(case["workers"])):
            ws = case["workers"][:i] + case["workers"][i + 1:]
            yield dict(case, workers=ws, perm=list(range(len(ws))))
        for i, w in enumerate(case["workers"]):
            for j in range(len(w["items"])):
                ws = [dict(x) for x in case["workers"]]
                ws[i] = dict(w, items=w["items"][:j] + w["items"][j + 1:])
                yield dict(case, workers=ws)


class WrapSchedComp(Component):
    """Lock wrappers: the threads' operation lists are executed through the wrapper in a generated
    schedule (one wrapper call = one atomic step); the model runs the same interleaving."""
    name = "wrapsched"
    budget = {"quick": 300, "thorough": 10000, "search": 10000}

    def gen(self, rng: random.Random, i: int) -> dict:
        inner = rng.choice(["lrubytes", "ttllru"])
        nt = rng.choice([1, 2, 3, 4])
        nk = rng.choice([2, 3, 5])
        threads = []
        t = 0
        case: Dict[str, Any] = {"inner": inner}
        if inner == "lrubytes":
            case["maxE"] = rng.choice([0, 1, 2, 3, 8])
            case["maxB"] = rng.choice([0, 4, 10, 100])
            for _ in range(nt):
                ops = []
                for _ in range(rng.choice([1, 3, 6, 12])):
                    r = rng.random()
                    if r < 0.55:
                        ops.append(["put", rng.randrange(nk), gen_val(rng), rng.choice([0, 1, 2, 4, 5, 11])])
                    elif r < 0.85:
                        ops.append(["get", rng.randrange(nk)])
                    else:
                        ops.append(["contains", rng.randrange(nk)])
                threads.append(ops)
        else:
            case["max"] = rng.choice([0, 1, 2, 3, 8])
            case["ttl"] = rng.choice([0, 0, 2, 5])
            for _ in range(nt):
                ops = []
                for _ in range(rng.choice([1, 3, 6, 12])):
                    r = rng.random()
                    if r < 0.5:
                        ops.append(["set", 0, rng.randrange(nk), gen_val(rng)])
                    elif r < 0.8:
                        ops.append(["get", 0, rng.randrange(nk)])
                    elif r < 0.92:
                        ops.append(["contains", 0, rng.randrange(nk)])
                    else:
                        ops.append(["items", 0])
                threads.append(ops)
        sched = [i for i, ops in enumerate(threads) for _ in ops]
        rng.shuffle(sched)
        if inner == "ttllru":
            # the clock advances along the *schedule* (global time), not per thread
            now = 0
            pos = [0] * nt
            for i in sched:
                now += rng.choice([0, 0, 1, 2, case["ttl"] + 1])
                threads[i][pos[i]][1] = now
                pos[i] += 1
        case["threads"] = threads
        case["sched"] = sched
        return case

    def request(self, case):
        rq = dict(case)
        rq["c"] = "wrapsched"
        return rq

    def impl(self, case):
        from clematis.engine.cache import ThreadSafeCache, ThreadSafeBytesCache, LRUCache
        from clematis.engine.util.lru_bytes import LRUBytes
        pools = [list(t) for t in case["threads"]]
        out = []
        if case["inner"] == "lrubytes":
            ev: List[list] = []
            inner = LRUBytes(case["maxE"], case["maxB"], on_evict=lambda k, v, b: ev.append([k, val_id(v), b]))
            w = ThreadSafeBytesCache(inner)
            for i in case["sched"]:
                if not pools[i]:
                    continue
                op = pools[i].pop(0)
                del ev[:]
                if op[0] == "put":
                    r = w.put(op[1], val_of(op[2]), op[3])     # value ids denote Python objects incl. None/0/""/False
                    o = {"r": list(r), "ev": [list(e) for e in ev]}
                elif op[0] == "get":
                    o = {"r": obs(w.get(op[1]))}
                else:
                    o = {"r": op[1] in w}
                o["s"] = {"keys": list(inner.keys()), "bytes": inner.size_bytes(), "n": inner.size_entries()}
                out.append(o)
            q = list(inner._q)
            final = {"items": [[k, val_id(inner._map[k][0]), inner._map[k][1]] if k in inner._map else [k, -1, -1] for k in q],
                     "bytes": inner._bytes, "mapn": len(inner._map), "wrapper_items": [[k, val_id(v)] for k, v in w.items()]}
        else:
            clock = Clock()
            inner = LRUCache(max_entries=case["max"], ttl=case["ttl"], time_fn=clock)
            w = ThreadSafeCache(inner)
            for i in case["sched"]:
                if not pools[i]:
                    continue
                op = pools[i].pop(0)
                clock.now = op[1]
                if op[0] == "set":
                    r = w.put(op[2], val_of(op[3]))
                elif op[0] == "get":
                    r = obs(w.get(op[2]))
                elif op[0] == "contains":
                    r = op[2] in w
                else:
                    r = [[k, val_id(v)] for k, v in w.items()]
                st = inner.stats
                d = inner._ns._d
                out.append({"r": r, "s": {"keys": list(d.keys()), "ts": [int(e.ts) for e in d.values()],
                                          "vals": [val_id(e.value) for e in d.values()], "n": len(inner),
                                          "hits": st["hits"], "misses": st["misses"], "evicted": st["evicted"]}})
            d = inner._ns._d
            final = {"items": [[k, int(e.ts), val_id(e.value)] for k, e in d.items()]}
        return {"complete": all(not p for p in pools), "out": out, "final": final}

    def compare(self, case, impl_out, model_out):
        if isinstance(impl_out, dict) and "final" in impl_out:
            impl_out = {"complete": impl_out["complete"], "out": impl_out["out"]}
        if isinstance(model_out, dict) and isinstance(model_out.get("out"), list):
            pools = [list(t) for t in case["threads"]]
            merged = []
            for i in case["sched"]:
                if 0 <= i < len(pools) and pools[i]:
                    merged.append(pools[i].pop(0))
            for op, o in zip(merged, model_out["out"]):
                if isinstance(o.get("s"), dict):
                    o["s"].pop("inv", None)
                if op[0] == "get":
                    o["r"] = obs_model(o.get("r"))       # get() returns a stored None as None
        return super().compare(case, impl_out, model_out)

    def monitor_requests(self, case, impl_out):
        f = impl_out["final"]
        if case["inner"] == "lrubytes":
            if any(it[2] < 0 for it in f["items"]) or f["mapn"] != len(f["items"]):
                return [("inv.deque_map_consistent", {"c": "const", "v": False})]
            return [("inv", {"c": "lrubytes.inv", "maxE": case["maxE"], "maxB": case["maxB"],
                             "items": f["items"], "bytes": f["bytes"]})]
        return [("inv", {"c": "ttllru.inv", "max": case["max"], "ttl": case["ttl"], "items": f["items"]})]

    def monitors(self, case, impl_out):
        res = []
        # no update lost: when nothing can be evicted/rejected/expired, every key ever put holds the value of the
        # LAST put in schedule order
        pools = [list(t) for t in case["threads"]]
        merged = []
        for i in case["sched"]:
            if pools[i]:
                merged.append(pools[i].pop(0))
        f = impl_out["final"]
        if case["inner"] == "lrubytes":
            puts = [op for op in merged if op[0] == "put"]
            last = {op[1]: op for op in puts}
            roomy = (case["maxE"] == 0 or len(last) <= case["maxE"]) and \
                    (case["maxB"] == 0 or sum(11 for _ in last) <= case["maxB"]) and (case["maxE"] or case["maxB"])
            if roomy:
                have = {it[0]: it[1] for it in f["items"]}
                res.append(("no_update_lost", have == {k: op[2] for k, op in last.items()}, f"final {have} vs last puts {last}"))
                res.append(("wrapper_items_snapshot", sorted(map(tuple, f["wrapper_items"])) == sorted(have.items()), f"{f}"))
        else:
            sets = [op for op in merged if op[0] == "set"]
            last = {op[2]: op for op in sets}
            if case["ttl"] == 0 and len(last) <= case["max"]:
                have = {it[0]: it[2] for it in f["items"]}
                res.append(("no_update_lost", have == {k: op[3] for k, op in last.items()}, f"final {have} vs last sets {last}"))
        res.append(("schedule_complete", impl_out["complete"], "schedule did not run every operation"))
        return res

    def tags(self, case, impl_out):
        t = set()
        sw = sum(1 for a, b in zip(case["sched"], case["sched"][1:]) if a != b)
        if sw >= 2:
            t.add("interleaved")
        for o in impl_out["out"]:
            if o.get("ev"):
                t.add("evict")
        if t:
            t |= {case["inner"], f"threads{len(case['threads'])}"}
        return sorted(t) or ["default"]

    def shrink(self, case):
        for i, ops in enumerate(case["threads"]):
            for j in range(len(ops)):
                th = [list(x) for x in case["threads"]]
                th[i] = ops[:j] + ops[j + 1:]
                sc = list(case["sched"])
                # drop the last pick of thread i
                for p in range(len(sc) - 1, -1, -1):
                    if sc[p] == i:
                        del sc[p]
                        break
                yield dict(case, threads=th, sched=sc)


def thread_stress(ctx, rounds: int) -> dict:
    """Supporting stress: real threads hammer the wrappers; afterwards the container must satisfy its
    sequential invariant (evaluated by Lean) and, when nothing can be evicted, hold every key put.
    Scheduling is up to the interpreter; the verdict on correct code does not depend on it."""
    from harness.core import run_driver
    from clematis.engine.cache import ThreadSafeBytesCache, ThreadSafeCache, LRUCache
    from clematis.engine.util.lru_bytes import LRUBytes
    rng = ctx.rng_for("wrapstress")
    old = sys.getswitchinterval()
    sys.setswitchinterval(1e-6)
    stats = {"rounds": 0, "ops": 0, "failures": 0}
    try:
        for rd in range(rounds):
            nt = 4
            roomy = rd % 2 == 0
            maxE, maxB = (64, 0) if roomy else (rng.choice([2, 3, 5]), rng.choice([0, 16, 40]))
            inner = LRUBytes(maxE, maxB)
            w = ThreadSafeBytesCache(inner)
            lc = LRUCache(max_entries=64 if roomy else 3, ttl=0, time_fn=lambda: 0)
            wl = ThreadSafeCache(lc)
            plans = [[(rng.random() < 0.7, rng.randrange(8 if not roomy else 40), rng.randrange(1000), rng.choice([1, 2, 5]))
                      for _ in range(400)] for _ in range(nt)]
            errs: List[str] = []

            def work(plan, tid):
                try:
                    for is_put, k, v, c in plan:
                        if is_put:
                            w.put(k, (tid, v) if v % 5 else None, c)     # stored None / falsy values too
                            wl.put(k, v if v % 7 else (None if v % 2 else 0))
                        else:
                            w.get(k)
                            wl.get(k)
                            (k in w), (k in wl)
                except Exception as e:  # a torn state typically surfaces as IndexError/KeyError
                    errs.append(f"{type(e).__name__}: {e}")

            ths = [threading.Thread(target=work, args=(p, i)) for i, p in enumerate(plans)]
            for t in ths:
                t.start()
            for t in ths:
                t.join()
            stats["rounds"] += 1
            stats["ops"] += nt * 400
            q = list(inner._q)
            ok = not errs and len(q) == len(inner._map) and set(q) == set(inner._map) and len(set(q)) == len(q)
            detail = f"errors {errs[:2]}"
            if ok:
                items = [[k, 0, inner._map[k][1]] for k in q]
                rs = run_driver([{"c": "lrubytes.inv", "maxE": maxE, "maxB": maxB, "items": items, "bytes": inner._bytes},
                                 {"c": "ttllru.inv", "max": 64 if roomy else 3, "ttl": 0,
                                  "items": [[k, 0, 0] for k in lc._ns._d.keys()]}])
                ok = all(r.get("ok") is True for r in rs)
                detail = f"invariant after threads: {rs}"
            if ok and roomy:
                putk = {k for p in plans for is_put, k, _, _ in p if is_put}
                ok = set(q) == putk and set(lc._ns._d.keys()) == putk
                detail = f"keys lost: {sorted(putk - set(q))} / {sorted(putk - set(lc._ns._d.keys()))}"
            if not ok:
                stats["failures"] += 1
                ctx.monitor_fail("wrapstress", "threads_keep_invariant",
                                 {"round": rd, "maxE": maxE, "maxB": maxB}, detail)
    finally:
        sys.setswitchinterval(old)
    return stats
