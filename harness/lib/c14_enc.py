"""Shared encoders for C14: Python values -> the model's `J` (JSON wire form and Lean source)."""
from __future__ import annotations

import math
from typing import Any


def codes(s: str):
    return [ord(c) for c in s]


def num_parts(x):
    """('int', i) | ('flt', floor, frac) | ('nan',) | ('pinf',) | ('ninf',)"""
    if isinstance(x, bool):
        raise TypeError("bool is not a Num")
    if isinstance(x, int):
        return ("int", x)
    if x != x:
        return ("nan",)
    if x == math.inf:
        return ("pinf",)
    if x == -math.inf:
        return ("ninf",)
    fl = math.floor(x)
    return ("flt", fl, bool(x != fl))


def _try(f, s):
    try:
        return f(s)
    except Exception:
        return None


def key_wire(k):
    if isinstance(k, str):
        return {"s": codes(k)}
    return {"o": codes(str(k))}


def to_wire(x: Any):
    """JSON form understood by Driver.HValid.parseJ."""
    if x is None:
        return {"t": "n"}
    if isinstance(x, bool):
        return {"t": "b", "v": x}
    if isinstance(x, (int, float)):
        p = num_parts(x)
        if p[0] == "int":
            return {"t": "i", "v": str(p[1])}
        if p[0] == "flt":
            return {"t": "f", "fl": str(p[1]), "fr": p[2]}
        return {"t": p[0]}
    if isinstance(x, str):
        i = _try(int, x)
        f = _try(float, x)
        w = {"t": "s", "s": codes(x), "l": codes(x.lower())}
        if i is not None:
            w["i"] = str(i)
        if f is not None:
            w["f"] = to_wire(float(f))
        return w
    if isinstance(x, (list, tuple)):
        return {"t": "l", "v": [to_wire(v) for v in x]}
    if isinstance(x, dict):
        return {"t": "d", "v": [[key_wire(k), to_wire(v)] for k, v in x.items()]}
    return {"t": "l", "v": []}  # anything else: an opaque non-dict, non-number value


# ---- Lean source ----------------------------------------------------------

def lean_int(i: int) -> str:
    return f"({i})" if i < 0 else str(i)


def lean_str(s: str) -> str:
    return "[" + ", ".join(str(ord(c)) for c in s) + "]"


def lean_strs(xs) -> str:
    return "[" + ", ".join(lean_str(x) for x in xs) + "]"


def lean_num(x) -> str:
    p = num_parts(x)
    if p[0] == "int":
        return f"(.int {lean_int(p[1])})"
    if p[0] == "flt":
        return f"(.flt {lean_int(p[1])} {'true' if p[2] else 'false'})"
    return "." + p[0]


def lean_j(x: Any) -> str:
    if x is None:
        return "J.null"
    if isinstance(x, bool):
        return f"(J.bool {'true' if x else 'false'})"
    if isinstance(x, (int, float)):
        return f"(J.num {lean_num(x)})"
    if isinstance(x, str):
        i = _try(int, x)
        f = _try(float, x)
        li = "none" if i is None else f"(some {lean_int(i)})"
        lf = "none" if f is None else f"(some {lean_num(float(f))})"
        return f"(J.str {lean_str(x)} {lean_str(x.lower())} {li} {lf})"
    if isinstance(x, (list, tuple)):
        return "(J.list [" + ", ".join(lean_j(v) for v in x) + "])"
    if isinstance(x, dict):
        return "(J.dict " + lean_kvs(x) + ")"
    raise TypeError(type(x))


def lean_kvs(d: dict) -> str:
    items = []
    for k, v in d.items():
        kk = f"K.str {lean_str(k)}" if isinstance(k, str) else f"K.other {lean_str(str(k))}"
        items.append(f"({kk}, {lean_j(v)})")
    return "[" + ", ".join(items) + "]"
