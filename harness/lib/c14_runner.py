"""C14 runner: drive the *real* Clematis3 orchestrator under a validated config dict.

Config conversion (the product's own path for a validated dict):
  configs.validate.validate_config / validate_config_api  ->  plain normalized dict
  scripts/chat.py::_to_attrdict(dict) -> recursive `_AttrDict(dict)` (dict + attribute access)
  scripts/chat.py::_prepare_ctx(cfg, agent, turn, now_ms, text) -> SimpleNamespace ctx with
  ctx.cfg == ctx.config == that AttrDict.  (`clematis chat` CLI -> clematis/scripts/chat.py ->
  scripts/chat.py::main.)  clematis/engine/orchestrator/core.py::run_smoke_turn carries a
  byte-identical private copy of the same _AttrDict/_to_attrdict.  Neither adds defaults:
  the engine sees exactly the keys the validator materialised (so `cfg.t1` has no "decay").
  The dataclass route (clematis/io/config.py::load_config -> engine.types.Config) is NOT fed
  from the validator; it reads YAML directly and is therefore not the path for a validated dict.

Nothing is written into the repo: every path knob is redirected into `workdir`
(cfg copy: t4.snapshot_dir, t2.quality.trace_dir, t2.embed_root, t2.lancedb.uri,
perf.t2.reader.partitions.path; env: CLEMATIS_LOG_DIR, CLEMATIS_LOGS_DIR,
CLEMATIS_SNAPSHOT_DIR, CLEMATIS_SNAPSHOTS_DIR, CLEMATIS_TMP).  No chdir.
All repo imports happen inside functions; the caller must have the repo on sys.path
(or export CLEMATIS3_REPO).
"""

from __future__ import annotations

import copy
import os
import sys
import traceback
from typing import Any, Dict, List, Tuple

NOW_MS0 = 1_700_000_000_000  # 2023-11-14T22:13:20Z, fixed logical clock
AGENT_ID = "agentA"

_ENV_KEYS = (
    "CLEMATIS_LOG_DIR",
    "CLEMATIS_LOGS_DIR",
    "CLEMATIS_SNAPSHOT_DIR",
    "CLEMATIS_SNAPSHOTS_DIR",
    "CLEMATIS_TMP",
    "CLEMATIS_NETWORK_BAN",
)


# --------------------------------------------------------------------------- repo access
def _ensure_repo_on_path() -> None:
    try:
        import clematis  # noqa: F401
        import configs.validate  # noqa: F401

        return
    except Exception:
        pass
    root = os.environ.get("CLEMATIS3_REPO")
    if root and root not in sys.path:
        sys.path.insert(0, root)


def _repo_root() -> str:
    import clematis

    return os.path.dirname(os.path.dirname(os.path.abspath(clematis.__file__)))


def _conversion_fns():
    """Return (to_attrdict, prepare_ctx) from the real product (scripts/chat.py)."""
    from scripts.chat import _to_attrdict, _prepare_ctx  # type: ignore

    return _to_attrdict, _prepare_ctx


# --------------------------------------------------------------------------- path forcing
def _force_paths(cfg: Dict[str, Any], workdir: str) -> Dict[str, Any]:
    """Deep-copy the normalized dict and point every path knob into workdir.
    Only keys that already exist (or whose engine-side default is a relative path that the
    engine may create) are touched; no behavioural key is added."""
    out = copy.deepcopy(cfg)
    j = lambda *p: os.path.join(workdir, *p)  # noqa: E731
    t4 = out.get("t4")
    if isinstance(t4, dict):
        t4["snapshot_dir"] = j("snapshots")
    t2 = out.get("t2")
    if isinstance(t2, dict):
        q = t2.get("quality")
        if isinstance(q, dict):
            q["trace_dir"] = j("quality")
        if "embed_root" in t2:
            t2["embed_root"] = j("t2")
        ldb = t2.get("lancedb")
        if isinstance(ldb, dict) or str(t2.get("backend", "")).lower() == "lancedb":
            ldb = ldb if isinstance(ldb, dict) else {}
            ldb["uri"] = j("lancedb")
            t2["lancedb"] = ldb
    perf = out.get("perf")
    if isinstance(perf, dict):
        try:
            prt = perf["t2"]["reader"]["partitions"]
            if isinstance(prt, dict) and "path" in prt:
                prt["path"] = j("t2_parts")
        except Exception:
            pass
        m = perf.get("metrics")
        if isinstance(m, dict) and "trace_dir" in m:
            m["trace_dir"] = j("quality")
    return out


# --------------------------------------------------------------------------- worlds
# filler episodes: hash embeddings have ~50% chance of cosine >= 0, so a handful of extra
# episodes guarantees T2 returns >= 2 hits per turn (needed for GEL pair observation).
_EXTRA_EPS = [(f"x{i}", AGENT_ID if i % 2 else "world", t, 1 + i, 0.3 + 0.05 * i) for i, t in enumerate(
    ["notes on gardening", "weather was mild", "a long walk home", "tea with honey",
     "the ledger balanced", "lamp oil and wick"])]
def _world_spec(world: int) -> Dict[str, Any]:
    """Small deterministic worlds.  Every world guarantees a T1 seed with >=1 outgoing edge."""
    w = int(world) % 3
    if w == 0:
        return {
            "graphs": {
                "g:surface": {
                    "nodes": [("n:apple", "apple", []), ("n:fruit", "fruit", []),
                              ("n:tree", "tree", []), ("n:root", "memory-root", [])],
                    "edges": [("e1", "n:apple", "n:fruit", 0.8, "supports"),
                              ("e2", "n:fruit", "n:tree", 0.5, "associates"),
                              ("e3", "n:apple", "n:tree", 0.4, "contradicts")],
                }
            },
            "texts": ["tell me about the apple harvest", "is an apple a fruit from a tree"],
            "episodes": [("ep1", AGENT_ID, "the apple harvest was good this year", 1, 0.7),
                         ("ep2", "world", "fruit trees need water and light", 2, 0.5),
                         ("ep3", AGENT_ID, "apple pie recipe with cinnamon", 3, 0.6)] + _EXTRA_EPS,
        }
    if w == 1:
        return {
            "graphs": {
                "g:surface": {
                    "nodes": [("a", "river", ["water"]), ("b", "bridge", []), ("c", "stone", []),
                              ("d", "moss", ["green"])],
                    "edges": [("e1", "a", "b", 0.9, "supports"), ("e2", "b", "c", -0.7, "contradicts"),
                              ("e3", "c", "a", 0.3, "associates"), ("e4", "c", "d", 0.6, "unknown_rel")],
                },
                "g:aux": {
                    "nodes": [("x", "bridge", []), ("y", "toll", [])],
                    "edges": [("f1", "x", "y", 1.0, "supports"), ("f2", "y", "x", 1.0, "supports")],
                },
            },
            "texts": ["the river runs under the bridge", "water on stone near the bridge"],
            "episodes": [("m1", AGENT_ID, "a stone bridge crosses the river", 1, 0.9),
                         ("m2", AGENT_ID, "moss grows on wet stone", 5, 0.2),
                         ("m3", "other", "the toll bridge closed in winter", 40, 0.4),
                         ("m4", "world", "river water level rising", 2, 0.5)] + _EXTRA_EPS,
        }
    # w == 2: long chain (exceeds radius_cap=4) plus a hub with heavy edges (node_budget hits)
    chain = [(f"k{i}", f"link{i}", []) for i in range(7)]
    c_edges = [(f"c{i}", f"k{i}", f"k{i+1}", 1.0, "supports") for i in range(6)]
    hub_nodes = [("hub", "engine", [])] + [(f"s{i}", f"spoke{i}", []) for i in range(4)]
    hub_edges = [(f"h{i}", "hub", f"s{i}", 1.0, "supports") for i in range(4)] + [
        (f"r{i}", f"s{i}", "hub", 1.0, "supports") for i in range(4)
    ]
    return {
        "graphs": {"g:surface": {"nodes": chain + hub_nodes, "edges": c_edges + hub_edges}},
        "texts": ["start at link0 and the engine", "engine again then link0 and spoke1"],
        "episodes": [("z1", AGENT_ID, "the engine turns each link in order", 1, 0.5),
                     ("z2", AGENT_ID, "spoke and hub hold the wheel", 2, 0.5)] + _EXTRA_EPS,
    }


def _build_state(cfg_dict: Dict[str, Any], world: int) -> Tuple[Dict[str, Any], List[str]]:
    import datetime as dt

    from clematis.adapters.embeddings import BGEAdapter
    from clematis.engine.types import Edge, Node
    from clematis.graph.store import InMemoryGraphStore
    from clematis.memory.index import InMemoryIndex

    spec = _world_spec(world)
    store = InMemoryGraphStore()
    for gid, g in spec["graphs"].items():
        store.upsert_nodes(
            gid, [Node(id=i, label=lb, attrs=({"tags": list(tg)} if tg else {})) for i, lb, tg in g["nodes"]]
        )
        store.upsert_edges(
            gid, [Edge(id=i, src=s, dst=d, weight=float(wt), rel=r) for i, s, d, wt, r in g["edges"]]
        )
    # same skeleton as scripts/chat.py::_empty_state, plus a real store / index
    empty_meta = {"schema": "v1.1", "merges": [], "splits": [], "promotions": [],
                  "concept_nodes_count": 0, "edges_count": 0}
    state: Dict[str, Any] = {
        "graph": {"nodes": {}, "edges": {}, "meta": dict(empty_meta)},
        "gel": {"nodes": {}, "edges": {}, "meta": dict(empty_meta)},
        "version_etag": "0",
        "logs": [],
        "store": store,
        "active_graphs": list(spec["graphs"].keys()),
    }
    try:
        dim = int(cfg_dict.get("k_surface", 32))
    except Exception:
        dim = 32
    enc = BGEAdapter(dim=dim)
    idx = InMemoryIndex()
    base = dt.datetime.fromtimestamp(NOW_MS0 / 1000.0, tz=dt.timezone.utc)
    for eid, owner, text, days_ago, imp in spec["episodes"]:
        ts = (base - dt.timedelta(days=int(days_ago))).isoformat().replace("+00:00", "Z")
        idx.add({"id": eid, "owner": owner, "text": text, "ts": ts, "tags": [],
                 "importance": float(imp), "vec_full": enc.encode([text])[0]})
    state["mem_index"] = idx
    state["mem_backend"] = "inmemory"
    return state, list(spec["texts"])


# --------------------------------------------------------------------------- hygiene
def _reset_module_caches() -> None:
    """Process-global stage caches would make call N depend on call N-1; clear them."""
    try:
        from clematis.engine.stages import t1 as _t1

        _t1._T1_CACHE = None
        _t1._T1_CACHE_CFG = None
        _t1._T1_CACHE_KIND = None
    except Exception:
        pass
    try:
        from clematis.engine.stages.t2 import cache as _t2c

        _t2c._T2_CACHE = None
        _t2c._T2_CACHE_CFG = None
        _t2c._T2_CACHE_KIND = None
    except Exception:
        pass


def _where(exc: BaseException) -> str:
    """file:line (repo-relative) of the innermost traceback frame inside clematis/."""
    try:
        root = _repo_root()
    except Exception:
        root = ""
    pref = os.path.join(root, "clematis") + os.sep if root else os.sep + "clematis" + os.sep
    hit = None
    fallback = None
    for fs in traceback.extract_tb(exc.__traceback__):
        fn = os.path.abspath(fs.filename)
        if fn.startswith(pref) or (not root and pref in fn):
            hit = (fn, fs.lineno, fs.name)
        elif root and fn.startswith(root + os.sep):
            fallback = (fn, fs.lineno, fs.name)
    pick = hit or fallback
    if pick is None:
        return "?"
    fn, ln, name = pick
    rel = os.path.relpath(fn, root) if root else fn
    return f"{rel}:{ln} in {name}"


# --------------------------------------------------------------------------- API
def run_turns(norm_cfg: dict, workdir: str, n_turns: int = 2, world: int = 0) -> dict:
    """Run n_turns real engine turns (real Orchestrator.run_turn, real T1..T4/apply, rule-based T3
    unless the config says otherwise, in-memory T2 index pre-seeded) under the normalized config
    dict returned by configs.validate.validate_config.  See module docstring."""
    _ensure_repo_on_path()
    workdir = os.path.abspath(workdir)
    os.makedirs(workdir, exist_ok=True)
    saved = {k: os.environ.get(k) for k in _ENV_KEYS}
    turns_done = 0
    try:
        os.environ["CLEMATIS_LOG_DIR"] = os.path.join(workdir, "logs")
        os.environ["CLEMATIS_LOGS_DIR"] = os.path.join(workdir, "logs")
        os.environ["CLEMATIS_SNAPSHOT_DIR"] = os.path.join(workdir, "snapshots")
        os.environ["CLEMATIS_SNAPSHOTS_DIR"] = os.path.join(workdir, "snapshots")
        os.environ["CLEMATIS_TMP"] = os.path.join(workdir, "tmp")
        os.environ["CLEMATIS_NETWORK_BAN"] = "1"
        try:
            to_attrdict, prepare_ctx = _conversion_fns()
            from clematis.engine.orchestrator.core import run_turn

            _reset_module_caches()
            cfg_dict = _force_paths(dict(norm_cfg), workdir)
            cfg = to_attrdict(cfg_dict)
            state, texts = _build_state(cfg_dict, world)
            for t in range(int(n_turns)):
                text = texts[t % len(texts)]
                ctx = prepare_ctx(cfg, AGENT_ID, t + 1, NOW_MS0 + 1000 * t, text)
                run_turn(ctx, state, text)
                turns_done += 1
            return {"ok": True, "turns": turns_done}
        except BaseException as e:  # noqa: BLE001 - report every failure kind
            if isinstance(e, (KeyboardInterrupt, GeneratorExit)):
                raise
            return {
                "ok": False,
                "exc": type(e).__name__,
                "msg": str(e)[:300],
                "where": _where(e),
                "turns": turns_done,
            }
    finally:
        for k, v in saved.items():
            if v is None:
                os.environ.pop(k, None)
            else:
                os.environ[k] = v
        _reset_module_caches()
