"""C15 components for clematis/engine/cache.py: LRUCache shim and CacheManager (TTL LRU with an injected clock)."""
from __future__ import annotations

import json
import random
from typing import Any, Dict, List, Optional, Tuple

from harness.core import Component
from harness.lib.c15_vals import val_of, val_id, obs, obs_model, gen_val, P as NFALSY

# --------------------------------------------------------------------------
# key pool: hashable keys are used as they are, unhashable ones go through
# stable_key (JSON, sorted keys, compact separators).  The harness computes the
# key identity with its OWN normaliser (never the code under test).
# --------------------------------------------------------------------------
KEYPOOL: List[Any] = [
    ("v", "a"), ("v", "b"), "k", 7,
    ["a", 1], '["a",1]',                 # unhashable list and the string it is normalised to
    {"x": 1, "y": [2, 3]}, {"y": [2, 3], "x": 1},   # same dict, different insertion order
    ("t", [1]), ["t", [1]],              # tuple holding a list is unhashable -> same JSON as the list
    1, True,                             # equal & same hash -> one dict key
    0, "", None, False,                  # falsy keys (0 and False are one dict key); appended: older corpus indices stay valid
]


def _norm(key: Any) -> Any:
    try:
        hash(key)
        return key
    except TypeError:
        return json.dumps(key, sort_keys=True, separators=(",", ":"))


def _same(a: Any, b: Any) -> bool:
    return a == b and hash(a) == hash(b)


KEY_ID: List[int] = []
for _i, _k in enumerate(KEYPOOL):
    KEY_ID.append(next(j for j in range(_i + 1) if _same(_norm(KEYPOOL[j]), _norm(_k))))
NKEYS = len(KEYPOOL)


def id_of_internal(hk: Any) -> int:
    """Map a key found inside the cache (already normalised by the code) to its id; -1 if foreign."""
    for j, k in enumerate(KEYPOOL):
        try:
            if _same(_norm(k), hk):
                return KEY_ID[j]
        except TypeError:
            continue
    return -1


class Clock:
    """Scripted clock: returns the reading set by the harness for the current call."""

    def __init__(self) -> None:
        self.now: Any = 0
        self.calls = 0

    def __call__(self) -> Any:
        self.calls += 1
        return self.now


def _t(now: int, as_float: bool) -> Any:
    return float(now) if as_float else now


def ns_state(ns) -> List[List[int]]:
    """[[key id, ts, value], …] in OrderedDict order (oldest → newest)."""
    out = []
    for k, ent in ns._d.items():
        ts = ent.ts
        out.append([id_of_internal(k), int(ts) if float(ts) == int(ts) else ts, val_id(ent.value)])
    return out


def gen_times(rng: random.Random, ttl: int, n: int) -> List[int]:
    t = rng.choice([0, 0, 5, 1000, -3])
    out = []
    steps = [0, 0, 0, 1, 1, 2, abs(ttl), abs(ttl) + 1, max(0, abs(ttl) - 1), 7]
    for _ in range(n):
        r = rng.random()
        if r < 0.04:
            t -= rng.choice([1, 2, abs(ttl) + 1])      # clock runs backwards
        else:
            t += rng.choice(steps)
        out.append(t)
    return out


def ttl_monitors(tag: str, max_: int, ttl: int, prev: List[List[int]], op: list, now: Optional[int],
                 kid: Optional[int], r: Any, new: List[List[int]]) -> List[Tuple[str, bool, str]]:
    """Property predicates for one namespace-level operation.
    op kinds: get (r = (hit, val)), set (r = None|'KeyError'), contains (r = bool), items, invalidate."""
    res: List[Tuple[str, bool, str]] = []
    pk = [e[0] for e in prev]
    nk = [e[0] for e in new]
    if max_ >= 0:
        res.append((f"{tag}within_capacity", len(new) <= max_, f"size {len(new)} > max {max_} after {op}"))
    res.append((f"{tag}keys_unique", len(set(nk)) == len(nk), f"duplicate keys {nk}"))
    ent = next((e for e in prev if e[0] == kid), None) if kid is not None else None
    fresh = ent is not None and (ttl == 0 or (now - ent[1]) <= ttl)
    kind = op[0]
    if kind == "get":
        hit, val = r
        if hit:
            res.append((f"{tag}hit_only_if_fresh", fresh and val == obs_model(ent[2]),
                        f"hit {val} at now={now} but previous entry {ent} ttl={ttl}"))
            res.append((f"{tag}hit_moves_to_mru", new == [e for e in prev if e[0] != kid] + [ent],
                        f"after hit on {kid}: {prev} -> {new}"))
        else:
            res.append((f"{tag}fresh_entry_hits", not fresh, f"miss at now={now} although {ent} is fresh (ttl={ttl})"))
            res.append((f"{tag}expired_removed", kid not in nk and [e for e in prev if e[0] != kid] == new,
                        f"after miss on {kid}: {prev} -> {new}"))
        if max_ == 0:
            res.append((f"{tag}zero_capacity_never_hits", not hit, "hit with max_entries=0"))
    elif kind == "set" and r is None:
        want = [e for e in prev if e[0] != kid] + [[kid, now, op[-1]]]
        d = len(want) - len(new)
        res.append((f"{tag}evicts_oldest_first", d >= 0 and want[d:] == new,
                    f"set {kid}@{now}: recency {want} survivors {new}"))
        if max_ >= 1:
            res.append((f"{tag}set_keeps_key", bool(new) and new[-1] == [kid, now, op[-1]], f"written key not MRU: {new}"))
        if max_ >= 0 and len(prev) <= max_:
            res.append((f"{tag}evicts_only_over_cap", len(new) == min(len(want), max_),
                        f"set {kid}: {len(want)} entries, max {max_}, kept {len(new)}"))
    elif kind == "contains":
        res.append((f"{tag}contains_iff_fresh", bool(r) == bool(fresh), f"contains={r} for entry {ent} now={now} ttl={ttl}"))
        want = prev if (ent is None or fresh) else [e for e in prev if e[0] != kid]
        res.append((f"{tag}contains_keeps_order", new == want, f"contains {kid}: {prev} -> {new}"))
    elif kind == "items":
        want = [e for e in prev if ttl == 0 or (now - e[1]) <= ttl]
        res.append((f"{tag}items_prunes_expired", new == want and [list(x) for x in r] == [[e[0], e[2]] for e in want],
                    f"items at {now}: {prev} -> {new}, returned {r}"))
    elif kind == "invalidate":
        res.append((f"{tag}invalidate_empties", new == [] and r == len(prev), f"invalidate returned {r} for {len(prev)} entries"))
    return res


class TtlLruComp(Component):
    """LRUCache shim (one namespace + counters) against `Clem.TtlLru.Lru`."""
    name = "ttllru"
    budget = {"quick": 400, "thorough": 20000, "search": 20000}

    def gen(self, rng: random.Random, i: int) -> dict:
        max_ = rng.choice([0, 1, 1, 2, 2, 3, 3, 5, 8] + ([-1] if rng.random() < 0.15 else []))
        ttl = rng.choice([0, 0, 1, 2, 5, 5, 600] + ([-2] if rng.random() < 0.15 else []))
        # constructor spelling (legacy / new names, precedence)
        ctor: Dict[str, int] = {}
        if rng.random() < 0.5:
            ctor["max_entries"] = max_
        else:
            ctor["capacity"] = max_
            if rng.random() < 0.5:
                ctor["max_entries"] = rng.choice([0, 1, 7])
        names = ["ttl", "ttl_sec", "ttl_s"]
        first = rng.randrange(3)
        ctor[names[first]] = ttl
        for lower in names[first + 1:]:
            if rng.random() < 0.3:
                ctor[lower] = rng.choice([0, 3, 9])
        if rng.random() < 0.05:
            for nm in names:
                ctor.pop(nm, None)           # default TTL 600
        nk = rng.choice([2, 3, 5, NKEYS])
        kis = rng.sample(range(NKEYS), nk) if nk < NKEYS else list(range(NKEYS))
        n = rng.choice([3, 8, 20, 60])
        eff_ttl = self._eff(ctor)[1]
        times = gen_times(rng, eff_ttl, n)
        ops = []
        for now in times:
            r = rng.random()
            ki = rng.choice(kis)
            if r < 0.40:
                ops.append([rng.choice(["set", "put"]), now, ki, gen_val(rng)])
            elif r < 0.75:
                ops.append([rng.choice(["get", "get2"]), now, ki])
            elif r < 0.88:
                ops.append(["contains", now, ki])
            elif r < 0.96:
                ops.append(["items", now])
            else:
                ops.append([rng.choice(["invalidate", "clear"])])
        return {"ctor": ctor, "float_clock": rng.random() < 0.3, "ops": ops}

    @staticmethod
    def _eff(ctor: dict) -> Tuple[int, int]:
        max_ = ctor["capacity"] if "capacity" in ctor else ctor.get("max_entries", 1024)
        ttl = ctor["ttl"] if "ttl" in ctor else ctor["ttl_sec"] if "ttl_sec" in ctor else ctor.get("ttl_s", 600)
        return int(max_), int(ttl)

    def request(self, case: dict) -> dict:
        ops = []
        for op in case["ops"]:
            k = op[0]
            if k in ("set", "put"):
                ops.append(["set", op[1], KEY_ID[op[2]], op[3]])
            elif k in ("get", "get2", "contains"):
                ops.append([k, op[1], KEY_ID[op[2]]])
            elif k == "items":
                ops.append(["items", op[1]])
            else:
                ops.append(["invalidate"])
        rq = {"c": "ttllru", "ops": ops}
        for nm in ("max_entries", "capacity", "ttl", "ttl_sec", "ttl_s"):
            rq[nm] = case["ctor"].get(nm)
        return rq

    def impl(self, case: dict) -> Any:
        from clematis.engine.cache import LRUCache
        clock = Clock()
        c = LRUCache(time_fn=clock, **case["ctor"])
        fl = case.get("float_clock", False)
        out, states = [], []
        for op in case["ops"]:
            k = op[0]
            if len(op) > 1:
                clock.now = _t(op[1], fl)
            try:
                if k == "set":
                    r = c.set(KEYPOOL[op[2]], val_of(op[3]))     # value ids denote Python objects incl. None/0/""/False
                elif k == "put":
                    r = c.put(KEYPOOL[op[2]], val_of(op[3]))
                elif k == "get":
                    r = obs(c.get(KEYPOOL[op[2]]))
                elif k == "get2":
                    h2, v2 = c.get2(KEYPOOL[op[2]])
                    r = [h2, obs(v2)]
                elif k == "contains":
                    r = KEYPOOL[op[2]] in c
                elif k == "items":
                    r = [[id_of_internal(kk), val_id(vv)] for kk, vv in c.items()]
                elif k == "invalidate":
                    r = c.invalidate()
                else:
                    r = c.clear()
            except KeyError:
                r = "KeyError"
            st = c.stats
            s = ns_state(c._ns)
            out.append({"r": r, "s": {"keys": [e[0] for e in s], "ts": [e[1] for e in s], "vals": [e[2] for e in s],
                                      "n": len(c), "hits": st["hits"], "misses": st["misses"], "evicted": st["evicted"]}})
            states.append({"items": s, "size": c.size(), "stats_size": st["size"]})
        return {"out": out, "states": states}

    def compare(self, case, impl_out, model_out):
        if isinstance(impl_out, dict) and "out" in impl_out:
            impl_out = impl_out["out"]
        return super().compare(case, impl_out, model_out)

    def canon_model(self, case, out):
        if isinstance(out, list):
            for op, o in zip(case["ops"], out):
                if isinstance(o, dict) and isinstance(o.get("s"), dict):
                    o["s"].pop("inv", None)
                # return values conflate "stored None" with "no value"; the state / counters do not
                if isinstance(o, dict) and op[0] == "get":
                    o["r"] = obs_model(o.get("r"))
                if isinstance(o, dict) and op[0] == "get2" and isinstance(o.get("r"), list) and len(o["r"]) == 2:
                    o["r"] = [o["r"][0], obs_model(o["r"][1])]
        return out

    def monitor_requests(self, case, impl_out):
        max_, ttl = self._eff(case["ctor"])
        rq = []
        seen = set()
        for st in impl_out["states"]:
            key = json.dumps(st["items"])
            if key in seen:
                continue
            seen.add(key)
            rq.append(("inv", {"c": "ttllru.inv", "max": max_, "ttl": ttl, "items": st["items"]}))
        return rq

    def monitors(self, case, impl_out):
        max_, ttl = self._eff(case["ctor"])
        res = []
        prev: List[List[int]] = []
        gets = 0
        evicted = 0
        phits = 0
        for op, o, st in zip(case["ops"], impl_out["out"], impl_out["states"]):
            k = op[0]
            new = st["items"]
            now = op[1] if len(op) > 1 else None
            kid = KEY_ID[op[2]] if len(op) > 2 else None
            r = o["r"]
            if k in ("get", "get2"):
                gets += 1
                # legacy get() returns a stored None as None: whether it was a hit is read off the hit counter
                rr = (o["s"]["hits"] > phits, r) if k == "get" else (r[0], r[1])
                if k == "get":
                    res.append(("legacy_get_value_iff_hit", rr[0] or r is None, f"get returned {r} but counted a miss"))
                res += ttl_monitors("", max_, ttl, prev, ["get"], now, kid, rr, new)
            elif k in ("set", "put"):
                res += ttl_monitors("", max_, ttl, prev, ["set", op[3]], now, kid, r, new)
                if r is None:
                    evicted += len([e for e in prev if e[0] != kid]) + 1 - len(new)
            elif k == "contains":
                res += ttl_monitors("", max_, ttl, prev, ["contains"], now, kid, r, new)
            elif k == "items":
                res += ttl_monitors("", max_, ttl, prev, ["items"], now, None, r, new)
            else:
                res += ttl_monitors("", max_, ttl, prev, ["invalidate"], None, None, r, new)
            s = o["s"]
            res.append(("counters_exact", s["hits"] + s["misses"] == gets and s["evicted"] == evicted
                        and s["n"] == len(new) == st["size"] == st["stats_size"],
                        f"stats {s} after {gets} gets / {evicted} evictions, {len(new)} entries"))
            prev = new
            phits = s["hits"]
        return res

    def tags(self, case, impl_out):
        max_, ttl = self._eff(case["ctor"])
        t = set()
        prev: List[List[int]] = []
        phits = 0
        for op, o, st in zip(case["ops"], impl_out["out"], impl_out["states"]):
            new = st["items"]
            if op[0] in ("get", "get2"):
                hit = o["s"]["hits"] > phits
                phits = o["s"]["hits"]
                if hit:
                    t.add("hit")
                    if any(e[0] == KEY_ID[op[2]] and 0 <= e[2] < NFALSY for e in prev):
                        t.add("falsy_value_hit")
                elif any(e[0] == KEY_ID[op[2]] for e in prev):
                    t.add("expired_on_get")
            if op[0] in ("set", "put"):
                if o["r"] == "KeyError":
                    t.add("negative_cap_keyerror")
                elif len(new) < len([e for e in prev if e[0] != KEY_ID[op[2]]]) + 1:
                    t.add("evict")
            if op[0] == "contains" and len(new) < len(prev):
                t.add("expired_on_contains")
            if op[0] == "items" and len(new) < len(prev):
                t.add("expired_on_items")
            prev = new
        if max_ == 0:
            t.add("zero_capacity")
        if ttl == 0:
            t.add("ttl_off")
        return sorted(t) or ["default"]

    def shrink(self, case):
        ops = case["ops"]
        for i in range(len(ops)):
            yield dict(case, ops=ops[:i] + ops[i + 1:])


NSPOOL = ["t2:semantic", "t1", "x"]


class TtlMgrComp(Component):
    """CacheManager (namespaces, shared counters) against `Clem.TtlLru.Mgr`."""
    name = "ttlmgr"
    budget = {"quick": 300, "thorough": 12000, "search": 12000}

    def gen(self, rng: random.Random, i: int) -> dict:
        max_ = rng.choice([0, 1, 2, 2, 3, 5] + ([-1] if rng.random() < 0.1 else []))
        ttl = rng.choice([0, 0, 1, 3, 5, 600])
        nns = rng.choice([1, 2, 3])
        nk = rng.choice([2, 3, 5])
        kis = rng.sample(range(NKEYS), nk)
        n = rng.choice([4, 10, 25, 60])
        times = gen_times(rng, ttl, n)
        ops = []
        for now in times:
            r = rng.random()
            ns = rng.randrange(nns)
            if r < 0.45:
                ops.append(["set", ns, now, rng.choice(kis), gen_val(rng)])
            elif r < 0.88:
                ops.append(["get", ns, now, rng.choice(kis)])
            elif r < 0.96:
                ops.append(["inv_ns", rng.randrange(3)])
            else:
                ops.append(["inv_all"])
        return {"max": max_, "ttl": ttl, "float_clock": rng.random() < 0.3, "ops": ops}

    def request(self, case: dict) -> dict:
        ops = []
        for op in case["ops"]:
            if op[0] == "set":
                ops.append(["set", op[1], op[2], KEY_ID[op[3]], op[4]])
            elif op[0] == "get":
                ops.append(["get", op[1], op[2], KEY_ID[op[3]]])
            else:
                ops.append(op)
        return {"c": "ttlmgr", "max": case["max"], "ttl": case["ttl"], "ops": ops}

    @staticmethod
    def _state(m) -> List[dict]:
        out = []
        for name, ns in m._ns.items():
            s = ns_state(ns)
            out.append({"id": NSPOOL.index(name), "max": ns._max, "ttl": ns._ttl, "items": s})
        return out

    def impl(self, case: dict) -> Any:
        from clematis.engine.cache import CacheManager
        clock = Clock()
        m = CacheManager(max_entries=case["max"], ttl_sec=case["ttl"], time_fn=clock)
        fl = case.get("float_clock", False)
        out, states = [], []
        for op in case["ops"]:
            k = op[0]
            try:
                if k == "set":
                    clock.now = _t(op[2], fl)
                    r = m.set(NSPOOL[op[1]], KEYPOOL[op[3]], val_of(op[4]))
                elif k == "get":
                    clock.now = _t(op[2], fl)
                    h2, v2 = m.get(NSPOOL[op[1]], KEYPOOL[op[3]])
                    r = [h2, obs(v2)]
                elif k == "inv_ns":
                    r = m.invalidate_namespace(NSPOOL[op[1]])
                else:
                    r = m.invalidate_all()
            except KeyError:
                r = "KeyError"
            st = m.stats
            nss = self._state(m)
            out.append({"r": r, "s": {
                "ns": [{"id": n["id"], "keys": [e[0] for e in n["items"]], "ts": [e[1] for e in n["items"]],
                        "vals": [e[2] for e in n["items"]], "n": len(n["items"])} for n in nss],
                "hits": st["hits"], "misses": st["misses"], "evicted": st["evicted"], "size": st["size"]}})
            states.append(nss)
        return {"out": out, "states": states}

    def compare(self, case, impl_out, model_out):
        if isinstance(impl_out, dict) and "out" in impl_out:
            impl_out = impl_out["out"]
        # namespace creation order is incidental: compare namespaces by id
        def srt(xs):
            if isinstance(xs, list):
                for o in xs:
                    if isinstance(o, dict) and isinstance(o.get("s"), dict) and isinstance(o["s"].get("ns"), list):
                        o["s"]["ns"] = sorted(o["s"]["ns"], key=lambda n: n["id"])
            return xs
        return super().compare(case, srt(json.loads(json.dumps(impl_out))), srt(model_out))

    def canon_model(self, case, out):
        if isinstance(out, list):
            for op, o in zip(case["ops"], out):
                if isinstance(o, dict) and isinstance(o.get("s"), dict):
                    o["s"].pop("inv", None)
                if isinstance(o, dict) and op[0] == "get" and isinstance(o.get("r"), list) and len(o["r"]) == 2:
                    o["r"] = [o["r"][0], obs_model(o["r"][1])]
        return out

    def monitor_requests(self, case, impl_out):
        rq, seen = [], set()
        for nss in impl_out["states"]:
            key = json.dumps(nss)
            if key in seen:
                continue
            seen.add(key)
            rq.append(("inv", {"c": "ttlmgr.inv", "max": case["max"], "ttl": case["ttl"], "ns": nss}))
        return rq

    def monitors(self, case, impl_out):
        max_, ttl = case["max"], case["ttl"]
        res = []
        prev: Dict[int, List[List[int]]] = {}
        gets = 0
        evicted = 0
        for op, o, nss in zip(case["ops"], impl_out["out"], impl_out["states"]):
            new = {n["id"]: n["items"] for n in nss}
            k = op[0]
            r = o["r"]
            touched: List[int] = []
            if k == "set" and r is None:
                evicted += len([e for e in prev.get(op[1], []) if e[0] != KEY_ID[op[3]]]) + 1 - len(new.get(op[1], []))
            if k == "get":
                gets += 1
                a = op[1]
                touched = [a]
                res += ttl_monitors("ns_", max_, ttl, prev.get(a, []), ["get"], op[2], KEY_ID[op[3]], (r[0], r[1]), new.get(a, []))
            elif k == "set":
                a = op[1]
                touched = [a]
                res += ttl_monitors("ns_", max_, ttl, prev.get(a, []), ["set", op[4]], op[2], KEY_ID[op[3]], r, new.get(a, []))
            elif k == "inv_ns":
                a = op[1]
                touched = [a]
                res.append(("invalidate_namespace", new.get(a, []) == [] and r == len(prev.get(a, [])),
                            f"invalidate_namespace({a}) returned {r}, had {prev.get(a, [])}"))
            else:
                touched = list(new.keys())
                res.append(("invalidate_all", all(v == [] for v in new.values()) and r == sum(len(v) for v in prev.values()),
                            f"invalidate_all returned {r}: {prev} -> {new}"))
            for b in set(prev) | set(new):
                if b not in touched:
                    res.append(("namespaces_independent", prev.get(b, []) == new.get(b, []),
                                f"op {op} changed namespace {b}: {prev.get(b)} -> {new.get(b)}"))
            s = o["s"]
            res.append(("stats_size_is_sum", s["size"] == sum(len(v) for v in new.values()),
                        f"stats.size {s['size']} vs {new}"))
            res.append(("hits_plus_misses", s["hits"] + s["misses"] == gets, f"{s['hits']}+{s['misses']} != {gets}"))
            res.append(("evicted_counter_exact", s["evicted"] == evicted, f"stats.evicted {s['evicted']} != {evicted} entries actually evicted"))
            prev = new
        return res

    def tags(self, case, impl_out):
        t = set()
        prev: Dict[int, List[List[int]]] = {}
        for op, o, nss in zip(case["ops"], impl_out["out"], impl_out["states"]):
            new = {n["id"]: n["items"] for n in nss}
            if op[0] == "get":
                if o["r"][0]:
                    t.add("hit")
                    if any(e[0] == KEY_ID[op[3]] and 0 <= e[2] < NFALSY for e in prev.get(op[1], [])):
                        t.add("falsy_value_hit")
                elif any(e[0] == KEY_ID[op[3]] for e in prev.get(op[1], [])):
                    t.add("expired_on_get")
            if op[0] == "set" and o["r"] is None and \
                    len(new.get(op[1], [])) < len([e for e in prev.get(op[1], []) if e[0] != KEY_ID[op[3]]]) + 1:
                t.add("evict")
            if op[0] == "set" and o["r"] == "KeyError":
                t.add("negative_cap_keyerror")
            if len([1 for v in new.values() if v]) > 1:
                t.add("multi_namespace")
            if op[0] == "inv_ns" and o["r"]:
                t.add("invalidate_ns")
            if op[0] == "inv_all" and o["r"]:
                t.add("invalidate_all")
            prev = new
        return sorted(t) or ["default"]

    def shrink(self, case):
        ops = case["ops"]
        for i in range(len(ops)):
            yield dict(case, ops=ops[:i] + ops[i + 1:])


class TtlLruExhaustive(TtlLruComp):
    """ALL operation sequences up to length 4 over {set k0, set k1, get k0, get k1, contains k0} × clock advances
    {0, ttl, ttl+1} for caps {1, 2} (TTL 2): 108 480 cases; index → sequence with a seed-dependent starting offset
    (quick looks at a slice, the thorough budget covers the whole space)."""
    name = "ttllru_x"
    budget = {"quick": 1500, "thorough": 108480, "search": 108480}
    TTL = 2
    OPS = [("set", 0), ("set", 1), ("get", 0), ("get", 1), ("contains", 0)]
    ADV = [0, 2, 3]
    MAXLEN = 4
    CAPS = [1, 2]

    def space(self) -> int:
        a = len(self.OPS) * len(self.ADV)
        return len(self.CAPS) * sum(a ** L for L in range(1, self.MAXLEN + 1))

    def gen(self, rng, i):
        if i == 0:
            self._off = rng.randrange(self.space())
        idx = (self._off + i) % self.space()
        cap = self.CAPS[idx % len(self.CAPS)]
        idx //= len(self.CAPS)
        a = len(self.OPS) * len(self.ADV)
        seq = None
        for L in range(1, self.MAXLEN + 1):
            if idx < a ** L:
                seq = []
                for _ in range(L):
                    seq.append(idx % a)
                    idx //= a
                break
            idx -= a ** L
        now = 0
        ops = []
        for n, d in enumerate(seq):
            kind, key = self.OPS[d % len(self.OPS)]
            now += self.ADV[d // len(self.OPS)]
            if kind == "set":
                ops.append(["set", now, key, n % NFALSY if (n + key) % 2 == 0 else 100 + n])   # None/0/""/False… and integers
            elif kind == "items":
                ops.append(["items", now])
            else:
                ops.append([kind, now, key])
        return {"ctor": {"max_entries": cap, "ttl": self.TTL}, "float_clock": False, "ops": ops}
