"""Shared Python helpers for property packages."""
