"""C05 — the vocabulary of input DIMENSIONS of the stages' read-sets, the history generator built on it, the
2-step *dimension sweep*, shrinking and the deterministic finding-key classifier.

A history is a list of ops; every op except `turn` changes exactly one named dimension:
    {"op":"set","dim":<name>,"val":<json>}            sticky setting used by the following turns (agent, now, text,
                                                     kill switch, slice budgets, one config value)
    {"op":"edge","dim":"edge_weight|edge_add|edge_dst", "w":i, ...}    store.upsert_edges (same / different counts)
    {"op":"node","dim":"node_label|node_add", "w":i, ...}             store.upsert_nodes
    {"op":"episode","dim":"memory_add","w":i,"ep":{..}}               index.add
    {"op":"clock","dim":"clock","dt":n}                                 injected cache clock
    {"op":"turn","w":i}                                                 one real run_turn on state i
`to_hist_case` lowers such a history to the case format of `c05_hist.run_history`.
"""
from __future__ import annotations

import copy
import random
from typing import Any, Dict, List, Optional, Tuple

TEXTS = ["tell me about apple", "fig and apple", "what is kiwi", "pear", "apple", "nothing here", "tiny",
         # the same request up to case / outer whitespace / inner whitespace / unicode normal form: whatever a key
         # normalises away must not matter to the stage it fronts (the embedding is case- and form-sensitive)
         "Tell Me About Apple", "TELL ME ABOUT APPLE", "  tell me about apple ", "tell me  about\tapple",
         "caf\u00e9 apple", "cafe\u0301 apple", "\u00a0tell me about apple\u2003"]
TEXT_VARIANT_PAIRS = [("caf\u00e9 apple", "cafe\u0301 apple"), ("Tell Me About Apple", "TELL ME ABOUT APPLE"),
                      ("fig and apple", "Fig And Apple"), ("pear", " pear"), ("what is kiwi", "what  is kiwi")]
# requests on the two-graph state WORLDM: seed only g:surface / only g:aux / both (one or two seeds per graph)
M_TEXTS = ["kiwi", "plum", "plum kiwi", "apple", "fig plum", "pear"]
NOWS = ["2025-09-01T00:00:00Z", "2025-12-01T00:00:00Z"]
AGENTS = ["A", "B"]

MULT0 = {"supports": 1.0, "associates": 0.6, "contradicts": 0.8}
MULT1 = {"supports": 0.0, "associates": 0.6, "contradicts": 0.8}
RANK0 = {"alpha_sim": 1.0, "beta_recency": 0.0, "gamma_importance": 0.0}
RANK1 = {"alpha_sim": 0.0, "beta_recency": 1.0, "gamma_importance": 0.0}

# dim -> (config path, values; values[0] is the default)
CFG_DIMS: Dict[str, Any] = {
    "decay_rate": (["t1", "decay"], [{"mode": "exp_floor", "rate": 0.6, "floor": 0.05},
                                     {"mode": "exp_floor", "rate": 1e-7, "floor": 0.0},
                                     {"mode": "attn_quad", "alpha": 0.8}]),
    "edge_mult": (["t1", "edge_type_mult"], [MULT0, MULT1]),
    "radius_cap": (["t1", "radius_cap"], [4, 0, 1]),
    "iter_cap_layers": (["t1", "iter_cap_layers"], [50, 0, 1]),
    "queue_budget": (["t1", "queue_budget"], [10000, 1, 2]),
    "node_budget": (["t1", "node_budget"], [1.5, 0.5]),
    "relax_cap": (["t1", "relax_cap"], [None, 0, 1]),
    "perf_frontier": (["perf"], [{"enabled": False, "t1": {"caps": {"frontier": 1}}},
                                 {"enabled": True, "t1": {"caps": {"frontier": 1}}}]),
    "k_retrieval": (["t2", "k_retrieval"], [10, 1, 2]),
    "sim_threshold": (["t2", "sim_threshold"], [-1.0, 0.99]),
    "recent_days": (["t2", "exact_recent_days"], [30, 1]),
    "tiers": (["t2", "tiers"], [["exact_semantic"], ["cluster_semantic"], ["exact_semantic", "archive"]]),
    "top_m": (["t2", "clusters_top_m"], [3, 1]),
    "ranking": (["t2", "ranking"], [RANK0, RANK1]),
    "residual_cap": (["t2", "residual_cap_per_turn"], [32, 0, 1]),
    "owner_scope": (["t2", "owner_scope"], ["agent", "any", "world"]),
}
SPECIAL_DIMS: Dict[str, list] = {
    "text": TEXTS, "agent": AGENTS, "now": NOWS, "kill": [False, True],
    "outage": [False, True],      # the graph store faults on every apply hand-off (apply survives it by design)
    "slice_t1_pops": [None, 1, 2], "slice_t1_iters": [None, 0, 1], "slice_t2_k": [None, 0, 1, 2],
}
T1_CFG = {"decay_rate", "edge_mult", "radius_cap", "iter_cap_layers", "queue_budget", "node_budget", "relax_cap",
          "perf_frontier"}
T2_CFG = {"k_retrieval", "sim_threshold", "recent_days", "tiers", "top_m", "ranking", "residual_cap", "owner_scope"}

WORLD0 = {
    "graph": {"nodes": [["n:apple", "apple"], ["n:pear", "pear"], ["n:fig", "fig"], ["n:kiwi", "kiwi"]],
              "edges": [["e1", "n:apple", "n:pear", 0.9, "supports"], ["e2", "n:pear", "n:fig", 0.8, "supports"]]},
    "episodes": [{"id": "ep1", "text": "apple pie with pear", "owner": "A", "ts": "2025-08-30T00:00:00Z"},
                 {"id": "ep2", "text": "fig jam", "owner": "B", "ts": "2025-08-29T00:00:00Z"},
                 {"id": "ep3", "text": "apple cider", "owner": "B", "ts": "2025-08-20T00:00:00Z"},
                 {"id": "ep4", "text": "kiwi and apple salad", "owner": "A", "ts": "2025-11-25T00:00:00Z"}],
}
# same node/edge/episode COUNTS as WORLD0, different content (weights, owners, texts)
WORLD1 = {
    "graph": {"nodes": [["n:apple", "apple"], ["n:pear", "pear"], ["n:fig", "fig"], ["n:kiwi", "kiwi"]],
              "edges": [["e1", "n:apple", "n:kiwi", 0.9, "supports"], ["e2", "n:pear", "n:fig", 0.0, "supports"]]},
    "episodes": [{"id": "ep1", "text": "pear tart", "owner": "B", "ts": "2025-08-30T00:00:00Z"},
                 {"id": "ep2", "text": "apple strudel", "owner": "A", "ts": "2025-08-29T00:00:00Z"},
                 {"id": "ep3", "text": "kiwi", "owner": "A", "ts": "2025-08-20T00:00:00Z"},
                 {"id": "ep5", "text": "fig and apple", "owner": "B", "ts": "2025-11-25T00:00:00Z"}],
}
# same graph as WORLD0 (T1 may legitimately share results), same episode COUNT, different episodes
WORLD1 = dict(WORLD1, graph=copy.deepcopy(WORLD0["graph"]))
# same node/edge COUNTS as WORLD0 but different weights/endpoints; same episodes
WORLD2 = {"graph": {"nodes": [["n:apple", "apple"], ["n:pear", "pear"], ["n:fig", "fig"], ["n:kiwi", "kiwi"]],
                    "edges": [["e1", "n:apple", "n:kiwi", 0.9, "supports"], ["e2", "n:pear", "n:fig", 0.0, "supports"]]},
          "episodes": copy.deepcopy(WORLD0["episodes"])}
# WORLDX / WORLDY: IDENTICAL content (same node and edge ids, labels, endpoints, weights), different INSERTION ORDER
# of nodes and edges.  T1 walks a node's out-edges in insertion order, so with an order-sensitive cap (relax_cap
# below the seed's out-degree, queue budget, frontier cap) the two states have different T1 results.
WORLDX = {"graph": {"nodes": [["n:apple", "apple"], ["n:pear", "pear"], ["n:fig", "fig"], ["n:kiwi", "kiwi"]],
                    "edges": [["e1", "n:apple", "n:pear", 0.9, "supports"], ["e5", "n:apple", "n:kiwi", 0.9, "supports"],
                              ["e2", "n:pear", "n:fig", 0.8, "supports"]]},
          "episodes": copy.deepcopy(WORLD0["episodes"])}
WORLDY = {"graph": {"nodes": list(reversed(copy.deepcopy(WORLDX["graph"]["nodes"]))),
                    "edges": list(reversed(copy.deepcopy(WORLDX["graph"]["edges"])))},
          "episodes": copy.deepcopy(WORLD0["episodes"])}
# only the edge order / only the node order differs from WORLDX
WORLDZ = {"graph": {"nodes": copy.deepcopy(WORLDX["graph"]["nodes"]),
                    "edges": list(reversed(copy.deepcopy(WORLDX["graph"]["edges"])))},
          "episodes": copy.deepcopy(WORLD0["episodes"])}
WORLDW = {"graph": {"nodes": list(reversed(copy.deepcopy(WORLDX["graph"]["nodes"]))),
                    "edges": copy.deepcopy(WORLDX["graph"]["edges"])},
          "episodes": copy.deepcopy(WORLD0["episodes"])}
# WORLDE: WORLD0 + an almost-dead link whose contribution sits at T1's EPS = 1e-6 cut-off
# (1.7e-6 * mult 1.0 * decay 0.6 = 1.02e-6 >= EPS: reached; 1.6e-6 -> 0.96e-6 < EPS: not reached)
WORLDE = {"graph": {"nodes": copy.deepcopy(WORLD0["graph"]["nodes"]) + [["n:tiny", "tiny"], ["n:dust", "dust"]],
                    "edges": copy.deepcopy(WORLD0["graph"]["edges"]) + [["e:t", "n:tiny", "n:dust", 0.0000017, "supports"]]},
          "episodes": copy.deepcopy(WORLD0["episodes"])}
# WORLDQ: near-duplicate episodes (MMR / lexical fusion reorder the head); WORLDH: the same + GEL edges (hybrid)
_QDOCS = [("e1", "apple pie recipe with cinnamon"), ("e2", "apple pie recipe with cinnamon sugar"),
          ("e3", "apple pie recipe with nutmeg"), ("e4", "apple orchard harvest festival zebra"),
          ("e5", "apple cider vinegar tonic"), ("e6", "pie crust butter flour"), ("e7", "Apples pies recipes baking"),
          ("e8", "pie pie pie pie apple"),
          ("e9", "the recipe of the apple and the pie is the long one with many many other words in the text of it"),
          ("e10", "Apple-Pie RECIPES"), ("e11", "recipe")]
WORLDQ = {"graph": {"nodes": [["n:zebra", "zebra"], ["n:cider", "cider"], ["n:apple", "apple"]], "edges": []},
          "episodes": [{"id": i, "text": t, "owner": "A", "ts": "2025-08-28T00:00:00Z", "aux": {"importance": 0.5}}
                       for i, t in _QDOCS]}
WORLDH = dict(copy.deepcopy(WORLDQ), gel_pairs=[["e1", "e4", 0.9], ["e2", "e5", 0.8], ["e4", "e6", 0.7]])
# WORLDM: TWO active graphs that both contribute to a turn about "apple" (g:surface as WORLD0, g:aux below)
WORLDM = dict(copy.deepcopy(WORLD0), graph2={"nodes": [["m:apple", "apple"], ["m:plum", "plum"], ["m:pear", "pear"]],
                                             "edges": [["m1", "m:apple", "m:plum", 0.9, "supports"]]})
ALL_WORLDS = [WORLD0, WORLD1, WORLD2, WORLDX, WORLDY, WORLDZ, WORLDW, WORLDE, WORLDQ, WORLDH, WORLDM]
W_EPS, W_Q, W_H, W_M = 7, 8, 9, 10

# configuration profiles with the gates ON (merged over BASE_CFG)
PROFILES: Dict[str, Any] = {
    # lambda = 1.0: the MMR head size `k` re-orders the head on the near-duplicate corpus; lexical weight 0.7
    "quality": {"t2": {"k_retrieval": 10, "quality": {
        "enabled": True, "lexical": {"bm25_k1": 1.2, "bm25_b": 0.75, "stopwords": "en-basic"},
        "fusion": {"mode": "score_interp", "alpha_semantic": 0.3}, "mmr": {"enabled": True, "lambda": 1.0}}}},
    "hybrid": {"t2": {"k_retrieval": 7, "hybrid": {"enabled": True, "use_graph": True, "anchor_top_m": 3, "walk_hops": 1,
                                                   "edge_threshold": 0.1, "lambda_graph": 0.5, "damping": 0.5,
                                                   "degree_norm": "none", "max_bonus": 0.5, "k_max": 128}}},
    "perf": {},
}
Q_TEXT = "apple pie recipe"

# alternative values per leaf (suffix match on the dotted path); leaves without a hint get GENERIC_VALUES, so a knob
# the validator starts to allow is swept without touching this file
LEAF_HINTS: Dict[str, list] = {
    "t2.quality.enabled": [False], "t2.quality.shadow": [True], "t2.quality.redact": [False],
    "lexical.enabled": [False], "lexical.bm25_k1": [0.1, 3.0], "lexical.bm25_b": [0.0, 1.0], "lexical.stopwords": ["none"],
    "bm25.k1": [0.1], "bm25.b": [0.0], "bm25.doclen_floor": [5],
    "fusion.enabled": [False], "fusion.mode": ["rank"], "fusion.alpha_semantic": [0.0, 0.6, 1.0], "fusion.score_norm": ["minmax"],
    "mmr.enabled": [False], "mmr.lambda": [0.0, 0.5], "mmr.k": [1, 2, 3], "mmr.k_final": [1, 2], "mmr.lambda_relevance": [0.1],
    "mmr.diversity_by_owner": [True], "mmr.diversity_by_token": [False],
    "normalizer.enabled": [False], "normalizer.case": ["none"], "normalizer.stemmer": ["porter-lite"],
    "normalizer.min_token_len": [5], "normalizer.stopwords": ["none"], "normalizer.unicode": ["NFKC"],
    "aliasing.enabled": [True], "aliasing.map_path": ["/nonexistent/aliases.json"], "aliasing.max_expansions_per_token": [0],
    "quality.cache.salt": ["pepper"],
    "hybrid.enabled": [False], "hybrid.use_graph": [False], "hybrid.anchor_top_m": [1], "hybrid.walk_hops": [2],
    "hybrid.edge_threshold": [0.95], "hybrid.lambda_graph": [0.0, 1.0], "hybrid.damping": [0.0],
    "hybrid.degree_norm": ["invdeg"], "hybrid.max_bonus": [0.0], "hybrid.k_max": [1],
    "ranking.alpha_sim": [0.0], "ranking.beta_recency": [1.0], "ranking.gamma_importance": [1.0],
    "t1.iter_cap": [0, 1], "t1.radius_cap": [0], "t1.queue_budget": [1], "t1.node_budget": [0.5],
    "caps.frontier": [2], "caps.visited": [1], "perf.t1.dedupe_window": [1], "perf.t1.queue_cap": [1],
}
GENERIC_VALUES = [1, True, "x"]
LEAF_SKIP = {"t2.quality.trace_dir", "t1.cache", "perf.t1.cache", "t1.decay", "t1.edge_type_mult"}   # paths / cache switches / dict-valued (CFG_DIMS)
LEAF_ROOTS = {"t2.quality": "ALLOWED_T2_QUALITY", "t2.hybrid": "ALLOWED_T2_HYBRID", "t2.ranking": "ALLOWED_RANKING_FIELDS",
              "t1": "ALLOWED_T1", "perf.t1": "ALLOWED_PERF_T1"}


def config_leaves() -> List[Tuple[str, list]]:
    """Every leaf the validator allows under t2.quality.*, t2.hybrid.*, t2.ranking.*, t1.* and perf.t1.* — derived from
    the ALLOWED_* key sets of `configs/validate.py` of the tree under test (nested sets are found by name)."""
    import importlib
    from harness import core as _core  # noqa: F401  (puts $CLEMATIS3_REPO on sys.path)
    V = importlib.import_module("configs.validate")
    out: List[Tuple[str, list]] = []

    def walk(prefix: str, setname: str, root: str):
        for k in sorted(getattr(V, setname, set()) or []):
            path = f"{prefix}.{k}"
            if path in LEAF_SKIP:
                continue
            nested = [n for n in (f"{setname}_{k.upper()}", f"{root}_{k.upper()}") if isinstance(getattr(V, n, None), (set, frozenset, list, tuple))]
            if nested:
                walk(path, nested[0], root)
                continue
            vals = None
            for suf, v in LEAF_HINTS.items():
                if path == suf or path.endswith("." + suf):
                    vals = v
                    break
            out.append((path, list(vals if vals is not None else GENERIC_VALUES)))

    for prefix, setname in LEAF_ROOTS.items():
        walk(prefix, setname, setname)
    return out


def _edge_delta(eid, src, dst, w, rel="supports", with_id=True):
    d = {"op": "upsert_edge", "src": src, "dst": dst, "weight": w, "rel": rel}
    if with_id:
        d["id"] = eid
    return d


# applies through the REAL apply_changes -> InMemoryGraphStore.apply_deltas, every magnitude class of a weight move
_T = ("e:t", "n:tiny", "n:dust")
_A = ("e1", "n:apple", "n:pear")
APPLY_EDITS = [
    {"op": "apply", "dim": "apply_edge", "deltas": [_edge_delta(*_T, 0.0000016)]},              # just below the cut-off
    {"op": "apply", "dim": "apply_edge", "deltas": [_edge_delta(*_T, 0.0000017)]},              # back at the cut-off
    {"op": "apply", "dim": "apply_edge", "deltas": [_edge_delta(*_T, 1e-6 / 0.6)]},             # contribution == EPS (+- 1 ulp)
    {"op": "apply", "dim": "apply_edge", "deltas": [_edge_delta(*_T, 0.00000166666)]},
    {"op": "apply", "dim": "apply_edge", "deltas": [_edge_delta(*_T, 0.0000004)]},              # below 1e-6 (rounds to 0)
    {"op": "apply", "dim": "apply_edge", "deltas": [_edge_delta(*_T, 0.0)]},                    # exactly 0
    {"op": "apply", "dim": "apply_edge", "deltas": [_edge_delta(*_T, -0.0000017)]},             # sign flip at the cut-off
    {"op": "apply", "dim": "apply_edge", "deltas": [_edge_delta(*_T, 0.5)]},                    # large
    {"op": "apply", "dim": "apply_edge", "deltas": [_edge_delta(*_A, 0.9000004)]},              # sub-1e-6 move of a live edge
    {"op": "apply", "dim": "apply_edge", "deltas": [_edge_delta(*_A, 0.0000011)]},              # live edge to the cut-off
    {"op": "apply", "dim": "apply_edge", "deltas": [_edge_delta(*_A, 0.0)]},
    {"op": "apply", "dim": "apply_edge", "deltas": [_edge_delta(*_A, -0.9)]},                   # sign flip, large
    {"op": "apply", "dim": "apply_edge", "deltas": [_edge_delta(*_A, 0.9)]},                    # idempotent re-write (WORLD0 value)
    {"op": "apply", "dim": "apply_edge", "deltas": [_edge_delta("", "n:apple", "n:kiwi", 0.8, with_id=False)]},   # new edge, derived id
    {"op": "apply", "dim": "apply_edge", "deltas": [_edge_delta(*_A, 0.9, rel="contradicts")]},
    {"op": "apply", "dim": "apply_node", "deltas": [{"op": "upsert_node", "id": "n:new", "label": "apple"}]},     # a new seed
    {"op": "apply", "dim": "apply_node", "deltas": [{"op": "upsert_node", "id": "n:pear", "label": "ignored"}]},  # existing: kept
    {"op": "apply", "dim": "apply_edge", "deltas": [_edge_delta(*_T, 0.0000016), _edge_delta(*_A, 0.9)]},         # mixed batch
]
# re-adding an EXISTING episode id with changed text / vector / owner / ts / importance, and with the same content
_EP1 = {"id": "ep1", "text": "apple pie with pear", "owner": "A", "ts": "2025-08-30T00:00:00Z"}
EP_READDS = [
    {"op": "episode", "dim": "memory_readd", "ep": dict(_EP1, text="kiwi fig jam")},
    {"op": "episode", "dim": "memory_readd", "ep": dict(_EP1, owner="B")},
    {"op": "episode", "dim": "memory_readd", "ep": dict(_EP1, ts="2025-06-01T00:00:00Z")},
    {"op": "episode", "dim": "memory_readd", "ep": dict(_EP1, aux={"importance": 1.0})},
    {"op": "episode", "dim": "memory_readd", "ep": dict(_EP1, vec_text="something else entirely")},
    {"op": "episode", "dim": "memory_readd", "ep": dict(_EP1)},
    {"op": "episode", "dim": "memory_readd", "ep": {"id": "ep2", "text": "fig jam", "owner": "A", "ts": "2025-08-29T00:00:00Z"}},  # re-owned: B -> A
]
BASE_CFG = {"t2": {"sim_threshold": -1.0, "tiers": ["exact_semantic"], "exact_recent_days": 30, "owner_scope": "agent",
                   "ranking": RANK0}}

EDGE_EDITS = [
    {"op": "edge", "dim": "edge_weight", "id": "e1", "src": "n:apple", "dst": "n:pear", "wt": 0.0, "rel": "supports"},
    {"op": "edge", "dim": "edge_weight", "id": "e1", "src": "n:apple", "dst": "n:pear", "wt": 0.9, "rel": "supports"},
    {"op": "edge", "dim": "edge_weight", "id": "e2", "src": "n:pear", "dst": "n:fig", "wt": 0.0, "rel": "supports"},
    {"op": "edge", "dim": "edge_dst", "id": "e1", "src": "n:apple", "dst": "n:kiwi", "wt": 0.9, "rel": "supports"},
    {"op": "edge", "dim": "edge_add", "id": "e3", "src": "n:apple", "dst": "n:kiwi", "wt": 0.7, "rel": "associates"},
    {"op": "edge", "dim": "edge_add", "id": "e4", "src": "n:kiwi", "dst": "n:fig", "wt": 0.9, "rel": "supports"},
]
NODE_EDITS = [
    {"op": "node", "dim": "node_label", "id": "n:kiwi", "label": "jam"},          # label map only (kiwi unreached)
    {"op": "node", "dim": "node_label", "id": "n:pear", "label": "apple"},        # becomes a seed
    {"op": "node", "dim": "node_label", "id": "n:pear", "label": "tart"},
    {"op": "node", "dim": "node_add", "id": "n:cider", "label": "cider"},
]
EP_ADDS = [
    {"op": "episode", "dim": "memory_add", "ep": {"id": "epX", "text": "apple apple apple", "owner": "A", "ts": "2025-08-31T00:00:00Z"}},
    {"op": "episode", "dim": "memory_add", "ep": {"id": "epY", "text": "tell me about apple", "owner": "B", "ts": "2025-08-31T00:00:00Z"}},
]


def default_settings() -> Dict[str, Any]:
    s = {d: v[1][0] for d, v in CFG_DIMS.items()}
    s.update({d: v[0] for d, v in SPECIAL_DIMS.items()})
    return s


def _set_path(cfg: dict, path: List[str], val: Any) -> None:
    cur = cfg
    for p in path[:-1]:
        cur = cur.setdefault(p, {})
    if isinstance(val, dict) and isinstance(cur.get(path[-1]), dict):
        cur[path[-1]].update(copy.deepcopy(val))
    else:
        cur[path[-1]] = copy.deepcopy(val)


def _merge(a: dict, b: dict) -> dict:
    for k, v in (b or {}).items():
        if isinstance(v, dict) and isinstance(a.get(k), dict):
            _merge(a[k], v)
        else:
            a[k] = copy.deepcopy(v)
    return a


def to_hist_case(case: dict) -> dict:
    """Lower a dimension history to the `c05_hist.run_history` case format."""
    st = default_settings()
    ops = []
    for op in case["ops"]:
        k = op["op"]
        if k == "set":
            st[op["dim"]] = op["val"]
        elif k == "turn":
            cfg: Dict[str, Any] = {}
            for d, (path, _vals) in CFG_DIMS.items():
                if d == "relax_cap" and st[d] is None:
                    continue
                _set_path(cfg, path, st[d])
            for d, v in st.items():
                if d.startswith("leaf:"):
                    _set_path(cfg, d[5:].split("."), v)
            sched = {kk: st[d] for d, kk in (("slice_t1_pops", "t1_pops"), ("slice_t1_iters", "t1_iters"),
                                             ("slice_t2_k", "t2_k")) if st[d] is not None}
            ops.append({"op": "turn", "w": op.get("w", 0), "agent": st["agent"], "text": st["text"], "now": st["now"],
                        "kill": bool(st["kill"]), "outage": bool(st.get("outage")), "cfg": cfg,
                        "sched": sched if sched else None})
        else:
            o = {kk: vv for kk, vv in op.items() if kk != "dim"}
            o.setdefault("w", 0)
            ops.append(o)
    worlds = [copy.deepcopy(w) for w in ALL_WORLDS][: case.get("nworlds", 1)]
    return {"mode": case["mode"], "cap": case.get("cap", 512), "ttl": case.get("ttl", 300), "worlds": worlds,
            "mutate_returned": bool(case.get("mutate_returned")),
            "base": _merge(copy.deepcopy(BASE_CFG), PROFILES.get(case.get("profile") or "", {})), "ops": ops}


# ------------------------------------------------------------------------------------------------
# classification
# ------------------------------------------------------------------------------------------------
def cache_of(mode: str, div: dict) -> str:
    if mode.startswith("t1"):
        return "t1"
    if mode.startswith("t2"):
        return "t2"
    if mode == "turn":
        return "turn"
    if div.get("stage") == "t1":
        return "t1"
    if div.get("src") == "turn-cache":
        return "turn"
    return "t2"


def dim_class(cache: str, dim: str) -> str:
    """Dimension name used in the finding key `C05:<cache>:<dimension>`."""
    if cache == "turn":
        if dim in T1_CFG or dim in ("slice_t1_pops", "slice_t1_iters") or dim.startswith("edge_"):
            return "t1_labels"           # anything that changes what T1 reaches (the query = text + T1 labels)
        if dim in T2_CFG or dim.startswith("leaf:t2.") or dim == "gel_edge":
            return "config"
        if dim.startswith("leaf:") or dim in ("edge_rmw", "edge_copy"):
            return "t1_labels"
        if dim == "node_rmw":
            return "node_label"
        if dim in ("node_label", "node_add", "apply_node"):
            return "node_label"
        if dim == "apply_edge":
            return "t1_labels"
        if dim == "memory_readd":
            return "memory_add"
    if dim in ("node_add", "apply_node"):
        return "node_label"
    if cache == "t2" and (dim.startswith("leaf:t2.hybrid.") or dim == "gel_edge"):
        return "hybrid"          # neither the hybrid configuration nor the GEL graph is part of the T2 key
    return dim


# dimension classes recorded as OPEN findings (listed last when a minimal history needs several dimensions, so that a
# new dimension is never hidden behind a recorded one)
OPEN_CLASSES: Dict[str, List[str]] = {"t2": [], "turn": [], "t1": []}     # every recorded finding has been repaired


NEUTRAL = ("kill", "clock", "outage")      # never the stale dimension themselves: they only decide whether a cache is consulted


def classify(case: dict, div: dict) -> str:
    cache = cache_of(case["mode"], div)
    dims = []
    seen_turn = False
    for op in case["ops"]:
        if op["op"] == "turn":
            seen_turn = True
        elif seen_turn and op["dim"] not in NEUTRAL:     # ops before the first turn are initial conditions
            dims.append(dim_class(cache, op["dim"]))
    multi_state = len({op.get("w", 0) for op in case["ops"] if op["op"] == "turn"}) > 1
    dims = sorted(set(dims))
    if cache == "turn":
        # the turn-level key carries the version: an entry must never be served across a version bump (apply)
        # [state, version before the turn, apply ran during the turn] per turn.  A served entry was stored by an earlier
        # turn of the same state under the same version: no apply of that state may have happened since.
        vers = div.get("versions") or []
        j = div.get("turn", 0)
        if j < len(vers):
            same_ver = [v for v in vers[:j] if v[:2] == vers[j][:2]]
            applied = [v for v in vers[:j] if v[0] == vers[j][0] and v[2]]
            if not same_ver or applied:
                return f"C05:{cache}:version_bump"
    if multi_state:
        # the minimal history needs turns on two states: an entry was served ACROSS states (whatever else had to
        # happen to make the keys collide, e.g. an add that equalises the index versions)
        return f"C05:{cache}:state"
    if not dims:
        return f"C05:{cache}:none"
    known = OPEN_CLASSES.get(cache, [])
    fresh = [d for d in dims if d not in known]
    return f"C05:{cache}:{(fresh or dims)[0]}"


# ------------------------------------------------------------------------------------------------
# attribution by READ-SET DIFFERENCE: a stale hit is classified by what differs in the stage's read-set between the
# request that FILLED the entry (same real key, a miss) and the request that was SERVED from it — not by the names of
# the ops in the history.
# ------------------------------------------------------------------------------------------------
T1_FIELDS = {"text": "text", "seeds": "text", "decay": "decay_rate", "mult": "edge_mult", "radius": "radius_cap", "iter": "iter_cap",
             "layers": "iter_cap_layers", "queue": "queue_budget", "relax": "relax_cap", "nb": "node_budget",
             "sIters": "slice_t1_iters", "sPops": "slice_t1_pops", "fr": "perf_frontier", "vis": "perf_visited",
             "ded": "perf_dedupe", "perf": "perf_enabled", "gid": "gid"}
T2_FIELDS = {"tiers": "tiers", "text": "text", "labels": "q_text", "days": "recent_days", "thr": "sim_threshold", "topM": "top_m",
             "sliceK": "slice_t2_k", "scope": "owner_scope", "owner": "agent", "k": "k_retrieval", "now": "now",
             "rank": "ranking", "rcap": "residual_cap", "ksurf": "k_surface", "ver": "index_version",
             "labelMap": "node_label"}
TURN_CLASS = {"agent": "agent", "q_text": "t1_labels", "node_label": "node_label", "now": "now", "text": "text",
              "slice_t2_k": "slice_t2_k", "index_version": "memory_add", "index_content": "memory_add", "state": "state"}


def _diff_t1(a: dict, b: dict, same_world: bool) -> List[str]:
    out = [n for f, n in T1_FIELDS.items() if a.get(f) != b.get(f)]
    if a.get("graph") != b.get("graph"):
        out.append("graph_content" if same_world else "state")
    return sorted(set(out))


def _diff_t2(a: dict, b: dict, same_world: bool) -> List[str]:
    out = [n for f, n in T2_FIELDS.items() if a.get(f) != b.get(f)]
    qa, qb = a.get("_q") or {}, b.get("_q") or {}
    out += ["leaf:t2.quality." + k for k in sorted(set(qa) | set(qb)) if qa.get(k) != qb.get(k)]
    if (a.get("_hyb") or {}) != (b.get("_hyb") or {}) or a.get("_gel") != b.get("_gel"):
        out.append("hybrid")
    if a.get("index") != b.get("index"):
        out.append("index_content" if same_world else "state")
    return sorted(set(out))


def _origin(entries: List[Tuple[int, dict]], upto: int, key) -> Optional[Tuple[int, dict]]:
    """the last MISS (= fill) with this real key before position `upto`"""
    best = None
    for pos, (ti, e) in enumerate(entries[:upto]):
        if not e.get("hit") and key in (e.get("real") if isinstance(e.get("real"), list) and e.get("real") and
                                         isinstance(e["real"][0], list) else [e.get("real")]):
            best = (ti, e)
    return best


def readset_diff(case: dict, on: List[dict], off: List[dict], div: dict) -> Optional[Tuple[str, List[str]]]:
    """(cache, differing read-set dimensions) of the stale hit behind the divergence, or None when the served entry
    or its origin cannot be identified (then the op-name classifier is the fallback)."""
    cache = cache_of(case["mode"], div)
    j = div.get("turn", 0)
    if j >= len(on):
        return None
    if cache == "t1":
        x = on[j].get("x1")
        if not x or not x.get("hit") or not x.get("real") or "__err__" in (x.get("raw") or {}):
            return None
        ents = [(ti, o["x1"]) for ti, o in enumerate(on) if o.get("x1")]
        pos = [ti for ti, _ in ents].index(j)
        org = _origin(ents, pos, x["real"][0])
        if org is None:
            return None
        return cache, _diff_t1(org[1]["raw"], x["raw"], on[org[0]].get("w") == on[j].get("w"))
    if cache == "t2":
        xs = on[j].get("x2") or []
        if div.get("stage") == "t2_rag":
            cand = [e for e in xs[1:] if e.get("hit")]
        else:
            cand = [e for e in xs[:1] if e.get("hit")]
        if not cand or not cand[0].get("real") or "__err__" in (cand[0].get("raw") or {}):
            return None
        x = cand[0]
        ents = [(ti, e) for ti, o in enumerate(on) for e in (o.get("x2") or [])]
        pos = next(i for i, (ti, e) in enumerate(ents) if e is x)
        org = _origin(ents, pos, x["real"][0])
        if org is None or "__err__" in (org[1].get("raw") or {}):
            return None
        return cache, _diff_t2(org[1]["raw"], x["raw"], on[org[0]].get("w") == on[j].get("w"))
    # turn-level manager (one per state): the entry was stored by an earlier turn of the same state with the same key;
    # the T2 read-set of the served turn is the one the uncached run computed for that turn
    xt = [e for e in (on[j].get("xturn") or []) if e.get("hit") and e.get("ns") == "t2:semantic"]
    if not xt or j >= len(off) or not (off[j].get("x2") or []):
        return None
    org_i = None
    for i in range(j):
        if on[i].get("w") != on[j].get("w"):
            continue
        for e in on[i].get("xturn") or []:
            if not e.get("hit") and e.get("real") == xt[0].get("real") and (on[i].get("x2") or []):
                org_i = i
    if org_i is None:
        return None
    a, b = on[org_i]["x2"][0]["raw"], off[j]["x2"][0]["raw"]
    if "__err__" in a or "__err__" in b:
        return None
    dims = []
    for d in _diff_t2(a, b, True):
        dims.append(TURN_CLASS.get(d, "config"))
    return cache, sorted(set(dims))


def classify2(case: dict, on: List[dict], off: List[dict], div: dict) -> Tuple[str, List[str]]:
    """(finding key, all keys of the differing dimensions).  A divergence whose differing read-set dimensions are ALL
    recorded findings of that cache is a known finding (first of them); any unrecorded dimension names the key."""
    cache = cache_of(case["mode"], div)
    if cache == "turn":
        k = classify(case, div)
        if k.endswith(":version_bump"):
            return k, [k]
    rd = readset_diff(case, on, off, div)
    if rd is None:
        k = classify(case, div)
        return k, [k]
    cache, dims = rd
    if not dims:
        # same read-set, different answer: the hit path / the cached VALUE is wrong (value_aliasing: only after the
        # caller edited the containers of a result it had been handed)
        k = f"C05:{cache}:{'value_aliasing' if case.get('mutate_returned') else 'hit_differs_from_fill'}"
        return k, [k]
    known = OPEN_CLASSES.get(cache, [])
    fresh = [d for d in dims if d not in known]
    keys = [f"C05:{cache}:{d}" for d in dims]
    return f"C05:{cache}:{(fresh or dims)[0]}", keys


def shrink_candidates(case: dict):
    ops = case["ops"]
    # drop one op (non-turn ops first: fewer dimensions; then turns)
    order = [i for i, o in enumerate(ops) if o["op"] != "turn"] + [i for i, o in enumerate(ops) if o["op"] == "turn"]
    for i in order:
        if len(ops) > 1:
            yield dict(case, ops=ops[:i] + ops[i + 1:])
    if case.get("nworlds", 1) > 1:
        yield dict(case, nworlds=1, ops=[dict(o, w=0) if "w" in o else o for o in ops])
    if case.get("nworlds", 1) > 2:
        yield dict(case, nworlds=2, ops=[dict(o, w=min(o["w"], 1)) if "w" in o else o for o in ops])
    used = sorted({o["w"] for o in ops if "w" in o})
    if used and max(used) + 1 < case.get("nworlds", 1):
        yield dict(case, nworlds=max(used) + 1)
    if case.get("cap", 512) != 512:
        yield dict(case, cap=512)
    if case.get("ttl", 300) != 300:
        yield dict(case, ttl=300)
    if case.get("mutate_returned"):
        yield {k: v for k, v in case.items() if k != "mutate_returned"}


# ------------------------------------------------------------------------------------------------
# generators
# ------------------------------------------------------------------------------------------------
def _dims_for_mode(mode: str) -> List[str]:
    t1 = sorted(T1_CFG) + ["slice_t1_pops", "slice_t1_iters"]
    t2 = sorted(T2_CFG) + ["agent", "now", "slice_t2_k"]
    if mode.startswith("t1"):
        return t1 + ["text"] * 3
    return t1 + t2 + ["text"] * 4 + ["kill"] * 2 + ["outage"]


def gen_history(rng: random.Random, i: int) -> dict:
    from harness.lib.c05_hist import MODES
    mode = MODES[i % len(MODES)] if rng.random() < 0.8 else rng.choice(MODES)
    nworlds = rng.choice([2, 3, 7, 7, 8, 8, 11, 11]) if rng.random() < (0.35 if mode.startswith("t1") else 0.12) else 1
    case = {"mode": mode, "cap": rng.choice([1, 2, 512, 512]), "ttl": rng.choice([0, 5, 300, 300]),
            "nworlds": nworlds, "ops": []}
    if rng.random() < 0.08:
        case["mutate_returned"] = True     # NON-DECIDING diagnostic: a caller edits the containers of its results
    ops = case["ops"]
    dims = _dims_for_mode(mode)
    # the turn-level manager is only consulted with an unchanged version: start most histories with the kill switch on
    if mode in ("turn", "all_lru", "all_bytes") and rng.random() < 0.45:
        ops.append({"op": "set", "dim": "kill", "val": True})
    elif rng.random() < 0.15:
        ops.append({"op": "set", "dim": "kill", "val": True})
    if nworlds == 8 and rng.random() < 0.6:
        ops.append({"op": "set", "dim": "text", "val": "tiny"})
    elif rng.random() < 0.5:
        ops.append({"op": "set", "dim": "text", "val": rng.choice(TEXTS)})
    multi = nworlds == 11
    if multi and rng.random() < 0.6:
        # the shared slice budget binds on the two-graph state: start with one in force
        sd = rng.choice(["slice_t1_pops", "slice_t1_pops", "slice_t1_iters"])
        ops.append({"op": "set", "dim": sd, "val": rng.choice([1, 2, 3] if sd == "slice_t1_pops" else [0, 1, 2])})
        ops.append({"op": "set", "dim": "text", "val": rng.choice(M_TEXTS)})
    nturn = rng.choice([2, 3, 3, 4, 5])
    last_sets: List[dict] = []
    case["_tail"] = rng.random() < 0.7
    for t in range(nturn):
        ops.append({"op": "turn", "w": (rng.choice([3, 4, 5, 6]) if nworlds == 7 and rng.random() < 0.75 else
                                      W_EPS if nworlds == 8 and rng.random() < 0.8 else
                                      W_M if nworlds == 11 and rng.random() < 0.85 else rng.randrange(nworlds))})
        if t == nturn - 1:
            break
        for _ in range(rng.choice([0, 1, 1, 1, 2])):
            r = rng.random()
            if multi and r < 0.3:
                # which of the active graphs the request seeds (first only / second only / both)
                ops.append({"op": "set", "dim": "text", "val": rng.choice(M_TEXTS)})
            elif r < 0.45:
                d = rng.choice(dims)
                vals = CFG_DIMS[d][1] if d in CFG_DIMS else SPECIAL_DIMS[d]
                o = {"op": "set", "dim": d, "val": copy.deepcopy(rng.choice(vals))}
                ops.append(o)
                last_sets.append(o)
            elif r < 0.6 and last_sets:
                # go BACK to a default: the repeated request that a cache may answer
                o = rng.choice(last_sets)
                vals = CFG_DIMS[o["dim"]][1] if o["dim"] in CFG_DIMS else SPECIAL_DIMS[o["dim"]]
                ops.append({"op": "set", "dim": o["dim"], "val": copy.deepcopy(vals[0])})
            elif r < 0.68 or (nworlds == 8 and r < 0.8):
                ops.append(dict(copy.deepcopy(rng.choice(APPLY_EDITS)), w=(W_EPS if nworlds == 8 else rng.randrange(nworlds))))
            elif r < 0.71:
                ops.append(rng.choice([
                    {"op": "edge_rmw", "dim": "edge_rmw", "w": 0, "id": rng.choice(["e1", "e2"]), "wt": rng.choice([0.0, 0.9, 0.3])},
                    {"op": "node_rmw", "dim": "node_rmw", "w": 0, "id": "n:pear", "label": rng.choice(["apple", "pear", "tart"])},
                    {"op": "edge_copy", "dim": "edge_copy", "w": 0, "id": "e1"}]))
            elif r < 0.75:
                ops.append(dict(copy.deepcopy(rng.choice(EDGE_EDITS)), w=rng.randrange(nworlds)))
            elif r < 0.83 and not mode.startswith("t1"):
                ops.append(dict(copy.deepcopy(rng.choice(NODE_EDITS)), w=rng.randrange(nworlds)))
            elif r < 0.83:
                ops.append(dict(copy.deepcopy(rng.choice(NODE_EDITS[1:])), w=rng.randrange(nworlds)))
            elif r < 0.9 and not mode.startswith("t1"):
                ops.append(dict(copy.deepcopy(rng.choice(EP_ADDS + EP_READDS)), w=rng.randrange(nworlds)))
            else:
                ops.append({"op": "clock", "dim": "clock", "dt": rng.choice([0, 1, 6, 400])})
    if case.pop("_tail", False):
        # a later cache-hit turn: repeat the last turn (same state, same settings)
        last = [o for o in ops if o["op"] == "turn"][-1]
        ops.append(dict(last))
    return case


def sweep_cases(full: bool = True) -> List[dict]:
    """2-step histories: turn, change ONE dimension, turn (same state) — per cache configuration."""
    out = []

    def hist(mode, change_ops, pre=(), nworlds=1, second_w=0, first_w=0, profile=None):
        ops = list(pre) + [{"op": "turn", "w": first_w}] + list(change_ops) + [{"op": "turn", "w": second_w}]
        c = {"mode": mode, "cap": 512, "ttl": 300, "nworlds": nworlds, "ops": ops, "sweep": True}
        if profile:
            c["profile"] = profile
        return c

    def changes_for(dim):
        if dim in CFG_DIMS:
            return [[{"op": "set", "dim": dim, "val": copy.deepcopy(v)}] for v in CFG_DIMS[dim][1][1:]]
        if dim in SPECIAL_DIMS:
            return [[{"op": "set", "dim": dim, "val": v}] for v in SPECIAL_DIMS[dim][1:]]
        return []

    two_seeds = [{"op": "set", "dim": "text", "val": "fig and apple"}]
    t1_dims = sorted(T1_CFG) + ["slice_t1_pops", "slice_t1_iters", "text"]
    for mode in ("t1_lru", "t1_bytes"):
        for d in t1_dims:
            for ch in (changes_for(d) if (full or mode == "t1_lru") else changes_for(d)[:1]):
                out.append(hist(mode, ch, pre=two_seeds if d == "perf_frontier" else ()))
        for e in EDGE_EDITS:
            out.append(hist(mode, [copy.deepcopy(e)]))
        for n in NODE_EDITS[1:]:
            out.append(hist(mode, [copy.deepcopy(n)]))
        out.append(hist(mode, [], nworlds=2, second_w=1))
        out.append(hist(mode, [], nworlds=3, second_w=2))
    # identical content, different insertion order, under every order-sensitive cap
    order_pre = [[{"op": "set", "dim": "relax_cap", "val": 1}], [{"op": "set", "dim": "relax_cap", "val": 0}],
                 [{"op": "set", "dim": "queue_budget", "val": 2}], [{"op": "set", "dim": "slice_t1_pops", "val": 2}],
                 [{"op": "set", "dim": "node_budget", "val": 0.5}], [],
                 [{"op": "set", "dim": "text", "val": "fig and apple"},
                  {"op": "set", "dim": "perf_frontier", "val": copy.deepcopy(CFG_DIMS["perf_frontier"][1][1])}]]
    for mode in ("t1_lru", "t1_bytes"):
        for pre in (order_pre if mode == "t1_lru" else order_pre[:1] + order_pre[2:3]):
            for a, b in ((3, 4), (4, 3), (3, 5), (5, 3)):
                out.append(hist(mode, [], pre=pre, nworlds=7, first_w=a, second_w=b))
        out.append(hist(mode, [], nworlds=7, first_w=3, second_w=6))          # node order only
        out.append(hist(mode, [], nworlds=7, first_w=6, second_w=3))
    for a, b in ((3, 5), (5, 3)):
        out.append(hist("all_lru", [], pre=order_pre[0], nworlds=7, first_w=a, second_w=b))
    # applies through the real apply_changes / InMemoryGraphStore.apply_deltas (every magnitude class), on the state
    # that has an edge at T1's EPS cut-off; seeded at the edge's source ("tiny") and at "apple"
    for mode, edits, texts in (("t1_lru", APPLY_EDITS, ("tiny",)), ("t1_lru", APPLY_EDITS[8:], ("tell me about apple",)),
                               ("t1_bytes", APPLY_EDITS[:8], ("tiny",)),
                               ("t2_lru", APPLY_EDITS[:5], ("tiny",)),
                               ("all_lru", APPLY_EDITS[:5], ("tiny",))):
        for a in edits:
            for txt in texts:
                out.append(hist(mode, [dict(copy.deepcopy(a), w=W_EPS)], pre=[{"op": "set", "dim": "text", "val": txt}],
                                nworlds=8, first_w=W_EPS, second_w=W_EPS))
    # two applies in a row (1.7e-6 -> 1.6e-6 -> 1.7e-6) and an apply on ANOTHER state with the same graph id
    for mode in ("t1_lru", "t1_bytes"):
        out.append(hist(mode, [dict(copy.deepcopy(APPLY_EDITS[0]), w=W_EPS), dict(copy.deepcopy(APPLY_EDITS[1]), w=W_EPS)],
                        pre=[{"op": "set", "dim": "text", "val": "tiny"}], nworlds=8, first_w=W_EPS, second_w=W_EPS))
    # re-adding an existing episode id (changed text / owner / ts / importance / vector, same content)
    for mode, eps, agents in (("t2_lru", EP_READDS, ("A", "B")), ("t2_bytes", EP_READDS, ("A",)),
                              ("all_lru", EP_READDS[:3], ("A",)), ("all_bytes", EP_READDS[:2], ("A",))):
        for e in eps:
            for ag in agents:
                out.append(hist(mode, [copy.deepcopy(e)], pre=[{"op": "set", "dim": "agent", "val": ag}]))
    for e in EP_READDS[:2]:
        out.append(hist("turn", [copy.deepcopy(e)], pre=[{"op": "set", "dim": "kill", "val": True}]))
    # EVERY configuration leaf the validator allows under t2.quality / t2.hybrid / t2.ranking / t1 / perf.t1, one leaf at a
    # time with the corresponding gate ON, at a constant index version, on a corpus where the leaf matters
    qtext = [{"op": "set", "dim": "text", "val": Q_TEXT}]
    perf_on = [{"op": "set", "dim": "text", "val": "fig and apple"},
               {"op": "set", "dim": "perf_frontier", "val": {"enabled": True, "t1": {"caps": {"frontier": 0}}}}]
    for path, vals in config_leaves():
        for v in vals:
            ch = [{"op": "set", "dim": "leaf:" + path, "val": copy.deepcopy(v)}]
            if path.startswith("t2.quality."):
                out.append(hist("t2_lru", ch, pre=qtext, nworlds=W_Q + 1, first_w=W_Q, second_w=W_Q, profile="quality"))
                if ".mmr." in path:
                    out.append(hist("t2_bytes", ch, pre=qtext, nworlds=W_Q + 1, first_w=W_Q, second_w=W_Q, profile="quality"))
            elif path.startswith("t2.hybrid."):
                out.append(hist("t2_lru", ch, pre=qtext, nworlds=W_H + 1, first_w=W_H, second_w=W_H, profile="hybrid"))
            elif path.startswith("t2.ranking."):
                out.append(hist("t2_lru", ch, pre=qtext, nworlds=W_Q + 1, first_w=W_Q, second_w=W_Q))
            elif path.startswith("perf."):
                out.append(hist("t1_lru", ch, pre=perf_on))
            else:
                out.append(hist("t1_lru", ch))
    # the quality/hybrid gates themselves, set -> reset (mmr.k None -> 2 -> None), and a GEL edge edit
    out.append(hist("t2_lru", [{"op": "set", "dim": "leaf:t2.quality.mmr.k", "val": 2}, {"op": "turn", "w": W_Q},
                               {"op": "set", "dim": "leaf:t2.quality.mmr.k", "val": 1}],
                    pre=qtext, nworlds=W_Q + 1, first_w=W_Q, second_w=W_Q, profile="quality"))
    out.append(hist("t2_lru", [{"op": "gel", "dim": "gel_edge", "w": W_H, "a": "e3", "b": "e6", "wt": 0.9}],
                    pre=qtext, nworlds=W_H + 1, first_w=W_H, second_w=W_H, profile="hybrid"))
    # several active graphs contributing to one turn (the T1 cache holds one entry per graph): repeated requests, a
    # request where only one of the graphs contributes in between, and the same with the caller editing its results
    txt = lambda t: {"op": "set", "dim": "text", "val": t}
    for mode in ("t1_lru", "t1_bytes", "all_lru"):
        for mut in (False,):
            for mid in ([], [txt("pear"), {"op": "turn", "w": W_M}, txt("tell me about apple")],
                        [txt("plum"), {"op": "turn", "w": W_M}, txt("tell me about apple"), {"op": "turn", "w": W_M}]):
                c = hist(mode, mid, nworlds=W_M + 1, first_w=W_M, second_w=W_M)
                if mut:
                    c["mutate_returned"] = True
                out.append(c)
    # slice budgets (ctx.slice_budgets t1_pops / t1_iters) are SHARED by the active graphs of one turn: a later graph runs
    # under what the earlier ones left, so the same graph with the same seeds and the same etag runs under different
    # remainders from turn to turn, depending on which of the graphs before it the request seeds.  Every ordered pair of
    # requests over {first graph only, second graph only, both} x every slice value, on the long-lived T1 cache, plus the
    # return to the first request (a hit must equal the fresh run under the CURRENT remainder)
    for mode in (("t1_lru", "t1_bytes", "all_lru") if full else ("t1_lru",)):
        for sd, sv in [("slice_t1_pops", v) for v in (1, 2, 3)] + [("slice_t1_iters", v) for v in (0, 1)]:
            for a in M_TEXTS:
                for b in M_TEXTS:
                    if a == b:
                        continue
                    mid = [txt(b), {"op": "turn", "w": W_M}, txt(a)]
                    out.append(hist(mode, mid, pre=[{"op": "set", "dim": sd, "val": sv}, txt(a)],
                                    nworlds=W_M + 1, first_w=W_M, second_w=W_M))
    # NON-DECIDING diagnostic (value sharing): the SAME request repeated while the caller edits the result containers it
    # was handed — outside the property's alphabet; reported as a note only
    for mode in ("t1_lru", "t2_lru", "turn"):
        for pre in ([{"op": "set", "dim": "kill", "val": True}],):
            c = hist(mode, [{"op": "turn", "w": 0}], pre=pre)
            c["mutate_returned"] = True
            out.append(c)
    # a store outage during apply (apply survives it): whatever apply does to the version, the turn-level cache must
    # stay transparent across an agent switch, a memory add, a config change and a graph edit
    out_on = [{"op": "set", "dim": "outage", "val": True}]
    for mode in ("turn", "all_lru"):
        for ch in ([{"op": "set", "dim": "agent", "val": "B"}], [copy.deepcopy(EP_ADDS[0])],
                   [{"op": "set", "dim": "k_retrieval", "val": 1}], [copy.deepcopy(EDGE_EDITS[0])],
                   [{"op": "set", "dim": "outage", "val": False}]):
            out.append(hist(mode, [{"op": "turn", "w": 0}] + ch, pre=out_on))
    # read-modify-write edits (mutate the stored object, upsert the same object) and the equal-fresh-copy control
    for mode in ("t1_lru", "t1_bytes", "t2_lru"):
        out.append(hist(mode, [{"op": "edge_rmw", "dim": "edge_rmw", "w": 0, "id": "e1", "wt": 0.0}]))
        out.append(hist(mode, [{"op": "node_rmw", "dim": "node_rmw", "w": 0, "id": "n:pear", "label": "apple"}]))
        out.append(hist(mode, [{"op": "edge_copy", "dim": "edge_copy", "w": 0, "id": "e1"}]))
        out.append(hist(mode, [{"op": "edge_rmw", "dim": "edge_rmw", "w": 0, "id": "e1", "wt": 0.0},
                               {"op": "edge_copy", "dim": "edge_copy", "w": 0, "id": "e1"}]))
    t2_dims = sorted(T2_CFG) + ["agent", "now", "slice_t2_k", "text"]
    for mode in ("t2_lru", "t2_bytes"):
        for d in t2_dims + ["decay_rate", "slice_t1_pops"]:
            # quick tier: the byte-bounded mirror keeps the first value of each dimension
            for ch in (changes_for(d) if (full or mode == "t2_lru") else changes_for(d)[:1]):
                out.append(hist(mode, ch))
        for e in EDGE_EDITS[:4] + NODE_EDITS + EP_ADDS:
            out.append(hist(mode, [copy.deepcopy(e)]))
        out.append(hist(mode, [], nworlds=2, second_w=1))
        out.append(hist(mode, [], nworlds=3, second_w=2))
        # recency window + reference date
        out.append(hist(mode, [{"op": "set", "dim": "now", "val": NOWS[1]}],
                        pre=[{"op": "set", "dim": "ranking", "val": RANK1}]))
    kill = [{"op": "set", "dim": "kill", "val": True}]
    # (quick tier: the all-caches-on mirror of the turn-level sweep only re-finds the recorded turn-level findings)
    for mode in (("turn", "all_lru") if full else ("turn",)):
        for d in t2_dims + ["decay_rate", "slice_t1_pops"]:
            for ch in changes_for(d):
                out.append(hist(mode, ch, pre=kill))
        for e in EDGE_EDITS[:4] + NODE_EDITS + EP_ADDS:
            out.append(hist(mode, [copy.deepcopy(e)], pre=kill))
        out.append(hist(mode, [], pre=kill, nworlds=2, second_w=1))
        out.append(hist(mode, [{"op": "set", "dim": "kill", "val": False}], pre=kill))
    # text variants against each other (not only against the default text), version frozen by the kill switch
    for mode in ("t1_lru", "t2_lru", "turn", "all_lru"):
        for a, b in TEXT_VARIANT_PAIRS:
            for x, y in ((a, b), (b, a)):
                out.append(hist(mode, [{"op": "set", "dim": "text", "val": y}],
                                pre=kill + [{"op": "set", "dim": "text", "val": x}]))
        for d in ("agent", "k_retrieval", "now"):
            out.append(hist(mode, changes_for(d)[0]))                      # kill switch off: the version moves
        out.append(hist(mode, [copy.deepcopy(EDGE_EDITS[0])]))
        out.append(hist(mode, [copy.deepcopy(EP_ADDS[0])]))
    # a LATER cache-hit turn after every kind of turn: an in-turn mutation of a cached / served object by repo code (the
    # way an aliased accumulator manifests) is only observable on the next hit.  Thorough: every sweep history gets a
    # trailing repeat of its last turn; quick: every third.
    for i, c in enumerate(out):
        if full or i % 3 == 0:
            last = [o for o in c["ops"] if o["op"] == "turn"][-1]
            c["ops"] = list(c["ops"]) + [dict(last)]
    return out
