"""C15 components for the deterministic containers: DeterministicLRUSet (lru_det.py) / ring.DeterministicLRU,
DeterministicLRU map (lru_det.py), DedupeRing (ring.py)."""
from __future__ import annotations

import json
import random
from typing import Any, List

from harness.core import Component
from harness.lib.c15_vals import val_of, val_id, obs, obs_model, gen_val, elem, elem_id, P as NFALSY


def _strip_inv(out):
    if isinstance(out, list):
        for o in out:
            if isinstance(o, dict) and isinstance(o.get("s"), dict):
                o["s"].pop("inv", None)
    return out


def _drop1(case):
    ops = case["ops"]
    for i in range(len(ops)):
        yield dict(case, ops=ops[:i] + ops[i + 1:])


def _caps(rng):
    return rng.choice([0, 1, 1, 2, 2, 3, 3, 5, 8] + ([-1] if rng.random() < 0.1 else []))


class LSetComp(Component):
    name = "lset"
    budget = {"quick": 300, "thorough": 12000, "search": 12000}

    def gen(self, rng: random.Random, i: int) -> dict:
        cap = _caps(rng)
        nk = rng.choice([2, 3, 5, 9])
        ops = []
        for _ in range(rng.choice([3, 8, 20, 60])):
            r = rng.random()
            if r < 0.6:
                ops.append(["add", rng.randrange(nk)])
            elif r < 0.96:
                ops.append(["contains", rng.randrange(nk)])
            else:
                ops.append(["clear"])
        return {"cls": rng.choice(["lru_det.DeterministicLRUSet", "ring.DeterministicLRU"]), "cap": cap, "ops": ops}

    def request(self, case):
        return {"c": "lset", "cap": case["cap"], "ops": case["ops"]}

    def impl(self, case):
        if case["cls"].startswith("ring."):
            from clematis.engine.util.ring import DeterministicLRU as C
        else:
            from clematis.engine.util.lru_det import DeterministicLRUSet as C
        c = C(case["cap"])
        out, states = [], []
        for op in case["ops"]:
            if op[0] == "add":
                r = c.add(elem(op[1]))                 # elements incl. "", None, 0
            elif op[0] == "contains":
                r = (elem(op[1]) in c) if op[1] % 3 else c.contains(elem(op[1]))
            else:
                r = c.clear()
            q = [elem_id(x) for x in c._q]
            st = [elem_id(x) for x in c._set]
            out.append({"r": r, "s": {"q": q, "n": len(c)}})
            states.append({"q": q, "set": st, "size": c.size()})
        return {"out": out, "states": states}

    def compare(self, case, impl_out, model_out):
        if isinstance(impl_out, dict) and "out" in impl_out:
            impl_out = impl_out["out"]
        return super().compare(case, impl_out, model_out)

    canon_model = staticmethod(lambda case, out: _strip_inv(out))

    def monitor_requests(self, case, impl_out):
        return [("inv", {"c": "lset.inv", "cap": case["cap"], "q": st["q"]}) for st in impl_out["states"]]

    def monitors(self, case, impl_out):
        res = []
        cap = max(0, case["cap"])
        prev: List[int] = []
        for op, o, st in zip(case["ops"], impl_out["out"], impl_out["states"]):
            res.append(("deque_dict_consistent", st["q"] == st["set"] and st["size"] == len(st["set"]),
                        f"deque {st['q']} vs dict {st['set']}"))
            res.append(("within_capacity", len(st["set"]) <= cap, f"size {len(st['set'])} cap {cap}"))
            if op[0] == "add":
                x = op[1]
                if cap == 0 or x in prev:
                    ok = st["q"] == prev and o["r"] is False
                elif len(prev) < cap:
                    ok = st["q"] == prev + [x] and o["r"] is False
                else:
                    ok = st["q"] == prev[1:] + [x] and o["r"] is True
                res.append(("fifo_eviction", ok, f"add {x}: {prev} -> {st['q']} returned {o['r']} (cap {cap})"))
            if op[0] == "contains":
                res.append(("contains_is_membership", o["r"] == (cap > 0 and op[1] in prev) and st["q"] == prev,
                            f"contains {op[1]} = {o['r']} in {prev}"))
            prev = st["q"]
        return res

    def tags(self, case, impl_out):
        t = set()
        for op, o in zip(case["ops"], impl_out["out"]):
            if op[0] == "add" and o["r"]:
                t.add("evict")
            if op[0] == "contains" and o["r"]:
                t.add("member")
        if case["cap"] <= 0:
            t.add("disabled")
        if t:
            t.add(case["cls"].split(".")[0])
        return sorted(t) or ["default"]

    shrink = staticmethod(_drop1)


class LMapComp(Component):
    name = "lmap"
    budget = {"quick": 400, "thorough": 16000, "search": 16000}

    def gen(self, rng: random.Random, i: int) -> dict:
        cap = _caps(rng)
        nk = rng.choice([2, 3, 5, 9])
        ops = []
        for _ in range(rng.choice([3, 8, 20, 60])):
            r = rng.random()
            if r < 0.45:
                ops.append(["put", rng.randrange(nk), gen_val(rng)])
            elif r < 0.75:
                # get(key) and get(key, default) with None / falsy / ordinary defaults
                ops.append(["get", rng.randrange(nk)] + ([gen_val(rng)] if rng.random() < 0.4 else []))
            elif r < 0.87:
                ops.append(["contains", rng.randrange(nk)])
            elif r < 0.96:
                ops.append(["pop_lru"])
            else:
                ops.append(["clear"])
        return {"cap": cap, "uog": rng.random() < 0.6, "uop": rng.random() < 0.6,
                "evict_raises": rng.random() < 0.2, "ops": ops}

    def request(self, case):
        return {"c": "lmap", "cap": case["cap"], "uog": case["uog"], "uop": case["uop"],
                "ops": [op[:2] if op[0] == "get" else op for op in case["ops"]]}

    def impl(self, case):
        from clematis.engine.util.lru_det import DeterministicLRU
        ev: List[list] = []

        def on_evict(k, v):
            ev.append([k, val_id(v)])
            if case.get("evict_raises"):
                raise RuntimeError("callback failure must be swallowed")

        c = DeterministicLRU(case["cap"], update_on_get=case["uog"], update_on_put=case["uop"], on_evict=on_evict)
        out, states = [], []
        for op in case["ops"]:
            del ev[:]
            try:
                if op[0] == "put":
                    r = c.put(op[1], val_of(op[2]))     # value ids denote Python objects incl. None/0/""/False
                    r = [r[0], val_id(r[1])] if r is not None else None
                elif op[0] == "get":
                    r = obs(c.get(op[1], val_of(op[2])) if len(op) > 2 else c.get(op[1]))
                elif op[0] == "contains":
                    r = (op[1] in c) if op[1] % 2 else c.contains(op[1])
                elif op[0] == "pop_lru":
                    r = c.pop_lru()
                    r = [r[0], val_id(r[1])] if r is not None else None
                else:
                    r = c.clear()
            except Exception as e:      # nothing here may raise (eviction callbacks are contained)
                r = f"raised:{type(e).__name__}"
            q = list(c._q)
            out.append({"r": r, "ev": [list(e) for e in ev],
                        "s": {"items": [[k, val_id(v)] for k, v in c.items()], "q": q, "n": len(c)}})
            states.append({"q": q, "map": [[k, val_id(v)] for k, v in c._map.items()]})
        return {"out": out, "states": states}

    def compare(self, case, impl_out, model_out):
        if isinstance(impl_out, dict) and "out" in impl_out:
            impl_out = impl_out["out"]
        return super().compare(case, impl_out, model_out)

    @staticmethod
    def canon_model(case, out):
        out = _strip_inv(out)
        if isinstance(out, list):
            for op, o in zip(case["ops"], out):
                if isinstance(o, dict) and op[0] == "get":
                    r = o.get("r")
                    if r is None and len(op) > 2:
                        r = op[2]                     # miss → the caller's default
                    o["r"] = obs_model(r)             # a stored / default None reads as None
        return out

    def monitor_requests(self, case, impl_out):
        rq = []
        for st in impl_out["states"]:
            m = dict((k, v) for k, v in st["map"])
            if sorted(st["q"]) != sorted(m) or len(st["q"]) != len(st["map"]):
                rq.append(("inv.deque_map_consistent", {"c": "const", "v": False}))
                continue
            rq.append(("inv", {"c": "lmap.inv", "cap": case["cap"], "items": [[k, m[k]] for k in st["q"]]}))
        return rq

    def monitors(self, case, impl_out):
        res = []
        cap = max(0, case["cap"])
        prev: List[list] = []
        for op, o, st in zip(case["ops"], impl_out["out"], impl_out["states"]):
            m = dict((k, v) for k, v in st["map"])
            cur = [[k, m.get(k)] for k in st["q"]]
            pk = [e[0] for e in prev]
            pm = dict((e[0], e[1]) for e in prev)
            res.append(("within_capacity", len(st["map"]) <= cap, f"size {len(st['map'])} cap {cap}"))
            res.append(("operation_does_not_raise", not (isinstance(o["r"], str) and o["r"].startswith("raised:")), f"{op} -> {o['r']}"))
            if op[0] == "put" and cap > 0:
                k, v = op[1], op[2]
                if k in pm:
                    want = ([e for e in prev if e[0] != k] + [[k, v]]) if case["uop"] else [[a, (v if a == k else b)] for a, b in prev]
                    ok = cur == want and o["ev"] == [] and o["r"] is None
                elif len(prev) < cap:
                    ok = cur == prev + [[k, v]] and o["ev"] == [] and o["r"] is None
                else:
                    ok = cur == prev[1:] + [[k, v]] and o["ev"] == [prev[0]] and o["r"] == prev[0]
                res.append(("lru_eviction", ok, f"put {k}: {prev} -> {cur} evicted {o['ev']} returned {o['r']}"))
            if op[0] == "get" and cap > 0:
                k = op[1]
                want = ([e for e in prev if e[0] != k] + [[k, pm[k]]]) if (k in pm and case["uog"]) else prev
                # a present key is a hit whatever it stores (None, 0, "", False …); a miss yields the default
                expect = obs_model(pm[k]) if k in pm else (obs_model(op[2]) if len(op) > 2 else None)
                res.append(("get_recency", o["r"] == expect and cur == want, f"get {op[1:]}={o['r']} (expected {expect}): {prev} -> {cur}"))
            if op[0] == "pop_lru" and cap > 0:
                ok = (o["r"] is None and cur == prev == []) if not prev else (o["r"] == prev[0] and cur == prev[1:] and o["ev"] == [prev[0]])
                res.append(("pop_lru_is_oldest", ok, f"pop_lru {o['r']}: {prev} -> {cur}"))
            if cap == 0:
                inert_r = (obs_model(op[2]) if len(op) > 2 else None) if op[0] == "get" else None
                res.append(("disabled_inert", cur == [] and (o["r"] == inert_r or (op[0] == "contains" and o["r"] is False))
                            and o["s"]["n"] == 0, f"disabled: {o}"))
            prev = cur
        return res

    def tags(self, case, impl_out):
        t = set()
        for op, o in zip(case["ops"], impl_out["out"]):
            if o["ev"] and op[0] == "put":
                t.add("evict")
            if op[0] == "get" and o["r"] is not None and len(op) == 2:
                t.add("hit")
            if op[0] == "get" and len(op) > 2:
                t.add("get_default")
            if op[0] == "put" and 0 <= op[2] < NFALSY and case["cap"] > 0:
                t.add("falsy_value_stored")
            if op[0] == "pop_lru" and o["r"] is not None:
                t.add("pop")
        if case["cap"] <= 0:
            t.add("disabled")
        if t:
            t.add(f"uog{int(case['uog'])}uop{int(case['uop'])}")
        return sorted(t) or ["default"]

    shrink = staticmethod(_drop1)


class RingComp(Component):
    name = "ring"
    budget = {"quick": 400, "thorough": 16000, "search": 16000}

    def gen(self, rng: random.Random, i: int) -> dict:
        k = _caps(rng)
        nk = rng.choice([2, 3, 5])
        pd = rng.choice([0.0, 0.0, 0.15, 0.3])
        ops = []
        for _ in range(rng.choice([3, 8, 20, 60])):
            r = rng.random()
            if r < pd:
                ops.append(["discard", rng.randrange(nk)])
            elif r < 0.85:
                ops.append(["add", rng.randrange(nk)])
            elif r < 0.97:
                ops.append(["extend", [rng.randrange(nk) for _ in range(rng.choice([0, 1, 3, 6]))]])
            else:
                ops.append(["clear"])
        return {"k": k, "nk": nk, "ops": ops}

    def request(self, case):
        return {"c": "ring", "k": case["k"], "nk": case["nk"], "ops": case["ops"]}

    def impl(self, case):
        from clematis.engine.util.ring import DedupeRing
        c = DedupeRing(case["k"])
        nk = case["nk"]
        out, states = [], []
        for op in case["ops"]:
            if op[0] == "add":
                c.add(elem(op[1]))                     # elements incl. "", None, 0
            elif op[0] == "extend":
                c.extend(elem(x) for x in op[1])
            elif op[0] == "discard":
                c.discard(elem(op[1]))
            else:
                c.clear()
            q = [elem_id(x) for x in c.tolist()]
            ref = [int(c._ref.get(elem(x), 0)) for x in range(nk)]
            has = [(elem(x) in c) if x % 3 else c.contains(elem(x)) for x in range(nk)]
            out.append({"s": {"q": q, "n": len(c), "ref": ref, "has": has}})
            states.append({"q": q, "ref": ref, "has": has,
                           "extra_ref": sorted(repr(k) for k, v in c._ref.items() if v > 0 and not (0 <= elem_id(k) < nk))})
        return {"out": out, "states": states}

    def compare(self, case, impl_out, model_out):
        if isinstance(impl_out, dict) and "out" in impl_out:
            impl_out = impl_out["out"]
        return super().compare(case, impl_out, model_out)

    canon_model = staticmethod(lambda case, out: _strip_inv(out))

    def monitor_requests(self, case, impl_out):
        return [("inv", {"c": "ring.inv", "k": case["k"], "q": st["q"], "ref": st["ref"]}) for st in impl_out["states"]]

    def monitors(self, case, impl_out):
        res = []
        k = max(0, case["k"])
        discard_free = True
        prev: List[int] = []
        for op, st in zip(case["ops"], impl_out["states"]):
            q = st["q"]
            res.append(("window_bound", len(q) <= k, f"len {len(q)} > k {k}"))
            res.append(("refcount_keys_known", not st["extra_ref"], f"refcounts for elements never added {st}"))
            res.append(("contains_iff_refcount", all(h == (k > 0 and c > 0) for h, c in zip(st["has"], st["ref"])), f"{st}"))
            res.append(("never_overcounts", all(c <= q.count(x) for x, c in enumerate(st["ref"])), f"{st}"))
            if op[0] == "discard":
                discard_free = False
            if op[0] == "clear":
                discard_free = True
            if discard_free:
                res.append(("exact_without_discard", all(c == q.count(x) for x, c in enumerate(st["ref"])), f"{st}"))
            if op[0] == "add" and k > 0:
                want = (prev if len(prev) < k else prev[1:]) + [op[1]]
                res.append(("fifo_window", q == want, f"add {op[1]}: {prev} -> {q}"))
            if op[0] == "extend" and k > 0:
                want = (prev + op[1])[-k:] if (prev + op[1]) else []
                res.append(("fifo_window", q == want, f"extend {op[1]}: {prev} -> {q}"))
            if op[0] == "discard":
                res.append(("discard_keeps_window", q == prev, f"discard changed window {prev} -> {q}"))
            prev = q
        return res

    def tags(self, case, impl_out):
        t = set()
        prev = 0
        for op, st in zip(case["ops"], impl_out["states"]):
            if op[0] in ("add", "extend") and len(st["q"]) == max(0, case["k"]) and prev == len(st["q"]) and case["k"] > 0:
                t.add("evict")
            if op[0] == "discard":
                t.add("discard")
            if any(c < st["q"].count(x) for x, c in enumerate(st["ref"])):
                t.add("undercount")
            if any(c > 1 for c in st["ref"]):
                t.add("duplicates")
            prev = len(st["q"])
        if case["k"] <= 0:
            t.add("disabled")
        return sorted(t) or ["default"]

    shrink = staticmethod(_drop1)


def _decode(i: int, radix: int, length: int):
    out = []
    for _ in range(length):
        out.append(i % radix)
        i //= radix
    return out


class _Exhaustive:
    """Mixin: enumerate ALL sequences of a small alphabet up to a length (index → sequence), starting at a
    seed-dependent offset so that quick runs of different seeds look at different slices; the thorough
    budget covers the whole space."""
    alphabet: list = []
    maxlen = 4
    configs: list = []

    def space(self) -> int:
        return len(self.configs) * sum(len(self.alphabet) ** L for L in range(1, self.maxlen + 1))

    def enum(self, idx: int):
        idx %= self.space()
        cfg = self.configs[idx % len(self.configs)]
        idx //= len(self.configs)
        for L in range(1, self.maxlen + 1):
            n = len(self.alphabet) ** L
            if idx < n:
                return cfg, [self.alphabet[d] for d in _decode(idx, len(self.alphabet), L)]
            idx -= n
        raise AssertionError

    def gen(self, rng, i):
        if i == 0:
            self._off = rng.randrange(self.space())
        return self.build(*self.enum(self._off + i))


class LMapExhaustive(_Exhaustive, LMapComp):
    name = "lmap_x"
    budget = {"quick": 1500, "thorough": 88880, "search": 88880}   # whole space in thorough
    # values: id 0 = None, 2 = "", 3 = False, 9 = the integer 9; `get` with and without a default
    alphabet = [["put", 0, 0], ["put", 1, 2], ["put", 2, 9], ["put", 0, 3], ["get", 0], ["get", 1, 8], ["get", 2],
                ["pop_lru"], ["contains", 1], ["clear"]]
    maxlen = 4
    configs = [(cap, uog, uop) for cap in (1, 2) for uog in (False, True) for uop in (False, True)]

    def build(self, cfg, ops):
        return {"cap": cfg[0], "uog": cfg[1], "uop": cfg[2], "evict_raises": False, "ops": [list(o) for o in ops]}


class RingExhaustive(_Exhaustive, RingComp):
    name = "ring_x"
    budget = {"quick": 1500, "thorough": 58821, "search": 58821}   # whole space in thorough
    alphabet = [["add", 0], ["add", 1], ["add", 2], ["discard", 0], ["discard", 1], ["extend", [0, 1, 0]], ["clear"]]
    maxlen = 5
    configs = [1, 2, 3]

    def build(self, cfg, ops):
        return {"k": cfg, "nk": 3, "ops": [list(o) for o in ops]}
