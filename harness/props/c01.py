"""C01 — Turn execution is reproducible byte-for-byte: generated determinism tables + skeleton correspondence +
end-to-end differential on the real engine (hash seeds, adversarial clocks, fresh vs warm process)."""
from __future__ import annotations

import concurrent.futures as cf
import copy
import json
import os
import random
import shutil
import subprocess
import sys
import tempfile
from pathlib import Path
from typing import Any, Dict, List, Optional, Tuple

from harness import core
from harness.core import Component, Ctx, Infra, run_component, run_driver

RULE = ("(a) skeleton: generated (config gates/budgets, 1-5 stubbed turns with repeated texts/versions, two scripted clock "
        "pairs perf_counter/time.time with boundary increments around quantum_ms, wall_ms and the cache TTL) run on the REAL "
        "run_turn and on the Lean model; non-trivial = a yield, a cache hit, a TTL expiry or a disabled gate; "
        "(b) normalize: generated turn-shaped records; (c) e2e: generated worlds (3-8 labelled nodes, weighted edges with ties, "
        "0-6 episodes with equal timestamps/owners, 1-3 agents, 2-5 turns with repeated texts, caches/scheduler/GEL/reflection knobs) "
        "each executed in fresh subprocesses under PYTHONHASHSEED values, adversarial clocks (const, creep, jump, back, chaos) and "
        "warm-process re-execution, byte-compared; non-trivial = at least one retrieval hit or graph propagation; distinct by canonical JSON")
ASSUMPTIONS = [
    "every turn carries a logical clock (ctx.now ISO string and ctx.now_ms) and episode timestamps parse: the wall-clock FALLBACKS listed in the clockReads table (verdict `fallback`) are then unreachable",
    "stage functions are deterministic functions of their logical inputs at the skeleton level (tokens); their internals are covered by the end-to-end differential and by the stage packages (C11, C12, C03, C18)",
    "skeleton scope: reflection gated off, graph.enabled=false, no dry-run; the reflection timeout decision and GEL are covered by the clock-read table (pinned `decision` row) and the end-to-end differential",
    "CI=true (the property is stated under CI normalisation); SOURCE_DATE_EPOCH is set (sidecar .meta created_at)",
    "optional LanceDB backend and LLM backends are not exercised (rule-based T3, in-memory index); T2 thread fan-out is not exercised (raises on this tree, DESIGN §5 row 9), T1 thread fan-out is",
    "time.monotonic is left real in the differential (the repository never reads it: theorem C01_no_monotonic_reads over the generated table)",
]
CLAIM = {
    "text": ("Machine-checked: (T) over tables regenerated from the AST on every run, every set-iteration site in clematis/ and configs/ is "
             "order-canonicalised and every wall-clock/entropy read reaches only fields erased by normalize_for_identity or a pinned, documented "
             "decision, run_turn's own reads being volatile by the automatic flow analysis alone; (P) permutation-invariance of the canonicalisation "
             "patterns (sorted, commutative fold, min, membership, lookup-only dict) and order-dependence of the strict-min fold that _suggest_key used; "
             "(S) for the run_turn clock skeleton (the definition clemdrv executes against the real run_turn): the canonical records, utterance and "
             "cache state of a turn sequence depend on the clock ONLY through the scheduler's elapsed>=wall_ms/quantum_ms decisions and the "
             "turn-level cache's age>ttl decision; hence full clock non-interference with the scheduler off and no TTL decision, equality for calm "
             "clocks otherwise, and machine-checked NEGATIONS of the property's full statement (slow clock => QUANTUM_EXCEEDED yield; TTL expiry => "
             "cache_hit flips in t2/turn records; warm process => same values but different hit flags, given key sufficiency).  Deciding tie: "
             "byte-for-byte differential of real executions across hash seeds, adversarial clocks and warm processes, with attribution of every "
             "difference by ablation (caches/scheduler/reflection off)."),
    "note": ("Partial: the full statement is false of the code in four classes recorded as known findings, each by design of a wall-clock budget or a "
             "process-global cache: scheduler wall-clock yields; cache TTL expiry on time.time; reflection's post-hoc wall budget; process-global T1/T2 "
             "stage caches (t1/t2 cache counters differ in a warm process). Stage internals, thread timing (T1 fan-out only) and the optional backends "
             "are covered by the differential only; the no-logical-clock fallbacks are excluded by assumption. Hash-order fix for configs/validate.py "
             "messages proposed (same defect as C14's)."),
    "technique": "Lean 4: decide over AST-generated tables, List.Perm lemmas, non-interference of an executable run_turn skeleton; multi-process byte differential on the real engine",
    "design_ref": "DESIGN.md §4 C01, §5 rows 5, 14",
}
DRIVER_MODULES = ["HC01"]
TABLES = ["determinism"]
MODELLED = {
    "clematis/engine/orchestrator/core.py": ["Orchestrator.run_turn", "_should_yield", "_derive_budgets"],
    "clematis/engine/util/io_logging.py": ["normalize_for_identity"],
    "clematis/engine/cache.py": ["_NamespaceCache.get", "_NamespaceCache.set"],
}
TRUSTED = ["harness/tables/determinism.py: syntactic set-typing and intra-procedural taint (conservative; self-tested on seeded snippets each run); reviewed pins in that file",
           "subprocess clock patching (time.*, datetime.datetime/date replaced before the repository is imported)"]

VERIF = Path(__file__).resolve().parent.parent.parent

# ------------------------------------------------------------------------------------------------------------
# (a) skeleton correspondence
# ------------------------------------------------------------------------------------------------------------
PC_STEPS = [0, 0, 0, 1, 3, 7, 19, 20, 21, 50, 199, 200, 201, 1000, -5]
WT_STEPS = [0, 1, 1, 5, 299, 300, 599, 600, 601, 5000, -10]


def _script(rng: random.Random, steps: List[int], n: int, calm: bool) -> List[int]:
    t, out = 0, []
    for _ in range(n):
        t += 0 if calm else rng.choice(steps)
        out.append(t)
    return out


class SkeletonComp(Component):
    name = "skeleton"
    budget = {"quick": 60, "thorough": 1500, "search": 200}

    def gen(self, rng: random.Random, i: int) -> dict:
        sched = rng.random() < 0.6
        bud = lambda vals: rng.choice(vals)  # noqa: E731
        cfg = {"scheduler": {"enabled": sched, "quantum_ms": rng.choice([1, 20, 20, 50]),
                             "budgets": {"wall_ms": bud([None, 20, 200, 200]), "t1_iters": bud([None, None, 2, 3]),
                                         "t1_pops": bud([None, None, 5]), "t2_k": bud([None, None, 3]),
                                         "t3_ops": bud([None, None, 1, 2])}},
               "t3": {"enabled": rng.random() < 0.8},
               "t4": {"enabled": rng.random() < 0.85,
                      "cache": {"enabled": rng.random() < 0.8, "ttl_sec": rng.choice([0, 300, 600, 600])}}}
        if i % 4 == 1:
            # scheduler on, only LOGICAL budgets can fire: quantum/wall far beyond any scripted elapsed value, so the
            # yield decisions are clock independent and ANY canonical difference between the two clocks is a violation
            cfg["scheduler"] = {"enabled": True, "quantum_ms": 10 ** 15,
                                "budgets": {"wall_ms": rng.choice([None, 10 ** 15]), "t1_iters": bud([None, 2, 3]),
                                            "t1_pops": bud([4, 5, 5]), "t2_k": bud([None, 2, 3]), "t3_ops": bud([None, 1, 2])}}
        n = rng.choice([1, 2, 3, 5])
        turns = []
        for k in range(n):
            turns.append({"turn": k + 1, "agent": rng.choice([1, 1, 2]), "text": rng.choice([7, 7, 8]),
                          "ver": rng.choice([0, 0, 0, 1]), "slice": 0,
                          "t1Iters": rng.choice([None, 1, 2, 3]), "t1Pops": rng.choice([None, 4, 5]),
                          "t1Tok": rng.randrange(1, 50), "t2K": rng.choice([None, 2, 3]), "t2Tok": rng.randrange(1, 50),
                          "ops": rng.choice([0, 1, 2]), "utter": rng.choice([0, 33, 34]), "t4Tok": rng.choice([0, 1, 2]),
                          "applyTok": rng.randrange(0, 5), "now": 1})
        sp = rng.choice([0, 0, 3])
        for t in turns:
            t["slice"] = sp + 1
        calmA = rng.random() < 0.4
        calmB = rng.random() < 0.15
        clocks = {w: {"pc": _script(rng, PC_STEPS, 40 * n, c), "wt": _script(rng, WT_STEPS, 4 * n, c)}
                  for w, c in (("A", calmA), ("B", calmB))}
        if rng.random() < 0.45:
            # B = A with every increment moved inside its threshold bucket: usually the same decisions with
            # different elapsed values (feeds the "same decisions => same canonical output" monitor)
            def jitter(vals, buckets):
                out, prev, t = [], 0, 0
                for v in vals:
                    inc = v - prev
                    prev = v
                    for lo, hi in buckets:
                        if lo <= inc <= hi:
                            inc = rng.randint(lo, min(hi, lo + 40))
                            break
                    t += inc
                    out.append(t)
                return out
            clocks["B"] = {"pc": jitter(clocks["A"]["pc"], [(1, 19), (20, 49), (50, 199), (200, 10 ** 9)]),
                           "wt": jitter(clocks["A"]["wt"], [(1, 299), (301, 599), (601, 10 ** 9)])}
        return {"cfg": cfg, "turns": turns, "now": rng.choice(["2024-01-06T00:00:00+00:00", None]),
                "slice_prev": sp, "clocks": clocks}

    def impl(self, case: dict) -> Any:
        from harness.lib import c01_skeleton as SK
        d = Path(tempfile.mkdtemp(prefix="sk_", dir=str(self._scratch)))
        try:
            a = SK.run_case(d / "A", case, "A")
            b = SK.run_case(d / "B", case, "B")
        finally:
            shutil.rmtree(d, ignore_errors=True)
        return {"cfg": a["cfg"], "A": {"outs": a["outs"], "decs": a["decs"]}, "B": {"outs": b["outs"], "decs": b["decs"]}}

    def requests(self, case: dict, io: dict) -> List[dict]:
        out = []
        for w in ("A", "B"):
            out.append({"c": "c01.turns", "cfg": io["cfg"],
                        "turns": [{"dec": d, "in": t} for d, t in zip(io[w]["decs"], case["turns"])]})
        return out

    def tags(self, case, io):
        t = set()
        for w in ("A", "B"):
            for o in io[w]["outs"]:
                for r in o.get("recs", []):
                    if r["s"] == "scheduler":
                        t.add("yield:%d@%d" % (r["id"][3], r["id"][4]))
                    if r["s"] == "t2" and len(r["id"]) >= 2 and io["cfg"]["cacheOn"] and r["id"][-2] == 1:
                        t.add("cache_hit")
                    if "bad" in r:
                        t.add("bad_record")
                if "raised" in o:
                    t.add("raised")
            for d in io[w]["decs"]:
                if io["cfg"]["cacheOn"] and io["cfg"]["ttl"] and d["age"] > io["cfg"]["ttl"]:
                    t.add("ttl_expired")
        for k in ("t3On", "t4On", "cacheOn"):
            if not io["cfg"][k]:
                t.add("off:" + k)
        if io["cfg"]["schedOn"] and io["cfg"]["quantumMs"] >= 10 ** 12 and any(x.startswith("yield:") for x in t):
            t.add("logical_yield_only")
        return sorted(t) or ["default"]


def run_skeleton(ctx: Ctx, comp: SkeletonComp, n: int) -> None:
    comp._scratch = ctx.scratch
    rng = ctx.rng_for(comp.name)
    cases = list(comp.corpus(ctx)) + [comp.gen(rng, i) for i in range(n)]
    ios = []
    for c in cases:
        try:
            ios.append(comp.impl(c))
        except Exception as e:
            ios.append({"__raised__": type(e).__name__, "msg": str(e)[:300]})
    reqs, owner = [], []
    for i, (c, io) in enumerate(zip(cases, ios)):
        if "__raised__" in io:
            continue
        for w, r in zip(("A", "B"), comp.requests(c, io)):
            reqs.append(r)
            owner.append((i, w))
        # Lean monitor on implementation outputs: indistinguishable clock contributions => same canonical outcome
        reqs.append({"c": "c01.same_canon", "cfg": io["cfg"], "decsA": io["A"]["decs"], "decsB": io["B"]["decs"],
                     "outsA": [o if "recs" in o else {"recs": [], "line": -7} for o in io["A"]["outs"]],
                     "outsB": [o if "recs" in o else {"recs": [], "line": -7} for o in io["B"]["outs"]]})
        owner.append((i, "mon"))
        reqs.append({"c": "c01.equiv", "cfg": io["cfg"], "decsA": io["A"]["decs"], "decsB": io["B"]["decs"]})
        owner.append((i, "equiv"))
    resps = run_driver(reqs)
    equiv_n = 0
    for (i, w), rs in zip(owner, resps):
        c, io = cases[i], ios[i]
        if w == "mon":
            if rs.get("ok") is not True:
                ctx.monitor_fail(comp.name, "same_decisions_same_canon", c,
                                 f"two real executions with indistinguishable clock decisions differ canonically: {json.dumps(rs)[:200]}", io,
                                 key="C01:skeleton:clock-reaches-canonical-output")
        elif w == "equiv":
            equiv_n += 1 if rs.get("ok") is True else 0
        else:
            mo = rs.get("ok", {"__model_err__": rs.get("err")})
            a, b = core._canon(io[w]["outs"]), core._canon(mo)
            if a != b:
                ctx.mismatch(comp.name, c, f"clock {w}: " + core.first_diff(a, b), io[w]["outs"], mo)
    for c, io in zip(cases, ios):
        if "__raised__" in io:
            ctx.record_case(comp.name, c, ["raised:" + io["__raised__"]])
            ctx.mismatch(comp.name, c, f"skeleton rig raised {io}", io, None)
        else:
            ctx.record_case(comp.name, c, comp.tags(c, io))
    ctx.extra.setdefault("skeleton", {})["pairs_with_indistinguishable_clocks"] = equiv_n


# ------------------------------------------------------------------------------------------------------------
# (b) normalize_for_identity on turn-shaped records
# ------------------------------------------------------------------------------------------------------------
FILES = {"t1": "t1.jsonl", "t2": "t2.jsonl", "t3": "t3.jsonl", "t3_plan": "t3_plan.jsonl", "t3_dialogue": "t3_dialogue.jsonl",
         "t4": "t4.jsonl", "apply": "apply.jsonl", "scheduler": "scheduler.jsonl", "turn": "turn.jsonl"}


class NormComp(Component):
    name = "normalize"
    budget = {"quick": 300, "thorough": 5000, "search": 1000}

    def gen(self, rng: random.Random, i: int) -> dict:
        o = lambda xs: rng.choice(xs)  # noqa: E731
        if i % 4 == 0:
            # yielded turn records (what run_turn writes on a slice-budget yield) carrying real timings
            return {"ci": rng.random() < 0.9,
                    "rec": {"s": "turn", "id": [rng.randrange(5)], "ms": o([None, 7, 250]), "now": o([None, 1, 1]),
                            "durs": o([[1, 2, 3, 4, 5], [12, 0, 0, 0, 31], [0, 0, 0, 0, 9]]), "y": True,
                            "sl": o([1, 4, None]), "cms": None}}
        return {"ci": rng.random() < 0.8,
                "rec": {"s": o(list(FILES)), "id": [rng.randrange(5)], "ms": o([None, 0, 3, 250]), "now": o([None, 1]),
                        "durs": o([None, [1, 2, 3, 4, 5], [0, 0, 0, 0, 0], []]), "y": o([None, True, False]),
                        "sl": o([None, 1, 4]), "cms": o([None, 0, 31])}}

    @staticmethod
    def to_py(rec: dict) -> dict:
        d: Dict[str, Any] = {"id": list(rec["id"])}
        if rec["ms"] is not None:
            d["ms"] = float(rec["ms"])
        if rec["now"] is not None:
            d["now"] = "N"
        if rec["durs"] is not None:
            d["durations_ms"] = {f"k{j}": float(v) for j, v in enumerate(rec["durs"])}
        if rec["y"] is not None:
            d["yielded"] = rec["y"]
        if rec["sl"] is not None:
            d["slice_idx"] = rec["sl"]
        if rec["cms"] is not None:
            d["consumed"] = {"ms": rec["cms"]}
        return d

    @staticmethod
    def from_py(s: str, d: dict) -> dict:
        return {"s": s, "id": d.get("id"), "ms": None if "ms" not in d else int(d["ms"]),
                "now": 1 if "now" in d else None,
                "durs": None if "durations_ms" not in d else [int(v) for v in d["durations_ms"].values()],
                "y": d.get("yielded"), "sl": d.get("slice_idx"), "cms": None if "consumed" not in d else d["consumed"]["ms"]}

    def impl(self, case: dict) -> Any:
        from clematis.engine.util.io_logging import normalize_for_identity
        old = os.environ.get("CI")
        os.environ["CI"] = "true" if case["ci"] else "false"
        try:
            src = self.to_py(case["rec"])
            keep = copy.deepcopy(src)
            out = normalize_for_identity(FILES[case["rec"]["s"]], src)
            twice = normalize_for_identity(FILES[case["rec"]["s"]], copy.deepcopy(out))
            return {"out": self.from_py(case["rec"]["s"], out), "idem": twice == out, "pure": src == keep,
                    "extra_keys": sorted(set(out) - set(src))}
        finally:
            if old is None:
                os.environ.pop("CI", None)
            else:
                os.environ["CI"] = old

    def request(self, case):
        return {"c": "c01.norm", "ci": case["ci"], "rec": case["rec"]}

    def compare(self, case, io, mo):
        if isinstance(io, dict) and "out" in io:
            io = io["out"]
        return super().compare(case, io, mo)

    def monitor_requests(self, case, io):
        # the Lean predicate `normOkB` (theorem C01_normalize_ok: the model satisfies it) evaluated on the REAL output
        return [("normalize_erases_volatile", {"c": "c01.norm_ok", "ci": case["ci"], "inp": case["rec"], "out": io["out"]})]

    def monitors(self, case, io):
        return [("normalize_adds_no_keys", not io["extra_keys"], f"normalize_for_identity added keys {io['extra_keys']}"),
                ("normalize_idempotent", bool(io["idem"]), "normalize_for_identity(normalize_for_identity(r)) != normalize_for_identity(r)"),
                ("normalize_pure", bool(io["pure"]), "normalize_for_identity mutated its argument")]

    def tags(self, case, io):
        r = case["rec"]
        t = []
        if case["ci"] and r["s"] in ("t1", "t2", "t4", "apply", "turn"):
            t.append("identity")
        if r["s"] == "turn" and r["y"]:
            t.append("yielded")
            if case["ci"] and r["durs"] and any(r["durs"]):
                t.append("yielded_nonzero_durations")
        if not case["ci"]:
            t.append("ci_off")
        return t or ["default"]


# ------------------------------------------------------------------------------------------------------------
# (c) end-to-end differential on the real engine
# ------------------------------------------------------------------------------------------------------------
WORDS = ["apple", "river", "stone", "cloud", "ember", "frost", "grove", "haven", "ivory", "jade", "kite", "lumen"]
CANON_LOGS = ("t1.jsonl", "t2.jsonl", "t4.jsonl", "apply.jsonl", "turn.jsonl", "health.jsonl", "scheduler.jsonl")
#: fields through which the known findings show (cache bookkeeping that the stage/turn records carry by design)
CACHE_FIELDS = {"t1.jsonl": {"cache_hits", "cache_misses", "cache_used", "max_delta"},
                "t2.jsonl": {"cache_hits", "cache_misses", "cache_used", "cache_hit", "cache_size"},
                "turn.jsonl": {"t2.cache_hit"}}
BASE_MS = 1704499200000  # 2024-01-06T00:00:00Z


def _iso(ms: int) -> str:
    import datetime as _dt
    return _dt.datetime.fromtimestamp(ms / 1000.0, tz=_dt.timezone.utc).isoformat()


#: fixed anchor of the scripted clocks used for worlds without an ISO logical clock: 2025-06-15T15:06:40Z.  Base and
#: variants stay inside that UTC day, so the documented `fallback` reads (T2 floors TODAY's date when ctx.now is missing)
#: see the same date, while time.time()/perf_counter differ by seconds to hours between the replays.
ANCHOR = 1750000000.0
CLOCKLESS_BASE = {"kind": "creep", "t0": ANCHOR}
CLOCKLESS_CLOCKS = [{"kind": "jump", "t0": ANCHOR + 3600.0, "step": 0.75}, {"kind": "back", "t0": ANCHOR + 7200.0, "step": 0.75},
                    {"kind": "const", "t0": ANCHOR + 5000.0}, {"kind": "jump", "t0": ANCHOR + 100.0, "step": 2.5}]


def gen_world(rng: random.Random, logical_sched: bool = False, parallel: bool = False, clockshape: bool = False,
              layers: bool = False) -> dict:
    nn = rng.choice([3, 4, 5, 8])
    words = rng.sample(WORDS, nn)
    nodes = [[f"n:{w}", w] for w in words]
    if rng.random() < 0.2:
        nodes.append(["n:dup", words[0]])
    edges = []
    wts = rng.choice([[0.8], [0.3, 0.5, 0.8, 1.0], [0.5, 0.5, 1.0]])
    for i in range(len(nodes) - 1):
        edges.append([f"e{i}", nodes[i][0], nodes[i + 1][0], rng.choice(wts), rng.choice(["supports", "associates", "contradicts"])])
    for j in range(rng.choice([0, 1, 3])):
        a, b = rng.sample(nodes, 2)
        edges.append([f"x{j}", a[0], b[0], rng.choice(wts), rng.choice(["supports", "associates"])])
    agents = [f"a{k + 1}" for k in range(rng.choice([1, 2, 3]))]
    eps = []
    days = rng.choice([[1], [1, 2, 3, 40], [0, 0, 5]])
    for i in range(rng.choice([0, 2, 4, 6])):
        ms = BASE_MS - rng.choice(days) * 86400000
        eps.append({"id": f"ep{i}", "text": " ".join(rng.choice(words + WORDS[:3]) for _ in range(rng.choice([2, 3, 4]))),
                    "owner": rng.choice(agents + ["world"]), "ts": _iso(ms).replace("+00:00", "Z"),
                    "tags": rng.sample(["x", "y", "z"], rng.choice([0, 1, 2])), "importance": rng.choice([0.0, 0.5, 0.5, 1.0])})
    sched = rng.random() < 0.2 and not clockshape
    cfg: Dict[str, Any] = {
        "t1": {"cache": {"enabled": rng.random() < 0.7, "max_entries": 512, "ttl_s": 300}},
        "t2": {"k_retrieval": rng.choice([1, 2, 3, 10]), "sim_threshold": rng.choice([0.0, 0.0, 0.1]),
               "owner_scope": rng.choice(["any", "any", "agent"]), "exact_recent_days": rng.choice([1, 30, 30]),
               "cache": {"enabled": rng.random() < 0.7, "max_entries": 512, "ttl_s": 300},
               "ranking": rng.choice([{"alpha_sim": 1.0, "beta_recency": 0.0, "gamma_importance": 0.0},
                                      {"alpha_sim": 0.75, "beta_recency": 0.2, "gamma_importance": 0.05}])},
        "t4": {"cache": {"enabled": rng.random() < 0.7, "ttl_sec": 600}, "cache_bust_mode": rng.choice(["none", "on-apply"]),
               "snapshot_every_n_turns": rng.choice([1, 1, 2])},
        "graph": {"enabled": rng.random() < 0.4, "merge": {"enabled": rng.random() < 0.5}, "split": {"enabled": rng.random() < 0.3},
                  "promotion": {"enabled": rng.random() < 0.3}},
        "scheduler": {"enabled": sched},
    }
    if parallel:
        # open the parallel gates: T1 and T2 thread fan-out, >= 2 memory shards, retrieval through the cluster tier with
        # clusters_top_m below the number of clusters, explicit aux.cluster_id, several owners
        owners = agents + ["world"] if len(agents) > 1 else ["a1", "a2", "world"]
        clusters = ["cA", "cB", "cC", "cD", "cE", "cF"][: rng.choice([4, 5, 6])]
        eps = []
        for i in range(rng.choice([8, 10, 12, 14])):
            ms = BASE_MS - rng.choice([0, 1, 2, 40, 40]) * 86400000
            ep = {"id": f"ep{i}", "text": " ".join(rng.choice(words + WORDS[:3]) for _ in range(rng.choice([2, 3, 4]))),
                  "owner": rng.choice(owners), "ts": _iso(ms).replace("+00:00", "Z"), "tags": [],
                  "importance": rng.choice([0.0, 0.5, 1.0])}
            if rng.random() < 0.85:
                ep["aux"] = {"cluster_id": rng.choice(clusters)}
            eps.append(ep)
        # re-added episode ids (an "updated" episode: same id, other text => other vector), first copy in the first
        # shard, second copy in the last one: what a fan-out over shard views must not confuse
        for j in range(rng.choice([2, 3, 4])):
            src = eps[j]
            eps.append(dict(src, text=" ".join(rng.choice(WORDS) for _ in range(3)),
                            ts=_iso(BASE_MS - rng.choice([0, 1, 2]) * 86400000).replace("+00:00", "Z")))
        cfg["perf"] = {"enabled": True, "parallel": {"enabled": True, "t1": True, "t2": True, "max_workers": rng.choice([2, 3, 4])}}
        cfg["t2"].update({"clusters_top_m": rng.choice([1, 1, 1, 2]), "k_retrieval": rng.choice([5, 10, 10]),
                          "exact_recent_days": rng.choice([1, 1, 30]), "sim_threshold": rng.choice([-1.0, -1.0, -1.0, 0.0]),
                          "owner_scope": rng.choice(["any", "any", "any", "agent"]),
                          "tiers": rng.choice([["exact_semantic", "cluster_semantic", "archive"], ["cluster_semantic", "archive"],
                                               ["exact_semantic", "cluster_semantic", "archive"], ["cluster_semantic", "archive"],
                                               ["cluster_semantic"]])})
    if logical_sched:
        # scheduler on; only LOGICAL slice budgets can fire (t1_pops/t1_iters/t2_k/t3_ops are compared with `==`, small values
        # are hit by these worlds); quantum_ms/wall_ms are far beyond anything the adversarial clocks of `LOGICAL_CLOCKS` reach,
        # so every yield decision is clock independent and the replays must be byte-identical
        sched = True
        cfg["scheduler"] = {"enabled": True, "quantum_ms": 10 ** 15,
                            "budgets": {"wall_ms": 10 ** 15, "t1_pops": rng.choice([None, 2, 3, 5, 7]),
                                        "t1_iters": rng.choice([None, 1, 2, 3]), "t2_k": rng.choice([None, 1, 2, 3]),
                                        "t3_ops": rng.choice([1, 2, 2])}}
    if rng.random() < 0.5 or clockshape:
        # per-turn time budget read by the health check; 1 ms is the smallest legal value, 1000 ms the documented default
        cfg["budgets"] = {"time_ms": rng.choice([1, 1000, 1000])}
    if layers:
        # every optional layer ON over a multi-turn history: GEL (observe/tick/merge/split/promotion), hybrid rerank over
        # the GEL graph, quality fusion + MMR, reflection; retrieval wide enough that earlier turns create co-activation
        # edges which later turns rerank with
        eps = []
        for i in range(rng.choice([5, 6, 8])):
            ms = BASE_MS - rng.choice([0, 1, 2, 3]) * 86400000
            eps.append({"id": f"ep{i}", "text": " ".join(rng.choice(words + WORDS[:3]) for _ in range(rng.choice([2, 3, 4]))),
                        "owner": rng.choice(agents + ["world"]), "ts": _iso(ms).replace("+00:00", "Z"), "tags": [],
                        "importance": rng.choice([0.0, 0.5, 1.0])})
        cfg["graph"] = {"enabled": True, "coactivation_threshold": rng.choice([-1.0, -1.0, 0.0]), "observe_top_k": 64,
                        "merge": {"enabled": True}, "split": {"enabled": rng.random() < 0.5}, "promotion": {"enabled": rng.random() < 0.5}}
        cfg["t2"].update({"k_retrieval": rng.choice([3, 5, 10]), "sim_threshold": -1.0, "owner_scope": "any", "exact_recent_days": 30,
                          "hybrid": {"enabled": True, "use_graph": True, "anchor_top_m": rng.choice([1, 2, 8]),
                                     "walk_hops": rng.choice([1, 2]), "edge_threshold": rng.choice([0.0, 0.0, 0.01]),
                                     "lambda_graph": rng.choice([0.25, 0.5]), "damping": 0.5, "degree_norm": rng.choice(["none", "invdeg"]),
                                     "max_bonus": 0.5, "k_max": 128},
                          "quality": {"enabled": rng.random() < 0.7, "mmr": {"enabled": rng.random() < 0.6}}})
        cfg["t3"] = {"allow_reflection": True}
    elif rng.random() < 0.3:
        cfg["t3"] = {"allow_reflection": True}
    if rng.random() < 0.2 and not parallel:
        # T1 fan-out over a thread pool (thread timing); T2 fan-out is left off (it raises on this tree: DESIGN §5 row 9)
        cfg["perf"] = {"enabled": True, "parallel": {"enabled": True, "t1": True, "t2": False, "max_workers": rng.choice([2, 4])}}
    spec: Dict[str, Any] = {"cfg": cfg, "graph": {"nodes": nodes, "edges": edges}, "episodes": eps}
    if "t3" in cfg and (rng.random() < 0.7 or layers):
        spec["state_extra"] = {"_planner_reflection_flag": True}
    nt = rng.choice([4, 5, 6]) if layers else rng.choice([2, 3, 5])
    texts = [" ".join(rng.choice(words) for _ in range(rng.choice([1, 2, 3]))) for _ in range(2)]
    turns = []
    for i in range(nt):
        ms = BASE_MS + 1000 * i
        turns.append({"agent": rng.choice(agents), "text": rng.choice(texts), "now_ms": ms, "now": _iso(ms)})
    sde = "0"
    if clockshape:
        # ctx clock shapes: no ISO string in ctx.now for at least one turn, now_ms of every accepted shape
        for t in turns:
            t["now_shape"] = rng.choice(["none", "none", "absent", "str"])
            t["now_ms_shape"] = rng.choice(["int", "float", "callable", "callable", "none"])
        cfg["t4"]["snapshot_every_n_turns"] = 1   # every clockless turn persists a snapshot
        turns[0]["now_shape"] = rng.choice(["none", "absent"])
        turns[0]["now_ms_shape"] = rng.choice(["callable", "float", "none"])
        # the LAST writer of state_<agent>.json decides the body: keep the final turn clockless as well
        turns[-1]["now_shape"] = rng.choice(["none", "absent"])
        turns[-1]["now_ms_shape"] = rng.choice(["callable", "float", "none"])
        sde = None   # SOURCE_DATE_EPOCH unset here; the other world flavours run with it set (and unset in 30%)
    elif rng.random() < 0.3:
        sde = None
    return {"spec": spec, "turns": turns, "sched": sched, "logical_sched": logical_sched, "parallel": parallel,
            "clockshape": clockshape, "layers": layers, "sde": sde}


#: clocks for the logical-budget scheduler cases: per-reading steps of 0.05-0.5 s (tens of seconds per turn at most,
#: nowhere near quantum_ms = wall_ms = 1e15 ms), forwards, backwards, random, and the real clock
LOGICAL_CLOCKS = [{"kind": "jump", "step": 0.137}, {"kind": "back", "step": 0.05}, {"kind": "chaos", "step": 0.5, "seed": 11},
                  {"kind": "real"}]


def variants_for(rng: random.Random, case: dict, tier: str) -> Tuple[dict, List[dict]]:
    """baseline + variants.  With the scheduler on the baseline clock is `const` (a real clock may or may not exceed
    quantum_ms: that nondeterminism IS the known finding; the const clock makes the other comparisons meaningful)."""
    bclk = {"kind": "const"} if case["sched"] else {"kind": "real"}
    base = {"name": "base", "hashseed": 0, "clock": bclk, "warm": 0}
    if case.get("clockshape"):
        base = {"name": "base", "hashseed": 0, "clock": CLOCKLESS_BASE, "warm": 0}
        vs = [{"name": "clock:" + c["kind"], "hashseed": 0, "clock": c, "warm": 0} for c in CLOCKLESS_CLOCKS]
        vs.append({"name": "hash", "hashseed": rng.randrange(2, 2 ** 31), "clock": CLOCKLESS_BASE, "warm": 0})
        return base, vs
    if case.get("logical_sched"):
        vs = [{"name": "clock:" + c["kind"], "hashseed": 0, "clock": c, "warm": 0} for c in LOGICAL_CLOCKS]
        vs.append({"name": "hash", "hashseed": rng.randrange(2, 2 ** 31), "clock": bclk, "warm": 0})
        return base, vs
    hs = [1, rng.randrange(2, 2 ** 31)]
    clocks = [{"kind": "const", "t0": 1.0e6}, {"kind": "creep"}, {"kind": "jump", "step": 50.0}, {"kind": "jump", "step": 4.0e7, "t0": 1.0e9},
              {"kind": "back", "step": 1000.0}, {"kind": "chaos", "step": 1.0e5, "seed": rng.randrange(1000)}]
    if case.get("parallel") or case.get("layers"):
        hs += [rng.randrange(2, 2 ** 31) for _ in range(2 if tier == "quick" else 4)]
    vs = [{"name": "hash", "hashseed": h, "clock": bclk, "warm": 0} for h in hs[2:]] + \
         [{"name": "hash", "hashseed": hs[0], "clock": bclk, "warm": 0},
          {"name": "hash", "hashseed": hs[1], "clock": bclk, "warm": 0},
          {"name": "warm", "hashseed": 0, "clock": bclk, "warm": 1}]
    if case.get("parallel"):
        # thread-order stream: the same fan-outs completed in prescribed, opposite orders (and a seeded permutation)
        for o in ["fwd", "rev"] + ([f"shuf:{rng.randrange(1000)}"] if tier != "quick" else []):
            vs.append({"name": "order:" + o.split(":")[0], "hashseed": 0, "clock": bclk, "warm": 0, "order": o})
    # always at least one clock with macroscopic steps (a leaked elapsed value rounds to 0.0 under const/creep)
    strong = [c for c in clocks if c["kind"] in ("jump", "back", "chaos")]
    first = rng.choice(strong)
    pick = [first] + rng.sample([c for c in clocks if c is not first], 1 if tier == "quick" else 3)
    for c in pick:
        vs.append({"name": "clock:" + c["kind"], "hashseed": 0, "clock": c, "warm": 0})
    if tier != "quick":
        vs.append({"name": "warm", "hashseed": rng.randrange(2, 2 ** 31), "clock": bclk, "warm": 2})
        vs.append({"name": "hash+clock:" + pick[0]["kind"], "hashseed": hs[1], "clock": pick[0], "warm": 0})
    return base, vs


def run_worker(scratch: Path, case: dict, variant: dict, timeout: int = 150) -> dict:
    root = Path(tempfile.mkdtemp(prefix="e2e_", dir=str(scratch)))
    try:
        job = root / "job.json"
        job.write_text(json.dumps({"case": {"spec": case["spec"], "turns": case["turns"], "sde": case.get("sde", "0")},
                                   "variant": variant, "root": str(root / "w")}))
        env = dict(os.environ, PYTHONHASHSEED=str(variant.get("hashseed", 0)), CI="true", CLEMATIS3_REPO=str(core.REPO))
        try:
            p = subprocess.run([sys.executable, "-m", "harness.lib.c01_worker", str(job)], cwd=str(VERIF), env=env,
                               capture_output=True, text=True, timeout=timeout)
        except subprocess.TimeoutExpired:
            raise Infra(f"e2e worker timed out after {timeout}s")
        if p.returncode != 0:
            return {"crash": (p.stderr or "")[-600:]}
        return json.loads(p.stdout.strip().splitlines()[-1])
    finally:
        shutil.rmtree(root, ignore_errors=True)


def _flat(rec: dict) -> Dict[str, Any]:
    out = {}
    for k, v in rec.items():
        if isinstance(v, dict) and k != "durations_ms":
            for kk, vv in v.items():
                out[f"{k}.{kk}"] = vv
            if not v:
                out[k] = {}
        else:
            out[k] = v
    return out


def _mask_sched(name: str, rec: dict) -> dict:
    if name == "scheduler.jsonl" and isinstance(rec.get("consumed"), dict) and "ms" in rec["consumed"]:
        rec = dict(rec, consumed=dict(rec["consumed"], ms=0))
    return rec


def diff_obs(a: dict, b: dict) -> List[Tuple[str, str, List[str]]]:
    """[(group, name, differing fields)] between two worker results; canonical streams byte-compared first."""
    out: List[Tuple[str, str, List[str]]] = []
    if "crash" in a or "crash" in b:
        if ("crash" in a) != ("crash" in b):
            out.append(("crash", "worker", ["crash"]))
        return out
    if a["lines"] != b["lines"]:
        out.append(("lines", "utterances", [str(i) for i, (x, y) in enumerate(zip(a["lines"], b["lines"])) if x != y] or ["count"]))
    for name in sorted(set(a["logs"]) | set(b["logs"])):
        if name not in CANON_LOGS:
            continue
        xa, xb = a["logs"].get(name), b["logs"].get(name)
        if xa == xb:
            continue
        try:
            ra = [_mask_sched(name, json.loads(l)) for l in bytes.fromhex(xa or "").decode().splitlines()]
            rb = [_mask_sched(name, json.loads(l)) for l in bytes.fromhex(xb or "").decode().splitlines()]
        except Exception:
            out.append(("logs", name, ["unparsable"]))
            continue
        if ra == rb and name == "scheduler.jsonl":
            continue
        fields = set()
        if len(ra) != len(rb):
            fields.add("#records")
        for x, y in zip(ra, rb):
            fx, fy = _flat(x), _flat(y)
            for k in set(fx) | set(fy):
                if fx.get(k, "<absent>") != fy.get(k, "<absent>"):
                    fields.add(k)
            if list(x.keys()) != list(y.keys()) and not fields:
                fields.add("#key-order")
        if not fields:
            fields.add("#bytes")
        out.append(("logs", name, sorted(fields)))
    for name in sorted(set(a["snaps"]) | set(b["snaps"])):
        xa, xb = a["snaps"].get(name), b["snaps"].get(name)
        if xa == xb:
            continue
        fields = []
        if xa is None or xb is None:
            out.append(("snaps", name, ["#missing"]))
            continue
        try:
            fa, fb = _deep_flat(json.loads(bytes.fromhex(xa))), _deep_flat(json.loads(bytes.fromhex(xb)))
            fields = sorted(k for k in set(fa) | set(fb) if fa.get(k, "<absent>") != fb.get(k, "<absent>")) or ["#bytes"]
            if name.endswith(".meta") and (a.get("sde_unset") or b.get("sde_unset")):
                # with SOURCE_DATE_EPOCH unset the sidecar's created_at is the wall clock by the repository's own
                # documented contract (snapshot._deterministic_created_at); every other sidecar field is compared
                fields = [f for f in fields if f != "created_at"]
                if not fields:
                    continue
        except Exception:
            fields = ["#bytes"]
        out.append(("snaps", name, fields[:12]))
    return out


def _deep_flat(x: Any, pre: str = "") -> Dict[str, Any]:
    """every leaf of a JSON body under its dotted path (lists by index)"""
    out: Dict[str, Any] = {}
    if isinstance(x, dict):
        if not x and pre:
            out[pre] = {}
        for k, v in x.items():
            out.update(_deep_flat(v, f"{pre}.{k}" if pre else str(k)))
    elif isinstance(x, list):
        if not x and pre:
            out[pre] = []
        for i, v in enumerate(x):
            out.update(_deep_flat(v, f"{pre}[{i}]"))
    else:
        out[pre] = x
    return out


def hard_diffs(a: dict, b: dict, diffs: list, refl_clock: bool = False) -> Tuple[list, list]:
    """Differences that can NEVER be one of the by-design classes, split off before any attribution:
      * health.jsonl values differ (same number of records) although the utterances and every stage/turn stream
        (t1, t2, t4, apply, turn, scheduler) are byte-identical
      * a snapshot / sidecar body that exists in both runs differs under the same premise (same retrieval, same approved
        deltas, same version, same turn => the persisted body must be the same)
    `refl_clock`: reflection is on AND the clock is perturbed.  Then a snapshot body may differ by design even under the
    quiet premise: a reflection that ran into its wall budget wrote no episode, so a later turn retrieves another
    episode in its place with the same counts in t2.jsonl (the stream carries no ids) and the GEL section of the
    snapshot names other edges.  Such a difference is not split off as hard; it goes to the ablation (it must vanish
    with reflection gated off, otherwise it is reported as a fresh violation).
    -> (hard, rest)"""
    if "crash" in a or "crash" in b:
        return [], diffs
    same = lambda n: a["logs"].get(n) == b["logs"].get(n)  # noqa: E731
    # nothing upstream differs: same utterances, and every stage/turn stream is byte-identical (the GEL section of a
    # snapshot follows retrieval, so t2.jsonl belongs to the premise as much as t4/apply do)
    quiet = a["lines"] == b["lines"] and all(same(n) for n in CANON_LOGS if n != "health.jsonl")
    hard, rest = [], []
    for d in diffs:
        grp, name, fields = d
        if grp == "logs" and name == "health.jsonl" and "#records" not in fields and quiet:
            hard.append(d)
        elif grp == "snaps" and "#missing" not in fields and quiet and not refl_clock:
            hard.append(d)
        else:
            rest.append(d)
    return hard, rest


def clock_perturbed(variant: dict) -> bool:
    return variant["clock"].get("kind") in ("jump", "back", "chaos")


def _set(case: dict, path: List[str], val) -> dict:
    c = copy.deepcopy(case)
    d = c["spec"].setdefault("cfg", {})
    for k in path[:-1]:
        d = d.setdefault(k, {})
    d[path[-1]] = val
    return c


def caches_off(case: dict) -> dict:
    """every cache (T1/T2 stage caches, turn-level t2:semantic cache) off; the scheduler is left as it is"""
    c = _set(case, ["t1", "cache", "enabled"], False)
    c = _set(c, ["t2", "cache", "enabled"], False)
    return _set(c, ["t4", "cache", "enabled"], False)


def sched_off(case: dict) -> dict:
    c = _set(case, ["scheduler", "enabled"], False)
    c["sched"] = False
    return c


def reflection_off(case: dict) -> dict:
    return _set(case, ["t3", "allow_reflection"], False)


def has_reflection(case: dict) -> bool:
    return bool(((case["spec"].get("cfg") or {}).get("t3") or {}).get("allow_reflection"))


def needs_ablation(case: dict, variant: dict) -> bool:
    return variant.get("warm", 0) > 0 or clock_perturbed(variant)


def yield_signature(res: dict) -> list:
    """the YIELD DECISIONS of one execution: per turn record (turn, agent, yielded, yield_reason) and per scheduler event
    (turn, agent, reason, stage_end) — what `_should_yield` decided, independent of how long anything took"""
    sig: list = []
    try:
        for l in bytes.fromhex(res["logs"].get("turn.jsonl", "")).decode().splitlines():
            r = json.loads(l)
            sig.append(["turn", r.get("turn"), r.get("agent"), bool(r.get("yielded")), r.get("yield_reason")])
        for l in bytes.fromhex(res["logs"].get("scheduler.jsonl", "")).decode().splitlines():
            r = json.loads(l)
            sig.append(["sched", r.get("turn"), r.get("agent"), r.get("reason"), r.get("stage_end")])
    except Exception:
        sig.append(["unparsable"])
    return sig


def attribute(scratch: Path, case: dict, base_v: dict, v: dict, base: dict, var: dict, diffs: list):
    """ATTRIBUTION BY ABLATION, one explanation at a time.  A difference is filed under a known class only if
      1. it vanishes with every cache off                                  -> warm-process / cache-ttl
      2. the two runs made DIFFERENT YIELD DECISIONS (yield_signature) and it vanishes with the scheduler off
                                                                           -> scheduler-yield
         (a scheduler that is merely ON, with identical decisions in both runs, explains nothing)
      3. reflection is on, the clock is perturbed and it vanishes with reflection off -> reflection-timeout
    Whatever survives is a fresh violation, reported on the ablated (smaller) case.
    Returns (key | None, case, base variant, diffs, note, subprocesses used)."""
    cur, bv, d, rb, rv, used = case, base_v, diffs, base, var, 0

    def rerun(c, b):
        nonlocal used
        used += 2
        x, y = run_worker(scratch, c, b), run_worker(scratch, c, v)
        return x, y, diff_obs(x, y)
    c1 = caches_off(cur)
    x, y, d1 = rerun(c1, bv)
    if not d1:
        key = "C01:warm-process:stage-cache" if (v.get("warm", 0) > 0 and not clock_perturbed(v)) else "C01:wallclock:cache-ttl"
        return key, case, base_v, diffs, "vanishes with every cache off", used
    cur, d, rb, rv = c1, d1, x, y
    if cur["sched"] and clock_perturbed(v) and yield_signature(rb) != yield_signature(rv):
        c2 = sched_off(cur)
        b2 = dict(bv, clock={"kind": "real"})
        x, y, d2 = rerun(c2, b2)
        if not d2:
            return "C01:wallclock:scheduler-yield", cur, bv, d, "the runs differ in a yield decision; vanishes with the scheduler off", used
        cur, bv, d, rb, rv = c2, b2, d2, x, y
    if clock_perturbed(v) and has_reflection(cur):
        c3 = reflection_off(cur)
        x, y, d3 = rerun(c3, bv)
        if not d3:
            return "C01:wallclock:reflection-timeout", cur, bv, d, "vanishes with reflection gated off", used
        cur, d = c3, d3
    return None, cur, bv, d, "survives every ablation", used


def fresh_keys(variant: dict, diffs: List[Tuple[str, str, List[str]]]) -> List[Tuple[str, str]]:
    kind = variant["name"].split(":")[0]
    return [(f"C01:{kind}:{name}:{'+'.join(fields)[:80]}", f"{grp} {name} differs in {fields}") for grp, name, fields in diffs]


class E2EComp(Component):
    name = "e2e"
    budget = {"quick": 10, "thorough": 65, "search": 15}

    def gen(self, rng: random.Random, i: int) -> dict:
        return gen_world(rng)


def _nontrivial_tags(case: dict, base: dict) -> List[str]:
    t = set()
    try:
        for l in bytes.fromhex(base["logs"].get("t2.jsonl", "")).decode().splitlines():
            r = json.loads(l)
            if r.get("k_returned") or r.get("k_used"):
                t.add("t2_hits")
        for l in bytes.fromhex(base["logs"].get("t1.jsonl", "")).decode().splitlines():
            r = json.loads(l)
            if r.get("propagations"):
                t.add("t1_propagation")
            if r.get("cache_hits"):
                t.add("t1_cache_hit")
        if any(isinstance(x, dict) for x in base["lines"]):
            t.add("turn_raised")
        if base["snaps"]:
            t.add("snapshot")
        if "scheduler.jsonl" in base["logs"]:
            t.add("sched_yield")
            if case.get("logical_sched"):
                t.add("logical_budget_yield")
        if "gel.jsonl" in base["logs"]:
            t.add("gel")
        if ((case["spec"].get("cfg") or {}).get("perf") or {}).get("enabled"):
            t.add("t1_parallel")
        if case.get("clockshape"):
            t.add("ctx_clock_shapes")
        if case.get("layers"):
            t.add("all_layers")
            for l in bytes.fromhex(base["logs"].get("t2.jsonl", "")).decode().splitlines():
                r = json.loads(l)
                if isinstance(r.get("hybrid"), dict) and len(r["hybrid"]) > 1:
                    t.add("hybrid_block_multikey")
                if r.get("hybrid_used"):
                    t.add("hybrid_used")
        if case.get("parallel") and len({e["id"] for e in case["spec"]["episodes"]}) < len(case["spec"]["episodes"]):
            t.add("duplicate_ids_across_shards")
        if case.get("sde", "0") is None:
            t.add("source_date_epoch_unset")
        if ((case["spec"].get("cfg") or {}).get("budgets") or {}).get("time_ms") == 1:
            t.add("tiny_time_budget")
        if case.get("parallel"):
            for l in bytes.fromhex(base["logs"].get("t2.jsonl", "")).decode().splitlines():
                r = json.loads(l)
                t.add("t2_parallel_gate_open")
                if "cluster_semantic" in (r.get("tier_sequence") or []):
                    t.add("cluster_tier")
        if "t3_reflection.jsonl" in base["logs"]:
            t.add("reflection")
        if len({tt["agent"] for tt in case["turns"]}) > 1:
            t.add("multi_agent")
    except Exception:
        pass
    return sorted(t) or ["default"]


def run_e2e(ctx: Ctx, comp: E2EComp, n: int) -> None:
    rng = ctx.rng_for(comp.name)
    tier = ctx.tier
    jobs = []   # (case idx, variant)
    cases = []
    for c in ctx.load_corpus(comp.name):
        cases.append((c["case"], c["base"], [c["variant"]]))
    for i in range(n):
        case = {0: lambda: comp.gen(rng, i), 1: lambda: gen_world(rng, parallel=True), 2: lambda: gen_world(rng, logical_sched=True),
                3: lambda: gen_world(rng, clockshape=True), 4: lambda: gen_world(rng, layers=True)}[i % 5]()
        base, vs = variants_for(rng, case, tier)
        cases.append((case, base, vs))
    for ci, (case, base, vs) in enumerate(cases):
        jobs.append((ci, base))
        for v in vs:
            jobs.append((ci, v))
    results: Dict[Tuple[int, int], dict] = {}
    workers = max(2, min(8, (os.cpu_count() or 4) // 2))
    with cf.ThreadPoolExecutor(max_workers=workers) as ex:
        futs = {ex.submit(run_worker, ctx.scratch, cases[ci][0], v): (ci, k) for k, (ci, v) in enumerate(jobs)}
        for f in cf.as_completed(futs):
            results[futs[f]] = f.result()   # Infra propagates
    hist: Dict[str, int] = {}
    by_case: Dict[int, List[Tuple[dict, dict]]] = {}
    for k, (ci, v) in enumerate(jobs):
        by_case.setdefault(ci, []).append((v, results[(ci, k)]))
    # phase 2: ATTRIBUTION BY ABLATION.  A difference under a warm process / a perturbed clock is attributed to a
    # known class only if it VANISHES when caches and scheduler are switched off for the same case and variant;
    # whatever survives the ablation is a fresh violation, reported on the (smaller) ablated case.
    pending = []   # (ci, variant, diffs)
    deferred: List[tuple] = []   # real-clock (hash-only) findings are reported AFTER the scripted-clock ones
    hardq: List[tuple] = []      # health / snapshot-body differences: reported first, never attributed
    for ci, (case, base_v, vs) in enumerate(cases):
        runs = by_case[ci]
        base = runs[0][1]
        if "crash" in base:
            ctx.record_case(comp.name, case, ["worker_crash"])
            ctx.mismatch(comp.name, case, "e2e baseline worker crashed: " + base["crash"][-300:], None, None)
            continue
        ctx.record_case(comp.name, case, _nontrivial_tags(case, base))
        # scripted-clock variants first: their replays are exactly reproducible (a leaked REAL clock value differs
        # between any two runs, which is caught as well but only reproduces when the readings differ again)
        for v, r in sorted(runs[1:], key=lambda vr: (0 if vr[0]["clock"].get("kind") != "real" else 1)):
            hist[v["name"]] = hist.get(v["name"], 0) + 1
            ctx.traces += 1
            diffs = diff_obs(base, r)
            if not diffs:
                continue
            hard, diffs = hard_diffs(base, r, diffs, refl_clock=has_reflection(case) and clock_perturbed(v))
            for key, detail in fresh_keys(v, hard):
                hardq.append(({"case": case, "base": base_v, "variant": v},
                              f"variant {v['name']} (hashseed {v['hashseed']}, clock {v['clock']}, warm {v['warm']}): {detail} "
                              "— with identical utterances and apply/t4 records (never a by-design class)",
                              {"diffs": [list(d) for d in hard]}, key))
            if not diffs:
                continue
            if needs_ablation(case, v):
                pending.append((ci, v, diffs))
            else:
                for key, detail in fresh_keys(v, diffs):
                    deferred.append(({"case": case, "base": base_v, "variant": v},
                                     f"variant {v['name']} (hashseed {v['hashseed']}, clock {v['clock']}, warm {v['warm']}): {detail}",
                                     {"diffs": [list(d) for d in diffs]}, key))
    for c_, detail_, io_, key_ in sorted(hardq, key=lambda q: 0 if q[0]["variant"]["clock"].get("kind") != "real" else 1):
        ctx.monitor_fail(comp.name, "byte_identical_replay", c_, detail_, io_, key=key_)
    attributed: Dict[str, int] = {}
    abl_used = 0
    with cf.ThreadPoolExecutor(max_workers=workers) as ex:
        futs = {}
        for pi, (ci, v, diffs) in enumerate(pending):
            runs = by_case[ci]
            var_res = next(r for vv, r in runs[1:] if vv is v)
            futs[ex.submit(attribute, ctx.scratch, cases[ci][0], cases[ci][1], v, runs[0][1], var_res, diffs)] = pi
        outcome = {futs[f]: f.result() for f in cf.as_completed(futs)}
    for pi, (ci, v, diffs) in enumerate(pending):
        key, acase, abase, adiffs, note, used = outcome[pi]
        abl_used += used
        desc = f"variant {v['name']} (hashseed {v['hashseed']}, clock {v['clock']}, warm {v['warm']})"
        if key is not None:
            attributed[key] = attributed.get(key, 0) + 1
            ctx.monitor_fail(comp.name, "byte_identical_replay", {"case": acase, "base": abase, "variant": v},
                             desc + ": " + "; ".join(f"{n} {f}" for _, n, f in adiffs)[:300] + " — " + note,
                             {"diffs": [list(d) for d in adiffs]}, key=key)
        else:
            for k2, detail in fresh_keys(v, adiffs):
                ctx.monitor_fail(comp.name, "byte_identical_replay", {"case": acase, "base": abase, "variant": v},
                                 desc + f" ({note}): {detail}", {"diffs": [list(d) for d in adiffs]}, key=k2)
    # exactly reproducible first: prescribed thread orders, then scripted clocks, then whatever ran on the real clock/pool
    rank = lambda q: 0 if q[0]["variant"].get("order") else (1 if q[0]["variant"]["clock"].get("kind") != "real" else 2)  # noqa: E731
    for c_, detail_, io_, key_ in sorted(deferred, key=rank):
        ctx.monitor_fail(comp.name, "byte_identical_replay", c_, detail_, io_, key=key_)
    ctx.extra.setdefault("e2e", {})["attributed_by_ablation"] = attributed
    ctx.extra["e2e"]["ablation_subprocesses"] = abl_used
    ctx.extra.setdefault("e2e", {})["variant_runs"] = hist
    ctx.extra["e2e"]["subprocesses"] = len(jobs)


# ------------------------------------------------------------------------------------------------------------
# scanner self-test: the table generator must flag seeded bad patterns (guards the translator itself)
# ------------------------------------------------------------------------------------------------------------
SEEDED = {
    "clematis/bad_hash.py": (
        "def f(xs):\n    s = set(xs)\n    out = []\n    for x in s:\n        out.append(x)\n    return out\n"
        "def g(xs):\n    return list({str(x) for x in xs})\n"
        "def ok(xs):\n    return sorted(set(xs))\n"),
    "clematis/bad_clock.py": (
        "import time, uuid\n"
        "def h(log):\n    t = time.time()\n    log('t1.jsonl', {'turn': 1, 'stamp': t})\n"
        "def k():\n    return {'id': str(uuid.uuid4())}\n"
        "def shard(eps, n):\n    groups = [[] for _ in range(n)]\n    for e in eps:\n        groups[hash(str(e)) % n].append(e)\n    return groups\n"
        "def probe(k):\n    try:\n        hash(k)\n        return True\n    except TypeError:\n        return False\n"
        "def fine(log):\n    t0 = time.perf_counter()\n    log('t1.jsonl', {'turn': 1, 'ms': round(time.perf_counter() - t0, 3)})\n"),
}


def scanner_selftest(ctx: Ctx) -> None:
    from harness.tables import determinism as D
    root = ctx.tmpdir("scan")
    for rel, src in SEEDED.items():
        p = root / rel
        p.parent.mkdir(parents=True, exist_ok=True)
        p.write_text(src)
    (root / "configs").mkdir(exist_ok=True)
    sites = D.scan_hash_sites(root)
    reads, _, _ = D.scan_clock_reads(root)
    got_s = {(s["func"], s["canon"]) for s in sites}
    got_r = {(r["func"], D.classify_read(r)[0]) for r in reads}
    want_s = {("f", "unordered"), ("g", "unordered"), ("ok", "sorted")}
    want_r = {("h", "leak"), ("k", "leak"), ("fine", "volatile"), ("shard", "leak"), ("probe", "volatile")}
    ok = want_s <= got_s and want_r <= got_r
    ctx.record_case("scanner", {"seeded": sorted(SEEDED)}, ["selftest"])
    ctx.extra["scanner_selftest"] = {"ok": ok, "sites": sorted(map(list, got_s)), "reads": sorted(map(list, got_r))}
    if not ok:
        ctx.proof_break(f"determinism table generator no longer flags the seeded patterns: sites={sorted(got_s)} reads={sorted(got_r)}")
    tb = run_driver([{"c": "c01.tables"}])[0].get("ok", {})
    ctx.extra["tables_in_driver"] = tb
    if not (tb.get("hash_sites_ok") and tb.get("clock_reads_ok") and tb.get("core_ok")):
        # the same facts the `decide` theorems state, read from the compiled tables: name the offending rows
        from harness.tables import determinism as D2
        bad_s = [s for s in D2.scan_hash_sites(core.REPO) if s["canon"] == "unordered"]
        bad_r = [(r["file"], r["func"], D2.classify_read(r)) for r in D2.scan_clock_reads(core.REPO)[0]
                 if D2.classify_read(r)[0] == "leak"]
        ctx.proof_break("determinism tables: " + json.dumps({"unordered_sites": bad_s, "leaking_reads": bad_r})[:1500])


# ------------------------------------------------------------------------------------------------------------
# validator messages under different hash seeds (DESIGN §5 row 5: did-you-mean suggestion over a set)
# ------------------------------------------------------------------------------------------------------------
def gen_bad_configs(rng: random.Random, n: int) -> List[dict]:
    out: List[dict] = [{"t5": 1}, {"scheduler": {"policy": "nope"}}, {"t2": {"k_retrieva": 3}}, {"t4": {"cach": {}}},
                       {"graph": {"enable": True}}, {"schedule": {}}]
    tops = ["t1", "t2", "t3", "t4", "graph", "scheduler", "perf"]
    subs = ["cache", "k_retrieval", "enabled", "budgets", "backend", "decay", "merge", "quantum_ms", "ranking", "hybrid"]
    for _ in range(n):
        def typo(w: str) -> str:
            i = rng.randrange(len(w))
            return rng.choice([w[:i] + w[i + 1:], w[:i] + rng.choice("abcxyz125") + w[i + 1:], w + rng.choice("sx1"),
                               w[:i] + rng.choice("abcxyz125") + w[i:]])
        if rng.random() < 0.4:
            out.append({typo(rng.choice(tops)): {}})
        else:
            out.append({rng.choice(tops): {typo(rng.choice(subs)): 1}})
    return out


def run_validator_diff(ctx: Ctx) -> None:
    rng = ctx.rng_for("validator")
    configs = list(ctx.load_corpus("validator")) or []
    configs = [c for c in configs if isinstance(c, dict)] + gen_bad_configs(rng, 30 if ctx.tier == "quick" else 300)
    seeds = [0, 1, 2, rng.randrange(3, 2 ** 31)] + ([rng.randrange(3, 2 ** 31) for _ in range(4)] if ctx.tier != "quick" else [])
    outs = []
    for hs in seeds:
        root = Path(tempfile.mkdtemp(prefix="val_", dir=str(ctx.scratch)))
        job = root / "job.json"
        job.write_text(json.dumps({"mode": "validate", "configs": configs}))
        env = dict(os.environ, PYTHONHASHSEED=str(hs), CLEMATIS3_REPO=str(core.REPO))
        try:
            p = subprocess.run([sys.executable, "-m", "harness.lib.c01_worker", str(job)], cwd=str(VERIF), env=env,
                               capture_output=True, text=True, timeout=120)
        except subprocess.TimeoutExpired:
            raise Infra("validator worker timed out")
        if p.returncode != 0:
            raise Infra("validator worker failed: " + p.stderr[-300:])
        outs.append(json.loads(p.stdout.strip().splitlines()[-1])["msgs"])
    rejected = 0
    for i, c in enumerate(configs):
        col = [o[i] for o in outs]
        rejected += 1 if col[0] != "ok" else 0
        ctx.record_case("validator", c, ["rejected" if col[0] != "ok" else "default"])
        if len(set(col)) > 1:
            ctx.monitor_fail("validator", "message_independent_of_hashseed", {"config": c, "hashseeds": seeds},
                             "validate_config error text depends on PYTHONHASHSEED: " + " | ".join(sorted(set(col)))[:400], col,
                             key="C01:hash:validator-message")
    ctx.extra["validator"] = {"configs": len(configs), "rejected": rejected, "hashseeds": seeds}


SKEL = SkeletonComp()
NORM = NormComp()
E2E = E2EComp()
# the composed whole-turn model (package e2e): real run_turn on real stages vs Clem.Compose.runTurns
from harness.lib import compose_comp as CC  # noqa: E402

COMPONENTS = [SKEL, NORM, E2E] + list(CC.COMPONENTS)
DRIVER_MODULES = DRIVER_MODULES + ["HCompose"]
for _rel, _names in CC.MODELLED.items():
    MODELLED.setdefault(_rel, [])
    MODELLED[_rel] = list(dict.fromkeys(list(MODELLED[_rel]) + list(_names)))
ASSUMPTIONS = list(ASSUMPTIONS) + list(CC.ASSUMPTIONS)
TRUSTED = list(TRUSTED) + list(CC.TRUSTED)


def _n(ctx: Ctx, comp: Component) -> int:
    return max(1, int(comp.budget.get(ctx.tier, comp.budget["quick"]) * ctx.budget_scale))


def run(ctx: Ctx) -> None:
    scanner_selftest(ctx)
    run_component(ctx, NORM)
    run_skeleton(ctx, SKEL, _n(ctx, SKEL))
    run_validator_diff(ctx)
    run_e2e(ctx, E2E, _n(ctx, E2E))
    CC.run(ctx)


def run_monitors_only(ctx: Ctx) -> None:
    run_e2e(ctx, E2E, _n(ctx, E2E))


def _decanon(x: Any) -> Any:
    """replay files store floats as {"f": "<ieee bits>"} (core._canon): turn them back into floats"""
    if isinstance(x, dict):
        if set(x) == {"f"} and isinstance(x["f"], str) and x["f"].isdigit():
            return core.b2f(x["f"])
        return {k: _decanon(v) for k, v in x.items()}
    if isinstance(x, list):
        return [_decanon(v) for v in x]
    return x


def replay(ctx: Ctx, rec: dict) -> int:
    if str(rec.get("component", "")).startswith("compose."):
        comps = {c.name: c for c in CC.COMPONENTS}
        for c in comps.values():
            if hasattr(c, "bind"):
                c.bind(ctx)
        return core.generic_replay(ctx, rec, comps)
    rec = _decanon(rec)
    if rec.get("component") == "e2e" or ("case" in rec and isinstance(rec["case"], dict) and "variant" in rec["case"]):
        c = rec["case"]
        base = run_worker(ctx.scratch, c["case"], c["base"])
        var = run_worker(ctx.scratch, c["case"], c["variant"])
        diffs = diff_obs(base, var)
        for d in diffs:
            print(f"REPLAY e2e difference {d[0]} {d[1]} fields={d[2]}")
        keys: List[str] = []
        hard, diffs = hard_diffs(base, var, diffs, refl_clock=has_reflection(c["case"]) and clock_perturbed(c["variant"]))
        keys += [k for k, _ in fresh_keys(c["variant"], hard)]
        if hard:
            print("REPLAY e2e health/snapshot-body difference with identical utterances and apply/t4 records")
        if diffs and needs_ablation(c["case"], c["variant"]):
            key, _, _, adiffs, note, _ = attribute(ctx.scratch, c["case"], c["base"], c["variant"], base, var, diffs)
            print(f"REPLAY e2e attribution: {note}")
            keys += [key] if key is not None else [k for k, _ in fresh_keys(c["variant"], adiffs)]
        elif diffs:
            keys += [k for k, _ in fresh_keys(c["variant"], diffs)]
        for k in keys:
            print(f"REPLAY e2e class {k}")
        want = rec.get("key")
        hit = [k for k in keys if want is None or k == want]
        print(f"REPLAY component=e2e monitor byte_identical_replay {'FAILS' if hit else 'holds'}")
        return 1 if hit else 0
    if rec.get("component") == "validator":
        msgs = set()
        for hs in rec["case"]["hashseeds"]:
            root = Path(tempfile.mkdtemp(prefix="val_", dir=str(ctx.scratch)))
            (root / "job.json").write_text(json.dumps({"mode": "validate", "configs": [rec["case"]["config"]]}))
            p = subprocess.run([sys.executable, "-m", "harness.lib.c01_worker", str(root / "job.json")], cwd=str(VERIF),
                               env=dict(os.environ, PYTHONHASHSEED=str(hs), CLEMATIS3_REPO=str(core.REPO)),
                               capture_output=True, text=True, timeout=120)
            msgs.add(json.loads(p.stdout.strip().splitlines()[-1])["msgs"][0])
        print(f"REPLAY component=validator distinct messages across hash seeds: {len(msgs)}")
        for m in sorted(msgs):
            print("REPLAY   " + m[:200])
        print(f"REPLAY monitor message_independent_of_hashseed {'FAILS' if len(msgs) > 1 else 'holds'}")
        return 1 if len(msgs) > 1 else 0
    if rec.get("component") == "skeleton" and "case" in rec:
        SKEL._scratch = ctx.scratch
        io = SKEL.impl(rec["case"])
        reqs = SKEL.requests(rec["case"], io)
        rc = 0
        for w, rs in zip(("A", "B"), run_driver(reqs)):
            mo = rs.get("ok", {"__model_err__": rs.get("err")})
            same = core._canon(io[w]["outs"]) == core._canon(mo)
            print(f"REPLAY component=skeleton clock {w} correspondence={'agrees' if same else 'DIFFERS ' + core.first_diff(core._canon(io[w]['outs']), core._canon(mo))}")
            rc |= 0 if same else 1
        m = run_driver([{"c": "c01.same_canon", "cfg": io["cfg"], "decsA": io["A"]["decs"], "decsB": io["B"]["decs"],
                         "outsA": [o if "recs" in o else {"recs": [], "line": -7} for o in io["A"]["outs"]],
                         "outsB": [o if "recs" in o else {"recs": [], "line": -7} for o in io["B"]["outs"]]}])[0]
        if m.get("ok") is not True:
            print("REPLAY lean-monitor same_decisions_same_canon FAILS")
            rc = 1
        return rc
    from harness.core import generic_replay
    return generic_replay(ctx, rec, {c.name: c for c in COMPONENTS})
