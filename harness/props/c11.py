"""C11 — retrieval honours scope, thresholds, caps and documented ranking: correspondence + monitors.

The real `t2_semantic` (sequential path, caches off, in-memory index) is driven in-process on
generated memories / configs / graphs; the Lean model (`Clem.T2.t2`) is run through `clemdrv` on
the same inputs.  Cosine, centroid-cosine and BM25 are ORACLES: in the exact stream the harness
replaces `memory.index._cosine` and `quality_ops._bm25_scores` in the real modules by table lookups
and gives the same tables to the model; in the `real` stream the real functions are used and their
values are handed to the model as oracle inputs.
"""
from __future__ import annotations

import contextlib
import copy
import datetime as dt
import hashlib
import random
from typing import Any, Dict, List, Optional, Tuple

from harness.core import Component, Ctx, run_component, f2b, b2f

RULE = ("memories of 0-12 episodes over a small alphabet of owners / ids / vectors / timestamps / clusters (duplicate ids and "
        "vectors, zero vectors, missing vectors, missing/garbage timestamps, importance out of range), every k/threshold/"
        "tier-list/ranking/owner-scope setting from boundary-biased palettes (threshold equal to a score, cut-off equal to a "
        "timestamp), hybrid with generated GEL edges, lexical fusion + MMR, injected layer failures, slice cap and residual "
        "cap in {0,1,tight,loose} (labels occurring only in hits beyond t2_k), reference clocks at arbitrary times of day with timestamps around the cut-off instant, "
        "multi-call histories on one store with relabel/swap/add/remove edits, the parallel sharded path; one seeded PRNG per component; a case is non-trivial when it hits at least one branch tag "
        "(dedupe across tiers, early stop, threshold tie, scope filter, rerank reorder, residual cap ...); distinct by canonical JSON")
ASSUMPTIONS = [
    "exact model = the sequential in-memory path: perf.enabled = false, t2.cache.enabled = false, reader/LanceDB paths off (cache is C05's); "
    "the parallel (sharded) path is driven by component t2par and checked by the spec-level Lean monitors only",
    "ctx.now is a valid ISO timestamp not later than the wall clock (missing/unparsable episode timestamps are read by the code as wall-clock now)",
    "k_retrieval >= 1 (enforced by configs/validate.py); ids, owners, labels, texts are ASCII strings in the exact stream",
    "cosine / centroid cosine / BM25 / tokenisation / md5 cluster ids / ISO parsing are oracles (same values given to both sides)",
    "episode ids entering the rerank layers are distinct (a theorem about the tier walk: C11_ids_nodup)",
]
CLAIM = {
    "text": ("Unbounded Lean theorems about the executable model of T2 retrieval: at most k hits with distinct ids; every hit is an "
             "index episode visible under the owner scope (agent scope: owner = agent), has a vector and a cosine >= threshold and "
             "meets the rule of a configured tier (recency window / chosen top-m clusters / archive); the list entering the rerank "
             "layers is ordered by (-combined, id); hybrid rerank, fusion, MMR and apply_quality as a whole are permutations for every "
             "configuration and every injected layer failure (hybrid keeps position 0 and the tail beyond k_max); used = take(max 0 t2_k); "
             "residual ids are nodes of active graphs whose lower-cased label occurs in a used hit, strictly sorted, at most max(cap,0); "
             "completeness (episode ids may repeat: _rank_by_cosine keeps one entry per id before the k cut, C11_tier_ids_nodup): fewer than k hits => every "
             "qualifying episode's id is returned, each tier returns the best-k distinct ids under (-cosine, id), fewer than cap nudges => every matching label is represented; every Lean monitor is proved true of the model output. "
             "Tied to the code by exact differential execution (floats as bits) and by the Lean monitors evaluated on the real T2Result."),
    "note": ("Theorems are over any carrier whose Boolean comparisons form a linear order (arithmetic uninterpreted), executed at Float; "
             "NaN scores are outside the theorems. owner_scope=agent with ctx.agent_id = None applies NO owner filter (C11_scope_agent_none_unrestricted, "
             "observation). DEFECT repaired by proposed_fixes/C11_residual_cap_zero.diff: residual_cap_per_turn = 0 emitted one nudge (cap tested only after an "
             "append); model and C11_residual_cap_sorted follow the repaired loop, C11_residual_cap_unpatched_violates is the machine-checked witness against "
             "the old loop, corpus/C11/t2__residual_cap_zero.json the failing input. Covered only by correspondence: numpy cosine/centroid, BM25 + tokenisation, NFKC/unicode lowercasing, ISO parsing, md5 cluster ids, "
             "the exact float arithmetic of the combined score / hybrid bonus / reciprocal-rank fusion / Jaccard MMR (compared bit-for-bit, not proved). "
             "Parallel T2 path (perf.parallel gate open, >= 2 shards, 2-8 workers): not modelled exactly; component t2par evaluates the Lean monitors (count, distinct ids, scope, "
             "threshold, recency/archive rule, order, rerank = permutation, used = take t2_k, residual soundness/cap/completeness) on its T2Result; the global top-m cluster rule is waived "
             "there (monTierPar; recorded finding C09:t2:cluster-tier-per-shard) and exact outputs are not compared (C09:t2:qscore-tie-at-k-cut). "
             "History stream t2hist: 2-4 calls on one long-lived store/index with edits in between (relabel same id, label swap, add/remove node, add episode, slice budget), "
             "each call compared with the model on the CURRENT contents and with a fresh store (the stage is a function of the current contents; caches off). "
             "Reference clocks at arbitrary times of day / UTC offsets with episode timestamps within seconds..hours of the cut-off instant in t2, t2real, t2par, t2idx, t2hist. "
             "Not modelled: LanceDB backend, embed-store reader, T2 cache (C05)."),
    "technique": "Lean 4 proofs (filters, stable insertion sort, permutation lemmas, loop invariants) + exact correspondence with oracle tables + Lean monitors on the real T2Result",
    "design_ref": "DESIGN.md §4 C11",
}
DRIVER_MODULES = ['HT2']
TABLES = ['t2consts']
MODELLED = {
    "clematis/memory/index.py": ["InMemoryIndex._filter_owner", "InMemoryIndex._filter_recent",
                                 "InMemoryIndex._filter_quarters", "InMemoryIndex._rank_by_cosine",
                                 "InMemoryIndex._search_with_episodes", "_stable_cluster_id"],
    "clematis/engine/stages/t2/core.py": ["t2_semantic"],
    "clematis/engine/stages/t2/helpers.py": ["owner_for_query", "items_for_fusion"],
    "clematis/engine/stages/t2/state.py": ["build_label_map"],
    "clematis/engine/stages/t2/quality.py": ["apply_quality"],
    "clematis/engine/stages/t2/quality_ops.py": ["fuse", "maybe_apply_mmr"],
    "clematis/engine/stages/t2/quality_mmr.py": ["mmr_select", "mmr_reorder_full", "jaccard_distance"],
    "clematis/engine/stages/hybrid.py": ["rerank_with_gel", "_edge_weight", "_degree"],
}
TRUSTED = ["oracles, not verified: numpy float32 cosine and centroid mean, BM25 scoring and tokenisation, str.lower/NFKC beyond ASCII, "
           "datetime ISO parsing, md5 cluster ids; the monkeypatch seams (_cosine, _bm25_scores, recorder around apply_quality / rerank_with_gel)"]

NOW = "2025-09-01T00:00:00Z"
EPOCH = dt.datetime(1970, 1, 1, tzinfo=dt.timezone.utc)
TIER_CODE = {"exact_semantic": 0, "cluster_semantic": 1, "archive": 2}
VOCAB = ["apple", "Banana", "fruit", "car", "bike", "the", "pie", "APPLE", "applesauce", "of"]
LABELS = ["apple", "Apple", "banana", "fruit", "app", "fruit pie", "car", "zebra", "", "PIE", "e"]
ULP = 2.0 ** -54


def _us(d: dt.datetime) -> int:
    return (d - EPOCH) // dt.timedelta(microseconds=1)


def _ts_kind(ts: Any) -> Any:
    """None = missing/falsy, "g" = truthy but unparsable, int = microseconds."""
    if not ts:
        return None
    try:
        d = dt.datetime.fromisoformat(ts.replace("Z", "+00:00")).astimezone(dt.timezone.utc)
    except Exception:
        return "g"
    return _us(d)


def _t2k_norm(v: Any) -> Optional[int]:
    """`int(_t2_cap)`, failures -> 0 (the clamp of negatives is the model's)."""
    if v is None:
        return None
    try:
        return int(v)
    except Exception:
        return 0


def _scope_code(scope: str) -> int:
    s = str(scope).lower()
    return 1 if s == "agent" else 2 if s == "world" else 0


# --------------------------------------------------------------------------
# generator
# --------------------------------------------------------------------------

def gen_eps(rng: random.Random, n: int, now: dt.datetime, days: int, dom: Optional[str] = None) -> List[dict]:
    vec_pool = [[0.0, 0.0, 0.0], [1.0, 0.0, 0.0], [0.0, 1.0, 0.0], [1.0, 1.0, 0.0], [2.0, 0.0, 1.0],
                [0.0, 0.0, 3.0], [1.0, 2.0, 3.0], [-1.0, 0.0, 0.0], [4.0, 1.0, 0.0], [0.0, 5.0, 5.0]]
    id_pool = ["e1", "e10", "e2", "E3", "a", "b", "e07", "zz", "e5", "e6", "m1", "m2", "m3", "e8", "e9"]
    rng.shuffle(id_pool)
    dup_ids = rng.random() < 0.08
    eps = []
    for i in range(n):
        e: Dict[str, Any] = {}
        e["id"] = rng.choice(id_pool[: max(1, n // 2)]) if dup_ids else id_pool[i % len(id_pool)] + ("" if i < len(id_pool) else str(i))
        r = rng.random()
        if dom is not None and rng.random() < 0.6:
            e["owner"] = dom
        elif r < 0.8:
            e["owner"] = rng.choice(["A", "A", "B", "world", "C"])
        elif r < 0.9:
            e["owner"] = None
        e["text"] = " ".join(rng.choice(VOCAB) for _ in range(rng.choice([0, 1, 2, 3, 4])))
        r = rng.random()
        if r < 0.72:
            off = rng.choice([0, 1, days, days, days, days + 1, max(0, days - 1), 29, 30, 31, 100, 364, 365, 366, 400, -1])
            t = now - dt.timedelta(days=off)
            r2 = rng.random()
            if r2 < 0.15:
                t = t + dt.timedelta(microseconds=rng.choice([-1, 1, 500000]))
            elif r2 < 0.5:
                # within ±1 s / ±1 h / ±23 h 59 m of the instant (cut-off when off == days)
                t = t + rng.choice([-1, 1]) * rng.choice([dt.timedelta(seconds=1), dt.timedelta(hours=1), dt.timedelta(hours=6),
                                                           dt.timedelta(hours=23, minutes=59), dt.timedelta(hours=12)])
            if rng.random() < 0.15:
                e["ts"] = t.replace(tzinfo=None).isoformat()  # naive
            else:
                e["ts"] = t.isoformat().replace("+00:00", "Z")
        elif r < 0.8:
            e["ts"] = "garbage"
        elif r < 0.88:
            e["ts"] = ""
        elif r < 0.94:
            e["ts"] = None
        if rng.random() < 0.9:
            e["vec"] = rng.choice(vec_pool)
        else:
            e["vec"] = None
        r = rng.random()
        if r < 0.75:
            aux: Dict[str, Any] = {}
            if rng.random() < 0.8:
                aux["importance"] = f2b(rng.choice([0.5, 0.0, 1.0, -0.5, 1.5, 0.25, 0.75, 0.3]))
            if rng.random() < 0.6:
                aux["cluster_id"] = rng.choice(["c1", "c2", "c3", "c10", ""])
            e["aux"] = aux
        elif r < 0.85:
            e["aux"] = None
        eps.append(e)
    return eps


CLOCKS = ["2025-09-01T00:00:00Z", "2025-09-01T00:00:00Z", "2025-09-01T18:00:00Z", "2025-09-01T23:59:59Z",
          "2025-09-01T00:00:01Z", "2025-09-01T12:30:15.250000Z", "2025-09-01T18:00:00+02:00", "2025-08-31T20:15:00-05:30",
          "2025-09-01T06:00:00"]


def _parse_now(s: str) -> dt.datetime:
    return dt.datetime.fromisoformat(s.replace("Z", "+00:00")).astimezone(dt.timezone.utc)


def gen_case(rng: random.Random, i: int, real: bool = False) -> dict:
    now_s = rng.choice(CLOCKS)
    now = _parse_now(now_s)
    days = rng.choice([30, 30, 1, 0, 365, 7, -1])
    n = rng.choice([0, 1, 2, 3, 4, 5, 6, 6, 8, 8, 10, 12, 12])
    scope = rng.choice(["any", "any", "agent", "agent", "agent", "world", "Agent", "WORLD"])
    agent = rng.choice(["A", "A", "A", "B", "world", "Z", None])
    dom = agent if scope.lower() == "agent" else "world" if scope.lower() == "world" else None
    eps = gen_eps(rng, n, now, days, dom)
    base = [-1.0, -0.5, 0.0, 0.1, 0.3, 0.3, 0.5, 0.5, 0.9, 1.0, 0.3 + ULP, 0.3 - ULP, 0.7, -0.0, 5e-324, 1.0 - 2.0 ** -53]
    palette = [rng.choice(base) for _ in range(rng.choice([2, 3, 5, 8]))]
    theta = rng.choice([-1.0, -1.0, -1.0, 0.0, 0.0, 0.3, 0.3, 0.5, 1.0] + palette)
    if rng.random() < 0.01:
        theta = float("nan")          # float-gap probe: nothing passes a NaN threshold
    if real:
        theta = rng.choice([-1.0, -1.0, 0.0, 0.0, 0.05, 0.3])
    tiers_all = ["exact_semantic", "cluster_semantic", "archive"]
    r = rng.random()
    if r < 0.35:
        tiers = list(tiers_all)
    elif r < 0.85:
        tiers = rng.sample(tiers_all, rng.choice([1, 2, 3]))
    elif r < 0.93:
        tiers = rng.sample(tiers_all + ["foo"], rng.choice([1, 2, 3, 4]))
    elif r < 0.97:
        tiers = [rng.choice(tiers_all) for _ in range(3)]
    else:
        tiers = []
    ids = [e["id"] for e in eps] or ["e1"]
    edges = []
    seen = set()
    for _ in range(rng.choice([0, 1, 2, 4, 8, 14, 20, 30])):
        a, b = rng.choice(ids), rng.choice(ids)
        if a > b:
            a, b = b, a
        if (a, b) in seen:
            continue
        seen.add((a, b))
        edges.append([a, b, f2b(rng.choice([-1.0, -0.5, -0.1, 0.05, 0.1, 0.1, 0.5, 1.0, 0.0]))])
    hyb_on = rng.random() < 0.45
    hyb = {
        "enabled": hyb_on, "use_graph": rng.random() < 0.93,
        "anchor_top_m": rng.choice([1, 2, 2, 3, 8]), "walk_hops": rng.choice([1, 1, 2, 2]),
        "edge_threshold": f2b(rng.choice([0.0, 0.1, 0.1, 0.5])), "lambda_graph": f2b(rng.choice([0.0, 0.25, 1.0, 1.0, 0.5])),
        "damping": f2b(rng.choice([0.0, 0.5, 1.0])), "degree_norm": rng.choice(["none", "none", "invdeg"]),
        "max_bonus": f2b(rng.choice([0.0, 0.5, 0.5, 0.1, 2.0])), "k_max": rng.choice([1, 2, 3, 4, 5, 128, 128, 128]),
    }
    q_on = rng.random() < 0.45
    q = {
        "enabled": q_on, "mode": "score_interp" if rng.random() < 0.9 else "rrf",
        "alpha_semantic": f2b(rng.choice([0.0, 0.6, 0.6, 1.0, 0.5, 0.25])),
        "mmr_enabled": rng.random() < (0.6 if q_on else 0.2), "mmr_lambda": f2b(rng.choice([0.0, 0.5, 0.5, 1.0, 0.3, 1.5, -0.5])),
        "mmr_k": rng.choice([None, None, 1, 2, 3, 100, 0]),
        "stopwords": rng.choice(["en-basic", "en-basic", "none"]),
    }
    lex = {e["id"]: f2b(rng.choice([0.0, 0.0, 1.0, 1.0, 2.5, 0.7])) for e in eps}
    faults = {k: (rng.random() < (0.08 if (hyb_on or q_on) else 0.0)) for k in ("hybrid", "fuse", "mmr1", "mmr2")}
    graphs = []
    for g in range(rng.choice([0, 1, 1, 2])):
        nodes = []
        nids = rng.sample(["n1", "n2", "n10", "n3", "N4", "n5", "n6"], rng.choice([0, 1, 2, 3, 5, 7]))
        for nid in nids:
            nodes.append([nid, rng.choice(LABELS)])
        graphs.append([f"g{g}", nodes])
    active = [g[0] for g in graphs]
    if graphs and rng.random() < 0.1:
        active = active[:-1]          # a graph in the store that is not active
    case = {
        "now": now_s, "scope": scope, "agent": agent,
        "k": rng.choice([1, 1, 2, 2, 3, 4, 5, 8, 10, 64]), "theta": f2b(theta), "days": days,
        "topM": rng.choice([0, 1, 1, 2, 3, 3, -1]), "tiers": tiers,
        "rank": [f2b(rng.choice([0.0, 0.05, 0.2, 0.75, 1.0, 1.0])) for _ in range(3)],
        "eps": eps, "salt": rng.randrange(1 << 30), "palette": [f2b(x) for x in palette],
        "hyb": hyb, "edges": edges, "q": q, "lex": lex, "faults": faults,
        "t2k": rng.choice([None, None, None, 0, 1, 2, 3, 5, -1, "2", "x", True, "-3"]),
        "cap": rng.choice([0, 1, 1, 2, 3, 32, 32]),
        "graphs": graphs, "active": active, "text": rng.choice(["apple pie", "fruit", "", "the car of the bike"]),
        "real": real,
    }
    if eps and rng.random() < 0.15:
        # slice budget: a label that occurs only in SOME hits, t2_k in {0, 1, small, > hits}: residual may only come
        # from the first max(0, t2_k) hits
        for e in eps:
            if rng.random() < 0.35:
                e["text"] = (e["text"] + " " + rng.choice(["zebra", "Zebra", "ZEBRA crossing"])).strip()
        if not graphs:
            graphs.append(["g0", []])
            case["active"] = ["g0"]
        graphs[0][1] = [n for n in graphs[0][1] if n[0] != "n7"] + [["n7", rng.choice(["zebra", "Zebra"])]]
        case["graphs"] = graphs
        if graphs[0][0] not in case["active"]:
            case["active"] = [graphs[0][0]] + list(case["active"])
        case["t2k"] = rng.choice([0, 1, 1, 2, 3, 100])
        case["cap"] = rng.choice([1, 2, 32, 32])
        case["theta"] = f2b(-1.0)
    return case


# --------------------------------------------------------------------------
# oracles
# --------------------------------------------------------------------------

def _vec32(v):
    import numpy as np
    return np.asarray(v, dtype=np.float32)


def scripted_score(case: dict, raw: bytes) -> float:
    pal = case["palette"]
    h = hashlib.sha1(str(case["salt"]).encode() + raw).digest()
    return b2f(pal[int.from_bytes(h[:4], "big") % len(pal)])


def _ep_dict(e: dict) -> dict:
    """The episode dict stored in the real index."""
    import numpy as np
    d: Dict[str, Any] = {"id": e["id"], "text": e["text"], "tags": []}
    if "owner" in e:
        d["owner"] = e["owner"]
    if "ts" in e:
        d["ts"] = e["ts"]
    d["vec_full"] = None if e.get("vec") is None else np.asarray(e["vec"], dtype=np.float32)
    if "aux" in e:
        aux = e["aux"]
        if isinstance(aux, dict):
            aux = dict(aux)
            if "importance" in aux:
                aux["importance"] = b2f(aux["importance"])
        d["aux"] = aux
    return d


def _tok_codes(case: dict, texts: List[str]) -> Dict[str, List[int]]:
    """Oracle: MMR token sets (the real tokenizer), as sorted code lists."""
    from clematis.engine.stages.t2.quality_norm import tokenize
    from clematis.engine.stages.t2.quality_ops import _STOP_EN_BASIC
    stop = _STOP_EN_BASIC if case["q"]["stopwords"] == "en-basic" else None
    vocab: Dict[str, int] = {}
    out = {}
    for t in texts:
        toks = set(tokenize(t, stopset=stop)) if t else set()
        out[t] = toks
    allt = sorted(set().union(*out.values())) if out else []
    vocab = {w: i for i, w in enumerate(allt)}
    return {t: sorted(vocab[w] for w in ts) for t, ts in out.items()}


def build_request(case: dict, cosf, lex: Dict[str, str]) -> dict:
    """Model request (all oracles resolved).  `cosf(bytes_of_float32_vector) -> float`."""
    import numpy as np
    from clematis.memory.index import _stable_cluster_id, _to_quarter
    scope = _scope_code(case["scope"])
    agent = case["agent"]
    owner_q = agent if scope == 1 else "world" if scope == 2 else None
    toks = _tok_codes(case, [e["text"] for e in case["eps"]])
    eps = []
    dicts = [_ep_dict(e) for e in case["eps"]]
    for e, d in zip(case["eps"], dicts):
        aux = d.get("aux") or {}
        has = d["vec_full"] is not None
        tsk = _ts_kind(d.get("ts"))
        if isinstance(tsk, int):
            qs = _to_quarter(d.get("ts", ""))
            quarter = int(qs[:4]) * 4 + int(qs[5])
        else:
            quarter = 0
        eps.append({
            "id": str(d["id"]), **({"owner": d["owner"]} if "owner" in d else {}), "hasVec": has,
            "cos": f2b(cosf(d["vec_full"].tobytes()) if has else 0.0),
            "ts": tsk, "quarter": quarter, "cluster": _stable_cluster_id(d),
            "imp": f2b(float(aux.get("importance", 0.5))), "text": d["text"], "toks": toks[e["text"]],
        })
    # centroid oracle over the owner-filtered memory
    groups: Dict[str, list] = {}
    for d, m in zip(dicts, eps):
        if owner_q is not None and d.get("owner") != owner_q:
            continue
        if d["vec_full"] is not None:
            groups.setdefault(m["cluster"], []).append(d["vec_full"])
    cscore = []
    for cid, vecs in groups.items():
        cen = np.mean(np.stack(vecs, axis=0), axis=0)
        cscore.append([cid, f2b(cosf(np.asarray(cen, dtype=np.float32).tobytes()))])
    h, q, fl = case["hyb"], case["q"], case["faults"]
    active = set(case["active"])
    return {
        "cfg": {"scope": scope, "agent": agent, "k": case["k"], "theta": case["theta"], "days": case["days"],
                "topM": case["topM"], "nowUs": _ts_kind(case["now"]), "quarters": case.get("quarters", []),
                "cscore": cscore, "alpha": case["rank"][0], "beta": case["rank"][1], "gamma": case["rank"][2]},
        "tiers": _tier_codes(case["tiers"]),
        "eps": eps,
        "h": {"enabled": h["enabled"], "useGraph": h["use_graph"], "anchorTopM": h["anchor_top_m"], "hops": h["walk_hops"],
              "thresh": h["edge_threshold"], "lam": h["lambda_graph"], "damping": h["damping"],
              "invdeg": h["degree_norm"] == "invdeg", "maxBonus": h["max_bonus"], "kMax": h["k_max"],
              "edges": case["edges"], "fail": fl["hybrid"]},
        "q": {"enabled": q["enabled"], "modeInterp": q["mode"] == "score_interp", "alphaSem": q["alpha_semantic"],
              "lex": [[k, v] for k, v in lex.items()], "mmrEnabled": q["mmr_enabled"], "mmrLam": q["mmr_lambda"],
              "mmrK": q["mmr_k"], "failFuse": fl["fuse"], "failMmr1": fl["mmr1"], "failMmr2": fl["mmr2"]},
        "t2k": _t2k_norm(case["t2k"]), "cap": case["cap"],
        "graphs": [[[n[0], n[1]] for n in g[1]] for g in _active_graphs(case)],
    }


def _active_graphs(case: dict) -> List[list]:
    by = {g[0]: g for g in case["graphs"]}
    return [by[a] for a in case["active"] if a in by]


def _tier_codes(tiers: List[str]) -> List[int]:
    unknown: List[str] = []
    out = []
    for t in tiers:
        if t in TIER_CODE:
            out.append(TIER_CODE[t])
        else:
            if t not in unknown:
                unknown.append(t)
            out.append(3 + unknown.index(t))
    return out


# --------------------------------------------------------------------------
# the real code
# --------------------------------------------------------------------------

class _Boom(Exception):
    pass


@contextlib.contextmanager
def patched(pairs: List[Tuple[Any, str, Any]]):
    saved = []
    try:
        for obj, name, val in pairs:
            saved.append((obj, name, getattr(obj, name)))
            setattr(obj, name, val)
        yield
    finally:
        for obj, name, old in reversed(saved):
            setattr(obj, name, old)


def make_cfg(case: dict) -> dict:
    h, q = case["hyb"], case["q"]
    t2 = {
        "backend": "inmemory", "k_retrieval": case["k"], "sim_threshold": b2f(case["theta"]),
        "tiers": list(case["tiers"]), "exact_recent_days": case["days"], "clusters_top_m": case["topM"],
        "owner_scope": case["scope"], "residual_cap_per_turn": case["cap"],
        "ranking": {"alpha_sim": b2f(case["rank"][0]), "beta_recency": b2f(case["rank"][1]),
                    "gamma_importance": b2f(case["rank"][2])},
        "cache": {"enabled": False},
        "hybrid": {"enabled": h["enabled"], "use_graph": h["use_graph"], "anchor_top_m": h["anchor_top_m"],
                   "walk_hops": h["walk_hops"], "edge_threshold": b2f(h["edge_threshold"]),
                   "lambda_graph": b2f(h["lambda_graph"]), "damping": b2f(h["damping"]),
                   "degree_norm": h["degree_norm"], "max_bonus": b2f(h["max_bonus"]), "k_max": h["k_max"]},
        "quality": {"enabled": q["enabled"], "shadow": False,
                    "lexical": {"bm25_k1": 1.2, "bm25_b": 0.75, "stopwords": q["stopwords"]},
                    "fusion": {"mode": q["mode"], "alpha_semantic": b2f(q["alpha_semantic"])},
                    "mmr": {"enabled": q["mmr_enabled"], "lambda": b2f(q["mmr_lambda"]), "k": q["mmr_k"]}},
    }
    perf: Dict[str, Any] = {"enabled": False}
    if case.get("par"):
        # parallel T2 gate: perf.parallel.enabled + perf.parallel.t2 + max_workers > 1 (+ more than one shard)
        perf["parallel"] = {"enabled": True, "t2": True, "max_workers": int(case["par"]["workers"])}
    return {"t2": t2, "perf": perf, "k_surface": 8}


def _refs(lst) -> List[dict]:
    return [{"id": str(getattr(r, "id", None)), "owner": str(getattr(r, "owner", "")),
             "score": f2b(float(getattr(r, "score", 0.0))), "text": str(getattr(r, "text", ""))} for r in lst]


def build_live(case: dict) -> dict:
    """Fresh index + graph store + state dict holding the case's contents."""
    from clematis.memory.index import InMemoryIndex
    from clematis.graph.store import InMemoryGraphStore, Node
    idx = InMemoryIndex()
    for e in case["eps"]:
        idx.add(_ep_dict(e))
    store = InMemoryGraphStore()
    for gid, nodes in case["graphs"]:
        store.ensure(gid)
        store.upsert_nodes(gid, [Node(id=n[0], label=n[1]) for n in nodes])
    state = {"mem_index": idx, "store": store, "active_graphs": list(case["active"]),
             "graph": {"nodes": {}, "edges": {}}}
    return {"idx": idx, "store": store, "state": state}


def run_real(case: dict, live: Optional[dict] = None) -> Tuple[dict, dict]:
    """Run the real stage; returns (observed output, model request).  `live` = a state kept across
    calls (history stream); default: a fresh one."""
    import numpy as np
    import clematis.memory.index as mindex
    import clematis.engine.stages.t2.core as core
    import clematis.engine.stages.t2.quality as quality
    import clematis.engine.stages.t2.quality_ops as qops
    from clematis.memory.index import InMemoryIndex
    from clematis.graph.store import InMemoryGraphStore, Node
    from clematis.engine.types import T1Result

    real = bool(case.get("real"))
    rec: Dict[str, Any] = {"pre": None, "post": None, "hin": None, "hout": None, "lex": {}, "mmr_calls": 0,
                           "par": False, "shards": 0}
    cos_seen: Dict[bytes, float] = {}
    orig_cos = mindex._cosine

    def cosf_real_factory(qv):
        def f(raw: bytes) -> float:
            return float(orig_cos(qv, np.frombuffer(raw, dtype=np.float32)))
        return f

    def cos_scripted(a, b):
        return scripted_score(case, np.asarray(b, dtype=np.float32).tobytes())

    orig_aq = core._apply_quality

    def aq_rec(ctx, state, retrieved, q_text, cfg_root, cfg_t2):
        rec["pre"] = _refs(retrieved)
        out = orig_aq(ctx, state, retrieved, q_text, cfg_root, cfg_t2)
        rec["post"] = _refs(out[0])
        return out

    orig_h = quality.rerank_with_gel

    def h_rec(ctx, state, items):
        if case["faults"]["hybrid"]:
            raise _Boom("injected")
        rec["hin"] = [str(getattr(r, "id", None)) for r in items]
        out = orig_h(ctx, state, items)
        rec["hout"] = [str(getattr(r, "id", None)) for r in out[0]]
        return out

    orig_fuse = qops.fuse

    def fuse_f(query, items, *, cfg):
        if case["faults"]["fuse"]:
            raise _Boom("injected")
        return orig_fuse(query, items, cfg=cfg)

    orig_mmr = qops.maybe_apply_mmr

    def mmr_f(fused, qcfg):
        rec["mmr_calls"] += 1
        if rec["mmr_calls"] == 1 and case["faults"]["mmr1"]:
            raise _Boom("injected")
        if rec["mmr_calls"] == 2 and case["faults"]["mmr2"]:
            raise _Boom("injected")
        return orig_mmr(fused, qcfg)

    orig_merge = getattr(core, "_merge_tier_hits_across_shards", None)

    def merge_rec(shard_hits, tiers, k):
        sh = list(shard_hits)
        rec["par"] = True
        rec["shards"] = len(sh)
        return orig_merge(sh, tiers, k)

    orig_bm25 = qops._bm25_scores

    def bm25_scripted(query, items, k1, b, stopset, qcfg):
        sc = {it["id"]: b2f(case["lex"].get(it["id"], f2b(0.0))) for it in items}
        return sc, {}, {it["id"]: 0 for it in items}

    def bm25_rec(query, items, k1, b, stopset, qcfg):
        out = orig_bm25(query, items, k1=k1, b=b, stopset=stopset, qcfg=qcfg)
        rec["lex"] = {str(k): f2b(float(v)) for k, v in out[0].items()}
        return out

    if live is None:
        live = build_live(case)
    state = live["state"]
    state["active_graphs"] = list(case["active"])
    state["graph"] = {"nodes": {}, "edges": {f"{a}→{b}": {"weight": b2f(w)} for a, b, w in case["edges"]}}
    Ctx_ = type("Ctx", (), {})
    c = Ctx_()
    c.cfg = make_cfg(case)
    c.now = case["now"]
    c.agent_id = case["agent"]
    if case["t2k"] is not None:
        c.slice_budgets = {"t2_k": case["t2k"]}
    t1 = T1Result(graph_deltas=[], metrics={})
    pairs = [(core, "_apply_quality", aq_rec), (quality, "rerank_with_gel", h_rec),
             (qops, "fuse", fuse_f), (qops, "maybe_apply_mmr", mmr_f)]
    if orig_merge is not None:
        pairs.append((core, "_merge_tier_hits_across_shards", merge_rec))
    if real:
        pairs.append((qops, "_bm25_scores", bm25_rec))
    else:
        pairs += [(mindex, "_cosine", cos_scripted), (qops, "_bm25_scores", bm25_scripted)]
    with patched(pairs):
        res = core.t2_semantic(c, state, case["text"], t1)
    m = res.metrics
    names = list(m.get("tier_sequence") or [])
    out = {
        "hits": _refs(res.retrieved),
        "pre": rec["pre"],
        "hin": rec["hin"], "hout": rec["hout"],
        "tierSeq": _tier_codes([str(t) for t in names]),
        "kUsed": int(m.get("k_used", -1)), "kReturned": int(m.get("k_returned", -1)),
        "kResidual": int(m.get("k_residual", -1)),
        "residual": [str(d.get("id")) for d in res.graph_deltas_residual],
        "residualOps": sorted({str(d.get("op")) for d in res.graph_deltas_residual}),
        "hybridUsed": bool(m.get("hybrid_used", False)),
        "combMax": f2b(float((m.get("score_stats") or {}).get("max", 0.0))),
        "par": rec["par"], "shards": rec["shards"],
    }
    if real:
        from clematis.adapters.embeddings import BGEAdapter
        qv = BGEAdapter(dim=8).encode([(case["text"] or "").strip()])[0]
        req = build_request(case, cosf_real_factory(qv), rec["lex"])
    else:
        req = build_request(case, lambda raw: scripted_score(case, raw), case["lex"])
    return out, req


class T2Comp(Component):
    name = "t2"
    budget = {"quick": 1500, "thorough": 40000, "search": 12000}
    real = False

    def __init__(self):
        self._req: Dict[int, dict] = {}

    def gen(self, rng: random.Random, i: int) -> dict:
        return gen_case(rng, i, real=self.real)

    def impl(self, case: dict) -> Any:
        try:
            out, req = run_real(case)
        except Exception as e:  # the stage is total on these inputs: a raise is a finding, not an infra problem
            return {"raised": f"{type(e).__name__}: {str(e)[:160]}"}
        self._req[id(case)] = req
        return out

    def _request(self, case: dict) -> dict:
        r = self._req.get(id(case))
        if r is None:
            try:
                _, r = run_real(case)
            except Exception:
                r = build_request(case, lambda raw: scripted_score(case, raw), case.get("lex", {}))
            self._req[id(case)] = r
        return r

    def request(self, case: dict) -> dict:
        r = {"c": "t2"}
        r.update(self._request(case))
        return r

    def compare(self, case, impl_out, model_out):
        if isinstance(impl_out, dict) and "hits" in impl_out and isinstance(model_out, dict) and "hits" in model_out:
            pc = model_out.get("preComb") or []
            cm = max((b2f(x) for x in pc), default=0.0)
            a = {"hits": impl_out["hits"], "pre": [h["id"] for h in (impl_out["pre"] or [])],
                 "tierSeq": impl_out["tierSeq"], "kUsed": impl_out["kUsed"], "residual": impl_out["residual"],
                 "hybridUsed": impl_out["hybridUsed"], "combMax": impl_out["combMax"]}
            b = {"hits": model_out["hits"], "pre": model_out["pre"], "tierSeq": model_out["tierSeq"],
                 "kUsed": model_out["kUsed"], "residual": model_out["residual"],
                 "hybridUsed": model_out["hybridUsed"], "combMax": f2b(cm)}
            return super().compare(case, a, b)
        return super().compare(case, impl_out, model_out)

    def monitor_requests(self, case, impl_out) -> List[Tuple[str, dict]]:
        if "raised" in impl_out:
            return []
        cj = self._request(case)
        out = {"hits": impl_out["hits"], "pre": impl_out["pre"] or [], "hin": impl_out["hin"] or [],
               "hout": impl_out["hout"] or [], "kUsed": max(0, impl_out["kUsed"]), "residual": impl_out["residual"]}
        which = ["count", "scope", "threshold", "tier", "complete", "used", "residual", "residual_complete"]
        if impl_out["pre"] is not None:
            which += ["order", "perm"]
        if impl_out["hin"] is not None and impl_out["hout"] is not None:
            which.append("hybrid")
        return [(w, {"c": "t2.mon", "which": w, "case": cj, "out": out}) for w in which]

    def monitors(self, case, impl_out):
        res = []
        if "raised" in impl_out:
            return [("stage_total", False, "t2_semantic raised " + impl_out["raised"])]
        res.append(("metrics_consistent",
                    impl_out["kReturned"] == len(impl_out["hits"]) and impl_out["kResidual"] == len(impl_out["residual"])
                    and impl_out["residualOps"] in ([], ["upsert_node"]),
                    f"k_returned={impl_out['kReturned']} hits={len(impl_out['hits'])} k_residual={impl_out['kResidual']} ops={impl_out['residualOps']}"))
        if impl_out["pre"] is None:
            # recorder seam gone: fall back on the observable set law
            pass
        return res

    def tags(self, case, impl_out):
        if "raised" in impl_out:
            return ["raised"]
        t = set()
        hits = impl_out["hits"]
        n = len(case["eps"])
        if hits:
            t.add("hits")
        if len(hits) == case["k"]:
            t.add("k_reached")
        if _scope_code(case["scope"]) == 1 and case["agent"] is not None and any(e.get("owner") not in (case["agent"],) for e in case["eps"]):
            t.add("scope_agent_filters")
        if _scope_code(case["scope"]) == 1 and case["agent"] is None:
            t.add("scope_agent_none")
        if _scope_code(case["scope"]) == 2:
            t.add("scope_world")
        if any(h["score"] == case["theta"] for h in hits):
            t.add("theta_eq_score")
        if len(set(h["score"] for h in hits)) < len(hits):
            t.add("equal_scores")
        if len(set(e["id"] for e in case["eps"])) < n:
            t.add("dup_ids")
        if impl_out["pre"] is not None and [h["id"] for h in impl_out["pre"]] != [h["id"] for h in hits]:
            t.add("rerank_reordered")
        if impl_out["hybridUsed"]:
            t.add("hybrid_used")
        if case["q"]["enabled"]:
            t.add("quality_on")
            if case["q"]["mmr_enabled"]:
                t.add("mmr_on")
        if any(case["faults"].values()):
            t.add("layer_fault")
        if impl_out["residual"]:
            t.add("residual")
            if len(impl_out["residual"]) >= max(case["cap"], 0):
                t.add("residual_cap_reached")
        if case["t2k"] is not None and impl_out["kUsed"] < len(hits):
            t.add("slice_clamped")
            ku = max(0, impl_out["kUsed"])
            labels = [n[1].lower() for g in _active_graphs(case) for n in g[1] if n[1]]
            beyond = any(lb in h["text"].lower() for lb in labels for h in hits[ku:])
            within = any(lb in h["text"].lower() for lb in labels for h in hits[:ku])
            if beyond and not within:
                t.add("label_only_beyond_t2k")
        if len(impl_out["tierSeq"]) < len(case["tiers"]):
            t.add("early_stop")
        if len(case["tiers"]) > 1 and hits:
            t.add("multi_tier")
        if case.get("real"):
            t.add("real_embeddings")
        return sorted(t) or ["default"]

    def shrink(self, case):
        eps = case["eps"]
        for i in range(len(eps)):
            yield dict(case, eps=eps[:i] + eps[i + 1:])
        for i in range(len(case["edges"])):
            yield dict(case, edges=case["edges"][:i] + case["edges"][i + 1:])
        if len(case["tiers"]) > 1:
            for i in range(len(case["tiers"])):
                yield dict(case, tiers=case["tiers"][:i] + case["tiers"][i + 1:])


class T2RealComp(T2Comp):
    """Same pipeline with the REAL embeddings / cosine / BM25 (their values become the oracle inputs)."""
    name = "t2real"
    real = True
    budget = {"quick": 300, "thorough": 6000, "search": 2000}

    def gen(self, rng, i):
        c = gen_case(rng, i, real=True)
        # real vectors: hash embeddings of the texts, with some duplicates / zero vectors kept
        from clematis.adapters.embeddings import BGEAdapter
        enc = BGEAdapter(dim=8)
        for e in c["eps"]:
            if e.get("vec") is not None and rng.random() < 0.8:
                e["vec"] = [float(x) for x in enc.encode([e["text"] or e["id"]])[0]]
            elif e.get("vec") is not None:
                e["vec"] = list(e["vec"]) + [0.0] * (8 - len(e["vec"]))
        return c


class T2ParComp(T2Comp):
    """The REAL `t2_semantic` with the parallel T2 gate open (>= 2 shards, 2-8 workers): the result of the
    sharded fan-out + cross-shard merge must satisfy the same spec-level Lean monitors (at most k hits, distinct
    ids, scope, threshold, recency window / archive rule, final order, rerank = permutation, used = take t2_k,
    residual soundness / cap).  MONITORS ONLY: the exact model is the sequential walk, and the parallel path differs
    from it in two recorded ways (C09:t2:cluster-tier-per-shard, C09:t2:qscore-tie-at-k-cut), so exact outputs are
    not compared and the global top-m cluster rule is waived (`monTierPar`)."""
    name = "t2par"
    budget = {"quick": 700, "thorough": 15000, "search": 6000}
    deciding = False

    def gen(self, rng: random.Random, i: int) -> dict:
        c = gen_case(rng, i)
        c["par"] = {"workers": rng.choice([2, 2, 3, 4, 8])}
        if rng.random() < 0.55:
            # an earlier tier that yields j < k hits, a later tier with more fresh hits than the remaining room
            now = _parse_now(c["now"])
            k = rng.choice([2, 3, 3, 4, 5])
            j = rng.randrange(1, k)
            n_old = (k - j) + rng.choice([1, 2, 3, 5])
            owner = c["agent"] if _scope_code(c["scope"]) == 1 and c["agent"] else \
                "world" if _scope_code(c["scope"]) == 2 else rng.choice(["A", "B"])
            ids = ["r%d" % x for x in range(j)] + ["o%d" % x for x in range(n_old)]
            eps = []
            for x, eid in enumerate(ids):
                off = rng.choice([0, 1, 5, 29]) if x < j else rng.choice([31, 60, 100, 364, 400])
                e = {"id": eid, "owner": owner if rng.random() < 0.85 else rng.choice(["A", "B", "C", "world"]),
                     "text": " ".join(rng.choice(VOCAB) for _ in range(rng.choice([1, 2, 3]))),
                     "ts": (now - dt.timedelta(days=off)).isoformat().replace("+00:00", "Z"),
                     "vec": rng.choice([[1.0, 0.0, 0.0], [0.0, 1.0, 0.0], [1.0, 1.0, 0.0], [2.0, 0.0, 1.0], [1.0, 2.0, 3.0]]),
                     "aux": {"importance": f2b(rng.choice([0.5, 0.0, 1.0])), "cluster_id": rng.choice(["c1", "c2", "c3"])}}
                eps.append(e)
            rng.shuffle(eps)
            c.update({"eps": eps, "k": k, "days": 30, "theta": f2b(-1.0),
                      "tiers": rng.choice([["exact_semantic", "archive"], ["exact_semantic", "archive"],
                                           ["exact_semantic", "cluster_semantic", "archive"],
                                           ["exact_semantic", "cluster_semantic"]]),
                      "lex": {e["id"]: f2b(rng.choice([0.0, 1.0, 2.5])) for e in eps},
                      "edges": [ed for ed in c["edges"] if False]})
        return c

    def compare(self, case, impl_out, model_out):
        return None   # monitors only: the exact model is the sequential walk

    def monitor_requests(self, case, impl_out) -> List[Tuple[str, dict]]:
        if "raised" in impl_out:
            return []
        cj = self._request(case)
        out = {"hits": impl_out["hits"], "pre": impl_out["pre"] or [], "hin": impl_out["hin"] or [],
               "hout": impl_out["hout"] or [], "kUsed": max(0, impl_out["kUsed"]), "residual": impl_out["residual"]}
        which = ["count", "scope", "threshold", "tier_par", "used", "residual", "residual_complete"]
        if "cluster_semantic" not in case["tiers"]:
            which.append("complete")
        if impl_out["pre"] is not None:
            which += ["order", "perm"]
        if impl_out["hin"] is not None and impl_out["hout"] is not None:
            which.append("hybrid")
        return [(w, {"c": "t2.mon", "which": w, "case": cj, "out": out}) for w in which]

    def tags(self, case, impl_out):
        t = super().tags(case, impl_out)
        if "raised" in impl_out:
            return t
        t = [x for x in t if x != "default"]
        if impl_out.get("par"):
            t.append("parallel_path")
            t.append("shards:%d" % min(impl_out.get("shards", 0), 8))
        else:
            t.append("sequential_fallback")
        return sorted(t)


def apply_edit(case: dict, ed: list) -> dict:
    """Pure: the case contents after one edit of the history."""
    c = copy.deepcopy(case)
    op = ed[0]
    if op in ("relabel", "add_node"):
        _, gid, nid, label = ed
        for g in c["graphs"]:
            if g[0] == gid:
                g[1] = [n for n in g[1] if n[0] != nid] + [[nid, label]]
    elif op == "swap":
        _, gid, a, b = ed
        for g in c["graphs"]:
            if g[0] == gid:
                lab = {n[0]: n[1] for n in g[1]}
                if a in lab and b in lab:
                    for n in g[1]:
                        if n[0] == a:
                            n[1] = lab[b]
                        elif n[0] == b:
                            n[1] = lab[a]
    elif op == "remove_node":
        _, gid, nid = ed
        for g in c["graphs"]:
            if g[0] == gid:
                g[1] = [n for n in g[1] if n[0] != nid]
    elif op == "add_ep":
        c["eps"] = c["eps"] + [ed[1]]
        c["lex"][ed[1]["id"]] = f2b(0.0)
    elif op == "t2k":
        c["t2k"] = ed[1]
    elif op == "who":
        # the next call is made for another agent / owner scope on the SAME index and store
        c["scope"], c["agent"] = ed[1], ed[2]
    return c


def apply_live(live: dict, case_after: dict, ed: list) -> None:
    """The same edit on the LIVE store / index, through the store's own API."""
    from clematis.graph.store import Node
    store, idx = live["store"], live["idx"]
    op = ed[0]
    if op in ("relabel", "add_node", "swap"):
        gid = ed[1]
        ids = [ed[2]] if op != "swap" else [ed[2], ed[3]]
        lab = {n[0]: n[1] for g in case_after["graphs"] if g[0] == gid for n in g[1]}
        nodes = [Node(id=i, label=lab[i]) for i in ids if i in lab]
        if nodes:
            store.upsert_nodes(gid, nodes)
    elif op == "remove_node":
        g = store.get_graph(ed[1])
        if ed[2] in g.nodes:
            del g.nodes[ed[2]]
            if hasattr(store, "_bump_etag"):
                store._bump_etag(g)
    elif op == "add_ep":
        idx.add(_ep_dict(ed[1]))


class T2HistComp(Component):
    """HISTORY stream: 2-4 real `t2_semantic` calls on ONE store / index in one process with edits in between
    (relabel a node keeping its id, swap two labels, add / remove a node, add an episode, change the slice budget),
    caches off.  Every call is compared with the model on the CURRENT contents, with the Lean monitors, and with
    the same call on a freshly built store / index (`history_independent`)."""
    name = "t2hist"
    budget = {"quick": 350, "thorough": 8000, "search": 4000}

    def __init__(self):
        self._t2 = T2Comp()
        self._req: Dict[int, List[dict]] = {}

    def gen(self, rng: random.Random, i: int) -> dict:
        base = gen_case(rng, i)
        base["theta"] = rng.choice([f2b(-1.0), f2b(-1.0), base["theta"]])
        if not base["graphs"]:
            base["graphs"] = [["g0", []]]
            base["active"] = ["g0"]
        gid = base["graphs"][0][0]
        if gid not in base["active"]:
            base["active"] = [gid] + list(base["active"])
        words = ["apple", "banana", "fruit", "car", "bike", "pie", "zebra"]
        have = {n[0] for n in base["graphs"][0][1]}
        for nid in ["n:1", "n:2", "n:3"]:
            if nid not in have:
                base["graphs"][0][1].append([nid, rng.choice(words + ["Apple", "qqq"])])
        if rng.random() < 0.4:
            # owners sharing cluster ids, cluster tier first, few clusters chosen
            for e in base["eps"]:
                e["owner"] = rng.choice(["A", "B"])
                e["aux"] = dict(e.get("aux") or {}, cluster_id=rng.choice(["c1", "c2"]))
            base["tiers"] = rng.choice([["cluster_semantic"], ["cluster_semantic", "exact_semantic"]])
            base["topM"] = 1
            base["scope"], base["agent"] = "agent", rng.choice(["A", "B"])
        steps = []
        nids = [n[0] for n in base["graphs"][0][1]]
        for _ in range(rng.choice([1, 1, 2, 3])):
            eds = []
            for _ in range(rng.choice([1, 1, 2])):
                r = rng.random()
                if r < 0.4:
                    eds.append(["relabel", gid, rng.choice(nids), rng.choice(words + ["Apple", "qqq", "PIE", ""])])
                elif r < 0.6 and len(nids) >= 2:
                    a, b = rng.sample(nids, 2)
                    eds.append(["swap", gid, a, b])
                elif r < 0.7:
                    nid = rng.choice(["n:8", "n:9", "n0"])
                    eds.append(["add_node", gid, nid, rng.choice(words)])
                    nids = nids + [nid] if nid not in nids else nids
                elif r < 0.8 and len(nids) > 1:
                    nid = rng.choice(nids)
                    eds.append(["remove_node", gid, nid])
                    nids = [x for x in nids if x != nid]
                elif r < 0.93:
                    now = _parse_now(base["now"])
                    e = gen_eps(rng, 1, now, base["days"])[0]
                    e["id"] = "h%d" % rng.randrange(4)
                    e["text"] = " ".join(rng.choice(words) for _ in range(rng.choice([1, 2, 3])))
                    if e.get("vec") is None:
                        e["vec"] = [1.0, 0.0, 0.0]
                    eds.append(["add_ep", e])
                else:
                    eds.append(["t2k", rng.choice([None, 0, 1, 2, 100])])
            if rng.random() < 0.35:
                eds.append(["who", rng.choice(["agent", "agent", "any", "world"]), rng.choice(["A", "B", "C", "world"])])
            steps.append(eds)
        return {"base": base, "steps": steps}

    def _contents(self, case: dict) -> List[Tuple[dict, List[list]]]:
        cur = copy.deepcopy(case["base"])
        seq = [(cur, [])]
        for eds in case["steps"]:
            applied = []
            for ed in eds:
                cur = apply_edit(cur, ed)
                applied.append((ed, cur))
            seq.append((cur, applied))
        return seq

    def impl(self, case: dict) -> Any:
        try:
            seq = self._contents(case)
            live = build_live(seq[0][0])
            calls, fresh, reqs = [], [], []
            for cur, applied in seq:
                for ed, after in applied:
                    apply_live(live, after, ed)
                out, req = run_real(cur, live)
                fo, _ = run_real(cur)
                calls.append(out)
                fresh.append(fo)
                reqs.append(req)
        except Exception as e:
            return {"raised": f"{type(e).__name__}: {str(e)[:160]}"}
        self._req[id(case)] = reqs
        return {"calls": calls, "fresh": fresh}

    def _requests(self, case: dict) -> List[dict]:
        r = self._req.get(id(case))
        if r is None:
            r = []
            for cur, _ in self._contents(case):
                try:
                    _, q = run_real(cur)
                except Exception:
                    q = build_request(cur, lambda raw, c=cur: scripted_score(c, raw), cur.get("lex", {}))
                r.append(q)
            self._req[id(case)] = r
        return r

    def request(self, case: dict) -> dict:
        return {"c": "t2.hist", "calls": [dict(q, c="t2") for q in self._requests(case)]}

    def compare(self, case, impl_out, model_out):
        if not (isinstance(impl_out, dict) and "calls" in impl_out and isinstance(model_out, list)):
            return super().compare(case, impl_out, model_out)
        if len(impl_out["calls"]) != len(model_out):
            return f"calls: impl={len(impl_out['calls'])} model={len(model_out)}"
        for i, ((cur, _), io, mo) in enumerate(zip(self._contents(case), impl_out["calls"], model_out)):
            d = self._t2.compare(cur, io, mo)
            if d is not None:
                return f"call[{i}]{d}"
        return None

    def monitor_requests(self, case, impl_out):
        if "raised" in impl_out:
            return []
        rq = []
        for (cur, _), q, io in zip(self._contents(case), self._requests(case), impl_out["calls"]):
            self._t2._req[id(cur)] = q
            rq += self._t2.monitor_requests(cur, io)
        return rq

    @staticmethod
    def _obs(o: dict) -> dict:
        return {k: o[k] for k in ("hits", "tierSeq", "kUsed", "residual", "hybridUsed", "combMax")}

    def monitors(self, case, impl_out):
        if "raised" in impl_out:
            return [("stage_total", False, "t2_semantic raised " + impl_out["raised"])]
        res = []
        for i, (a, b) in enumerate(zip(impl_out["calls"], impl_out["fresh"])):
            ok = self._obs(a) == self._obs(b)
            res.append(("history_independent", ok,
                        f"call {i} on the long-lived store: residual={a['residual']} hits={[h['id'] for h in a['hits']]}; "
                        f"same contents, fresh store: residual={b['residual']} hits={[h['id'] for h in b['hits']]}"))
            res += self._t2.monitors(case["base"], a)
        return res

    def tags(self, case, impl_out):
        if "raised" in impl_out:
            return ["raised"]
        t = {"calls:%d" % len(impl_out["calls"])}
        for eds in case["steps"]:
            for ed in eds:
                t.add("edit:" + ed[0])
        rs = [tuple(o["residual"]) for o in impl_out["calls"]]
        if len(set(rs)) > 1:
            t.add("residual_changes_between_calls")
        hs = [tuple(h["id"] for h in o["hits"]) for o in impl_out["calls"]]
        if len(set(hs)) > 1:
            t.add("hits_change_between_calls")
        return sorted(t)

    def shrink(self, case):
        for i in range(len(case["steps"])):
            yield dict(case, steps=case["steps"][:i] + case["steps"][i + 1:])


class T2IdxComp(Component):
    """`InMemoryIndex._search_with_episodes` alone (one tier, explicit hints incl. archive quarters)."""
    name = "t2idx"
    budget = {"quick": 600, "thorough": 15000, "search": 6000}

    def gen(self, rng: random.Random, i: int) -> dict:
        c = gen_case(rng, i)
        tier = rng.choice(["exact_semantic", "cluster_semantic", "archive", "archive", "foo"])
        quarters = rng.choice([None, [], ["2025Q3"], ["2025Q3", "2024Q3"], ["2024Q4", "2025Q2", "2025Q3"], ["1999Q1"]])
        if quarters:
            now = _parse_now(c["now"])
            for e in c["eps"]:
                if not isinstance(_ts_kind(e.get("ts")), int):
                    e["ts"] = (now - dt.timedelta(days=rng.choice([0, 1, 62, 63, 100, 300, 366]))).isoformat().replace("+00:00", "Z")
        owner = rng.choice([None, None, "A", "A", "B", "world", "Z"])
        keep = ("eps", "salt", "palette", "theta", "days", "topM", "now", "q")
        out = {k: c[k] for k in keep}
        out.update({"tier": tier, "quarters_hint": quarters, "owner": owner,
                    "k": rng.choice([0, 1, 1, 2, 3, 5, 64]),
                    "omit": rng.sample(["recent_days", "sim_threshold", "clusters_top_m"], rng.choice([0, 0, 1]))})
        return out

    def _as_t2case(self, case: dict) -> dict:
        q = case["quarters_hint"] or []
        c = dict(case)
        c.update({"scope": "any" if case["owner"] is None else "agent", "agent": case["owner"],
                  "quarters": [int(x[:4]) * 4 + int(x[5]) for x in q],
                  "rank": [f2b(1.0), f2b(0.0), f2b(0.0)], "tiers": [case["tier"]],
                  "hyb": {"enabled": False, "use_graph": False, "anchor_top_m": 1, "walk_hops": 1, "edge_threshold": f2b(0.0),
                          "lambda_graph": f2b(0.0), "damping": f2b(0.0), "degree_norm": "none", "max_bonus": f2b(0.0), "k_max": 1},
                  "edges": [], "lex": {}, "faults": {"hybrid": False, "fuse": False, "mmr1": False, "mmr2": False},
                  "t2k": None, "cap": 0, "graphs": [], "active": []})
        if "recent_days" in case["omit"]:
            c["days"] = 30
        if "sim_threshold" in case["omit"]:
            c["theta"] = f2b(0.0)
        if "clusters_top_m" in case["omit"]:
            c["topM"] = 3
        return c

    def impl(self, case: dict) -> Any:
        import numpy as np
        import clematis.memory.index as mindex
        idx = mindex.InMemoryIndex()
        for e in case["eps"]:
            idx.add(_ep_dict(e))
        hints: Dict[str, Any] = {"recent_days": case["days"], "sim_threshold": b2f(case["theta"]),
                                 "clusters_top_m": case["topM"], "now": case["now"]}
        for k in case["omit"]:
            hints.pop(k, None)
        if case["quarters_hint"] is not None:
            hints["archive_quarters"] = list(case["quarters_hint"])

        def cos_scripted(a, b):
            return scripted_score(case, np.asarray(b, dtype=np.float32).tobytes())
        with patched([(mindex, "_cosine", cos_scripted)]):
            res = idx._search_with_episodes(idx._eps, case["owner"], np.zeros(3, dtype=np.float32), case["k"],
                                            case["tier"], hints)
        return _refs(res)

    def _mreq(self, case: dict) -> dict:
        c = self._as_t2case(case)
        r = build_request(c, lambda raw: scripted_score(case, raw), {})
        return {"cfg": r["cfg"], "eps": r["eps"], "tier": r["tiers"][0]}

    def request(self, case: dict) -> dict:
        r = {"c": "t2.search"}
        r.update(self._mreq(case))
        return r

    def monitor_requests(self, case, impl_out):
        r = {"c": "t2.searchmon", "hits": impl_out}
        r.update(self._mreq(case))
        return [("search", r)]

    def tags(self, case, impl_out):
        t = {"tier:" + case["tier"]}
        if impl_out:
            t.add("hits")
        if len(impl_out) == case["k"]:
            t.add("k_reached")
        if case["quarters_hint"]:
            t.add("quarters")
        if len(set(h["score"] for h in impl_out)) < len(impl_out):
            t.add("equal_scores")
        if any(h["score"] == (f2b(0.0) if "sim_threshold" in case["omit"] else case["theta"]) for h in impl_out):
            t.add("theta_eq_score")
        return sorted(t)

    def shrink(self, case):
        eps = case["eps"]
        for i in range(len(eps)):
            yield dict(case, eps=eps[:i] + eps[i + 1:])


COMPONENTS = [T2Comp(), T2RealComp(), T2IdxComp(), T2ParComp(), T2HistComp()]


SEAMS = [("clematis.memory.index", "_cosine"), ("clematis.engine.stages.t2.quality_ops", "_bm25_scores"),
         ("clematis.engine.stages.t2.core", "_apply_quality"), ("clematis.engine.stages.t2.quality", "rerank_with_gel"),
         ("clematis.engine.stages.t2.quality_ops", "fuse"), ("clematis.engine.stages.t2.quality_ops", "maybe_apply_mmr"),
         ("clematis.engine.stages.t2.core", "t2_semantic")]


def _check_seams() -> None:
    """The oracle / recorder seams must exist; if the code was reorganised the harness cannot drive
    it — that is an infrastructure problem (exit 2), never a VIOLATION."""
    import importlib
    from harness.core import Infra
    for mod, name in SEAMS:
        try:
            m = importlib.import_module(mod)
        except Exception as e:
            raise Infra(f"C11 seam module {mod} not importable: {type(e).__name__}: {e}")
        if not hasattr(m, name):
            raise Infra(f"C11 seam {mod}.{name} is gone; the harness must be re-pointed")


def run(ctx: Ctx) -> None:
    _check_seams()
    for comp in COMPONENTS:
        run_component(ctx, comp, monitors_only=isinstance(comp, T2ParComp))


def _decanon(x: Any) -> Any:
    """Replay files store floats as {"f": bits} (core._canon); turn them back into floats."""
    if isinstance(x, dict):
        if set(x.keys()) == {"f"} and isinstance(x["f"], str):
            return b2f(x["f"])
        return {k: _decanon(v) for k, v in x.items()}
    if isinstance(x, list):
        return [_decanon(v) for v in x]
    return x


def replay(ctx: Ctx, rec: dict) -> int:
    from harness.core import generic_replay
    return generic_replay(ctx, _decanon(rec), {c.name: c for c in COMPONENTS})
