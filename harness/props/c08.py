"""C08 — durable files are replaced all-or-nothing: correspondence + monitors.

The real `clematis.io.atomic` (and its callers in `engine/snapshot.py`, `io/log.py`) is run in a
scratch directory under the syscall-level fault injector `harness/lib/faults.py`; the Lean model
`Clem.Atomic.awb` is run on the same (directory, data, fault script); status, final directory
(names + contents), the trace of primitive I/O steps with outcomes, and what a reader could see at
every step boundary are compared exactly; the property predicates (the Lean `Bool`s the theorems are
about) are evaluated by the driver on the implementation's observations.
"""
from __future__ import annotations

import os
import random
import shutil
import tempfile
import threading
from pathlib import Path
from typing import Any, Dict, List, Optional, Tuple

from harness import core
from harness.core import Component, Ctx, run_driver

RULE = ("for each scenario (old content absent/present/equal/empty, new content empty/short/long/binary, sibling files, "
        "missing parent) EVERY primitive I/O step index x outcome (crash, EIO, ENOSPC, EACCES, EBUSY, EPERM, short write) is run "
        "against the real function and the model (adaptive enumeration over the trace the implementation produces), then fault "
        "pairs, transient-replace runs of length 1..81, seeded random scripts, real child-process kills at each step and a "
        "concurrent-reader stress; a case is non-trivial when at least one step did not succeed; distinct by canonical JSON")
ASSUMPTIONS = [
    "POSIX rename(2)/os.replace is atomic with respect to concurrent readers and to process death (modelled as one step)",
    "durability after power loss (what fsync guarantees) is outside the model; crash = process death with an intact kernel/page cache",
    "tempfile.NamedTemporaryFile returns a fresh name `prefix + r`, r from tempfile's alphabet (no '.') of length 8 (table `tempChars`, `tempLen`), and closing the empty temp handle does not fail",
    "Windows sharing violations: the code path (PermissionError retry) is modelled, the OS is not",
    "file modes are not modelled (chmod steps appear in the trace only)",
]
CLAIM = {
    "text": ("Unbounded Lean theorems over ALL fault scripts (any length, any number of I/O errors, transient failures, short writes, a crash at "
             "any step boundary) and any positive retry bound, about the executable step-program model of atomic_write_bytes/atomic_replace: "
             "the destination is always the complete old or the complete new content, also at every step boundary a concurrent reader could "
             "observe; it is new iff a replace step succeeded; a normal return implies new content and no temp; a raise implies old content; no "
             "other directory entry is ever touched; a call that raises leaves the directory exactly as it was when its exists/unlink calls "
             "work; after a crash the only possible stray entry is the temp, whose name matches none of the file-name patterns that snapshot "
             "discovery / sidecar lookup / log readers / rotation use (table generated from the sources) and is no rotation generation < 10^7; "
             "transient replace failures fewer than `retries` then success install the new content after exactly k+1 attempts, a "
             "non-retryable failure stops retrying, never more than `retries` attempts; body-then-sidecar writes are each all-or-nothing and a "
             "sidecar failure never breaks the body. Callers reach the FS only through the helper (generated call table, `decide`, plus an "
             "audit-hook monitor at run time). Tied to the code by exhaustive step x outcome differential execution under a syscall injector."),
    "note": ("The PINNED tree violates the property: a short raw write (ENOSPC / RLIMIT_FSIZE / >2GiB) is not detected and a truncated file is "
             "installed with a normal return (real-OS reproduction: RLIMIT_FSIZE). proposed_fixes/C08_short_write.diff repairs it (519 tests pass); "
             "the theorems are about the repaired loop (`awb true`); the defect of the pinned code is the machine-checked witness "
             "`C08_unrepaired_short_write_violates` about `awb false`. The harness detects which variant the tree contains and runs the matching "
             "model, so on the pinned tree the correspondence still agrees and only the property monitors fail (keys in proposed_findings/C08.json). "
             "Only by correspondence / assumption (no theorem): atomicity of rename, fsync durability, tempfile name freshness and alphabet, file "
             "modes, the concurrent-reader stress, child-process kills, `write_snapshot`'s payload construction, zstd bodies. In-process crash = "
             "BaseException at the step; FS mutations attempted by `finally` blocks after it are refused (real death: forked child + os._exit)."),
    "technique": "Lean 4 proofs over a step-program interpreted against arbitrary fault scripts + syscall-level fault-injection correspondence",
    "design_ref": "DESIGN.md §4 C08",
}
DRIVER_MODULES = ['HAtomic']
TABLES = ['atomic_callers']
MODELLED = {
    "clematis/io/atomic.py": ["_fsync_best_effort", "atomic_replace", "_make_tmp", "atomic_write_bytes",
                              "atomic_write_text", "atomic_write_json"],
    "clematis/engine/snapshot.py": ["_write_sidecar_meta", "_write_lines", "_pick_latest_snapshot_path",
                                    "_find_snapshot_file"],
    "clematis/io/log.py": ["rewrite_jsonl"],
}
TRUSTED = ["assumed, not verified: atomicity of rename(2); tempfile name freshness/alphabet; the fault injector intercepts every "
           "FS-affecting call of clematis.io.atomic (checked by comparing directory contents after every run)"]

_SCRATCH: Optional[Path] = None
RETRIES = 80


def write_loop_present() -> bool:
    """Does `atomic_write_bytes` check the result of the raw write (repaired tree), or is it the pinned tree's
    single unchecked `f.write(data)`?  Selects the model variant (`awb true` / `awb false`); the theorems are about
    `awb true`, the defect of `awb false` is `C08_unrepaired_short_write_violates`."""
    import ast
    try:
        tree = ast.parse((core.REPO / "clematis/io/atomic.py").read_text())
        for fn in ast.walk(tree):
            if isinstance(fn, ast.FunctionDef) and fn.name == "atomic_write_bytes":
                for w in ast.walk(fn):
                    if isinstance(w, ast.While) and any(isinstance(c, ast.Call) and isinstance(c.func, ast.Attribute)
                                                        and c.func.attr == "write" for c in ast.walk(w)):
                        return True
        return False
    except Exception:
        return True


def _scratch() -> Path:
    global _SCRATCH
    if _SCRATCH is None:
        _SCRATCH = Path(tempfile.mkdtemp(prefix="clemverif_C08x_"))
    return _SCRATCH


def _b(s: Optional[str]) -> Optional[bytes]:
    return None if s is None else s.encode("latin-1")


# ---------------------------------------------------------------------------------------------
# scenarios
# ---------------------------------------------------------------------------------------------
BIN = "".join(chr(c) for c in [0, 255, 10, 13, 34, 92, 127, 128]) * 5
SCENARIOS: List[dict] = [
    {"name": "snap_000001.json", "old": '{"v":"OLD"}', "data": '{"v":"NEW-CONTENT"}', "others": [], "mkparent": False},
    {"name": "snap_000002.json", "old": None, "data": '{"v":"N"}', "others": [["snap_000001.json", "{}"]], "mkparent": False},
    {"name": "t1.jsonl", "old": "a\nb\n", "data": "", "others": [["t1.jsonl.1", "z\n"], ["t2.jsonl", "q\n"]], "mkparent": False},
    {"name": "snapshot-abc.full.json.zst", "old": None, "data": BIN, "others": [], "mkparent": True},
    {"name": "state_a.json.meta", "old": "", "data": "M", "others": [["state_a.json", "{}"], ["state_a.json.meta.aaaaaaaa", "junk"]],
     "mkparent": False},
    {"name": "x.json", "old": "SAME", "data": "SAME", "others": [], "mkparent": False},
]
ERRS = ["err:5", "err:28", "err:13"]


def mk_case(scen: dict, script: List[str], mode: str = "inject") -> dict:
    c = {k: scen[k] for k in ("name", "old", "data", "others", "mkparent")}
    c["script"] = list(script)
    c["mode"] = mode
    return c


# ---------------------------------------------------------------------------------------------
# atomic_write_bytes under injection
# ---------------------------------------------------------------------------------------------
class AwbComp(Component):
    name = "atomic.awb"
    budget = {"quick": 300, "thorough": 20000, "search": 30000}

    def __init__(self):
        self._r: Dict[int, str] = {}

    # -- generation (random scripts; the exhaustive enumeration is in `run`) -------------------
    def gen(self, rng: random.Random, i: int) -> dict:
        scen = dict(rng.choice(SCENARIOS))
        if rng.random() < 0.4:
            scen["data"] = rng.choice(["", "x", "0123456789", BIN, "line1\nline2\n" * 20])
        if rng.random() < 0.3:
            scen["old"] = rng.choice([None, "", "old", scen["data"]])
        n = len(scen["data"])
        script: List[str] = []
        L = rng.choice([4, 8, 12, 16, 24])
        pfault = rng.choice([0.05, 0.15, 0.4])
        for _ in range(L):
            r = rng.random()
            if r >= pfault:
                script.append("ok")
            else:
                script.append(rng.choice(["crash", "err:5", "err:28", "err:13", "err:16", "err:1", "err:2", "err:17",
                                          f"short:{rng.choice([0, 1, 2, max(n - 1, 0), n, n + 3])}"]))
        if rng.random() < 0.35:
            # a transient run placed where the replace usually happens
            k = rng.choice([1, 2, 5, 78, 79, 80, 81])
            pos = rng.choice([9, 10]) if n else rng.choice([8, 9])
            script = (script + ["ok"] * pos)[:pos] if rng.random() < 0.7 else ["ok"] * pos
            script = script + [rng.choice(["err:13", "err:16", "err:1"]) for _ in range(k)] + \
                [rng.choice(["ok", "ok", "err:5", "crash", "err:13"])] + [rng.choice(["ok", "err:5", "crash"]) for _ in range(3)]
        return mk_case(scen, script)

    # -- the real code ----------------------------------------------------------------------
    def _setup(self, case: dict) -> Tuple[Path, Path]:
        root = Path(tempfile.mkdtemp(prefix="awb_", dir=str(_scratch())))
        d = root / "sub" if case.get("mkparent") else root
        if not case.get("mkparent"):
            for n, c in case["others"]:
                (d / n).write_bytes(_b(c))
            if case["old"] is not None:
                (d / case["name"]).write_bytes(_b(case["old"]))
        return root, d

    def _before(self, case: dict) -> Dict[str, str]:
        if case.get("mkparent"):
            return {}
        fs = {n: c for n, c in case["others"]}
        if case["old"] is not None:
            fs[case["name"]] = case["old"]
        return fs

    def impl(self, case: dict) -> Any:
        from clematis.io.atomic import atomic_write_bytes
        from harness.lib import faults
        root, d = self._setup(case)
        dest = d / case["name"]
        data = _b(case["data"])
        try:
            if case.get("mode") == "kill":
                out = self._impl_kill(case, d, dest, data)
            else:
                out = faults.run_injected(lambda: atomic_write_bytes(dest, data), d, [dest], case["script"])
                out["hist"] = [[h[0][0], h[1]] for h in out["hist"]]
            # the real snapshot picker on the resulting directory
            try:
                from clematis.engine.snapshot import _pick_latest_snapshot_path
                pick = _pick_latest_snapshot_path(str(d))
                out["pick"] = None if pick is None else os.path.basename(pick)
            except Exception as e:  # pragma: no cover
                out["pick"] = f"!{type(e).__name__}"
        finally:
            shutil.rmtree(root, ignore_errors=True)
        pref = case["name"] + "."
        r = "XXXXXXXX"
        for t in out.get("tmps", []):
            if t.startswith(pref):
                r = t[len(pref):]
        if not out.get("tmps"):
            # kill mode / no temp created: recover the suffix from a leftover entry
            extra = [n for n in out["fs"] if n not in self._before(case) and n != case["name"] and n.startswith(pref)]
            if extra:
                r = extra[0][len(pref):]
        self._r[id(case)] = r
        out["r"] = r
        return out

    def _impl_kill(self, case, d, dest, data) -> dict:
        """Real process death: a forked child runs the write and `os._exit`s right before the k-th I/O call."""
        from clematis.io.atomic import atomic_write_bytes
        from harness.lib import faults
        kill_at = len(case["script"]) - 1

        def on_step(_name, idx):
            if idx == kill_at:
                os._exit(17)
        pid = os.fork()
        if pid == 0:
            try:
                faults.run_injected(lambda: atomic_write_bytes(dest, data), d, [dest], [], record_hist=False, on_step=on_step)
            finally:
                os._exit(0)
        _, st = os.waitpid(pid, 0)
        code = os.waitstatus_to_exitcode(st)
        status = "crashed" if code == 17 else "returned" if code == 0 else f"child-exit-{code}"
        return {"status": status, "trace": None, "hist": None, "fs": faults.listing(d), "tmps": [], "post_crash": []}

    # -- the model ---------------------------------------------------------------------------
    def request(self, case: dict) -> dict:
        r = self._r.get(id(case), case.get("_r", "XXXXXXXX"))
        fs = sorted(self._before(case).items())
        return {"c": "atomic.awb", "loop": write_loop_present(), "retries": RETRIES, "dest": case["name"], "r": r, "data": case["data"],
                "fs": [[n, c] for n, c in fs], "script": case["script"]}

    def canon_model(self, case, out):
        if not isinstance(out, dict) or "status" not in out:
            return out
        return {"status": out["status"], "fs": sorted([list(e) for e in out["fs"]]),
                "trace": out["trace"], "hist": [[h[0], sorted(h[1])] for h in out["hist"]]}

    def compare(self, case, impl_out, model_out):
        if isinstance(impl_out, dict) and "status" in impl_out:
            # the content of a leftover temp is not an observable of the property (buffering may differ): names only
            keep = set(self._before(case)) | {case["name"]}
            io = {"status": impl_out["status"],
                  "fs": sorted([[n, c if n in keep else "*"] for n, c in impl_out["fs"].items()]),
                  "trace": impl_out["trace"], "hist": impl_out["hist"]}
            mo = self.canon_model(case, model_out)
            if isinstance(mo, dict) and "fs" in mo:
                mo["fs"] = sorted([[n, c if n in keep else "*"] for n, c in mo["fs"]])
            if impl_out["trace"] is None and isinstance(mo, dict):  # child-process kill: only the directory is observable
                io.pop("trace"), io.pop("hist")
                mo = {k: v for k, v in mo.items() if k in ("status", "fs")}
            a, b = core._canon(io), core._canon(mo)
            return None if a == b else core.first_diff(a, b)
        return super().compare(case, impl_out, model_out)

    # -- property monitors, evaluated by Lean on the implementation's observations -------------
    def monitor_requests(self, case, io) -> List[Tuple[str, dict]]:
        name, new = case["name"], case["data"]
        before = self._before(case)
        old = before.get(name)
        cur = io["fs"].get(name)
        rq = [("all_or_nothing", {"c": "atomic.mon", "m": "aon", "old": old, "new": new, "cur": cur}),
              ("returned_means_new", {"c": "atomic.mon", "m": "returned_new", "status": io["status"], "new": new, "cur": cur})]
        leftover = sorted(n for n in io["fs"] if n not in before and n != name)
        if io["trace"] is not None:
            rq.append(("reader_old_or_new", {"c": "atomic.mon", "m": "reader", "old": old, "new": new,
                                             "seen": [h[0] for h in io["hist"]]}))
            rq.append(("no_temp_left", {"c": "atomic.mon", "m": "no_temp", "status": io["status"], "trace": io["trace"],
                                        "before": sorted(before), "dest": name, "after": sorted(io["fs"])}))
            rq.append(("retry_transient", {"c": "atomic.mon", "m": "retry", "retries": RETRIES, "trace": io["trace"]}))
        if leftover:
            rq.append(("leftover_name_harmless", {"c": "atomic.mon", "m": "harmless", "dest": name, "names": leftover}))
        return rq

    def monitors(self, case, io):
        before = self._before(case)
        name = case["name"]
        res = []
        bad = [n for n, c in before.items() if n != name and io["fs"].get(n) != c]
        res.append(("frame_other_files_untouched", not bad, f"changed/removed siblings {bad}"))
        pick = io.get("pick")
        ok = pick is None or pick in before or pick == name
        res.append(("picker_ignores_temp", ok, f"_pick_latest_snapshot_path chose {pick!r}"))
        if io["status"] not in ("returned", "raised", "crashed"):
            res.append(("status_known", False, f"status {io['status']}"))
        return res

    def tags(self, case, io):
        t = set()
        if io.get("trace") is None:
            t.add("childkill:" + io["status"])
            return sorted(t)
        nrep = 0
        for s, o in io["trace"]:
            if o != "ok":
                t.add(f"{o.split(':')[0]}@{s}")
            if s == "replace" and o.startswith("err"):
                nrep += 1
        if nrep:
            t.add("transient>=79" if nrep >= 79 else "transient>=2" if nrep >= 2 else "transient=1")
        if t:
            t.add("end:" + io["status"])
        if any(n not in self._before(case) and n != case["name"] for n in io["fs"]):
            t.add("leftover_tmp")
        return sorted(t) or ["default"]

    def shrink(self, case):
        s = case["script"]
        for i in range(len(s)):
            if s[i] != "ok":
                yield dict(case, script=s[:i] + ["ok"] + s[i + 1:])
        if s:
            yield dict(case, script=s[:-1])


# ---------------------------------------------------------------------------------------------
# concurrent reader stress (supporting evidence for the rename-atomicity assumption)
# ---------------------------------------------------------------------------------------------
class StressComp(Component):
    name = "atomic.stress"
    deciding = False
    budget = {"quick": 1, "thorough": 4, "search": 4}

    def gen(self, rng, i):
        return {"n": 400 if i == 0 else 3000, "size": rng.choice([1, 4096, 70000]), "seed": rng.randrange(1 << 30)}

    def impl(self, case):
        from clematis.io.atomic import atomic_write_bytes
        root = Path(tempfile.mkdtemp(prefix="stress_", dir=str(_scratch())))
        dest = root / "state.json"
        A = b"A" * case["size"] + b"\n"
        B = b"B" * (case["size"] * 2 + 1) + b"\n"
        dest.write_bytes(A)
        bad: List[str] = []
        seen = {"A": 0, "B": 0}
        stop = threading.Event()

        def reader():
            while not stop.is_set():
                try:
                    with open(dest, "rb") as f:
                        b = f.read()
                except FileNotFoundError:
                    bad.append("missing")
                    continue
                if b == A:
                    seen["A"] += 1
                elif b == B:
                    seen["B"] += 1
                else:
                    bad.append(f"partial len={len(b)}")
        th = threading.Thread(target=reader, daemon=True)
        th.start()
        try:
            for i in range(case["n"]):
                atomic_write_bytes(dest, B if i % 2 == 0 else A)
        finally:
            stop.set()
            th.join(timeout=10)
        left = sorted(n for n in os.listdir(root) if n != "state.json")
        shutil.rmtree(root, ignore_errors=True)
        return {"bad": bad[:5], "nbad": len(bad), "reads": seen["A"] + seen["B"], "left": left}

    def request(self, case):
        return {"c": "const", "v": True}

    def compare(self, case, io, mo):
        return None

    def monitors(self, case, io):
        return [("reader_stress_old_or_new", io["nbad"] == 0, f"{io['nbad']} bad reads, e.g. {io['bad']}"),
                ("stress_no_temp_left", not io["left"], f"left {io['left']}")]

    def tags(self, case, io):
        return ["stress"] if io.get("reads") else ["default"]


# ---------------------------------------------------------------------------------------------
# stand-alone atomic_replace (as scripts/rotate_logs.py uses it), with arbitrary `retries`
# ---------------------------------------------------------------------------------------------
class ReplaceComp(Component):
    name = "atomic.replace"
    budget = {"quick": 300, "thorough": 15000, "search": 20000}

    def gen(self, rng: random.Random, i: int) -> dict:
        retries = rng.choice([0, 1, 1, 2, 2, 3, 5, 80])
        L = rng.choice([1, 2, 3, 5, 8, 12])
        script = []
        for j in range(L):
            r = rng.random()
            script.append("ok" if r < (0.9 if j == 0 else 0.35) else
                          rng.choice(["err:13", "err:16", "err:1", "err:13", "err:5", "err:28", "err:2", "crash"]))
        return {"retries": retries, "src": rng.choice(["t1.jsonl", "t1.jsonl.1", "tmp-3.txt"]),
                "dst": rng.choice(["t1.jsonl.2", "state.txt"]), "src_data": rng.choice(["S", "", "src\n"]),
                "src_exists": rng.random() < 0.9, "dst_old": rng.choice([None, "D", "S"]), "script": script}

    def _before(self, case):
        fs = {}
        if case["src_exists"]:
            fs[case["src"]] = case["src_data"]
        if case["dst_old"] is not None:
            fs[case["dst"]] = case["dst_old"]
        return fs

    def impl(self, case):
        from clematis.io.atomic import atomic_replace
        from harness.lib import faults
        root = Path(tempfile.mkdtemp(prefix="rep_", dir=str(_scratch())))
        for n, c in self._before(case).items():
            (root / n).write_bytes(_b(c))
        src, dst = root / case["src"], root / case["dst"]
        try:
            out = faults.run_injected(lambda: atomic_replace(Path(src), Path(dst), retries=case["retries"]), root, [dst],
                                      case["script"], tmp_paths=[str(src)])
        finally:
            shutil.rmtree(root, ignore_errors=True)
        out["hist"] = [[h[0][0], h[1]] for h in out["hist"]]
        return out

    def request(self, case):
        return {"c": "atomic.replace", "retries": case["retries"], "src": case["src"], "dst": case["dst"],
                "fs": [[n, c] for n, c in sorted(self._before(case).items())], "script": case["script"]}

    def compare(self, case, io, mo):
        if not (isinstance(io, dict) and "status" in io and isinstance(mo, dict) and "status" in mo):
            return super().compare(case, io, mo)
        a = {"status": io["status"], "fs": sorted([[n, c] for n, c in io["fs"].items()]), "trace": io["trace"], "hist": io["hist"]}
        b = {"status": mo["status"], "fs": sorted([list(e) for e in mo["fs"]]), "trace": mo["trace"],
             "hist": [[h[0], sorted(h[1])] for h in mo["hist"]]}
        a, b = core._canon(a), core._canon(b)
        return None if a == b else core.first_diff(a, b)

    def monitor_requests(self, case, io):
        before = self._before(case)
        new = case["src_data"]
        rq = [("replace_dst_old_or_src", {"c": "atomic.mon", "m": "reader", "old": before.get(case["dst"]), "new": new,
                                          "seen": [h[0] for h in io["hist"]] + [io["fs"].get(case["dst"])]})]
        if case["retries"] > 0 and case["src_exists"]:
            rq.append(("replace_returned_means_moved", {"c": "atomic.mon", "m": "returned_new", "status": io["status"], "new": new,
                                                        "cur": io["fs"].get(case["dst"])}))
        rq.append(("retry_transient", {"c": "atomic.mon", "m": "retry", "retries": case["retries"], "trace": io["trace"]}))
        return rq

    def tags(self, case, io):
        t = set()
        for s, o in io["trace"]:
            if o != "ok":
                t.add(f"{o.split(':')[0]}@{s}")
        t.add(f"retries={min(case['retries'], 3)}:{io['status']}")
        return sorted(t)

    def shrink(self, case):
        s = case["script"]
        for i in range(len(s)):
            yield dict(case, script=s[:i] + s[i + 1:])


AWB = AwbComp()
STRESS = StressComp()
REPLACE = ReplaceComp()
COMPONENTS = [AWB, STRESS, REPLACE]


# ---------------------------------------------------------------------------------------------
# exhaustive enumeration (adaptive: the step list is the one the implementation produces)
# ---------------------------------------------------------------------------------------------
def _outcomes_for(step: str, case_data_len: int) -> List[str]:
    o = ["crash"] + ERRS
    if step == "replace":
        o += ["err:16", "err:1"]
    if step in ("exists", "stat"):
        o += ["err:2"]
    if step == "write":
        n = case_data_len
        o += [f"short:{k}" for k in sorted({0, 1, max(n - 1, 0), n})]
    return o


def run_cases(ctx: Ctx, comp: Component, cases: List[dict], impl_outs: Optional[List[Any]] = None) -> None:
    """`core.run_component` for an explicit case list (implementation outputs may be precomputed)."""
    if impl_outs is None:
        impl_outs = []
        for c in cases:
            try:
                impl_outs.append(comp.impl(c))
            except Exception as e:
                impl_outs.append({"__raised__": type(e).__name__, "msg": str(e)[:200]})
    resps = run_driver([comp.request(c) for c in cases])
    mon: List[Tuple[int, str, dict]] = []
    for idx, (c, io) in enumerate(zip(cases, impl_outs)):
        if isinstance(io, dict) and "__raised__" in io:
            continue
        for name, rq in comp.monitor_requests(c, io):
            mon.append((idx, name, rq))
    mresp = run_driver([r for _, _, r in mon]) if mon else []
    for (idx, name, rq), rs in zip(mon, mresp):
        if rs.get("ok") is not True:
            ctx.monitor_fail(comp.name, name, cases[idx], f"Lean monitor {rq.get('m')} returned {str(rs)[:200]}", impl_outs[idx])
    for c, io, rs in zip(cases, impl_outs, resps):
        raised = isinstance(io, dict) and "__raised__" in io
        ctx.record_case(comp.name, c, ["raised:" + io["__raised__"]] if raised else comp.tags(c, io))
        mo = {"__model_err__": rs["err"]} if "err" in rs else rs["ok"]
        d = comp.compare(c, io, mo)
        if d is not None:
            ctx.mismatch(comp.name, c, d, io, mo, deciding=comp.deciding)
        if not raised:
            for name, ok, detail in comp.monitors(c, io):
                if not ok:
                    ctx.monitor_fail(comp.name, name, c, detail, io)


def safe_impl(comp: Component, case: dict) -> Any:
    try:
        return comp.impl(case)
    except core.Infra:
        raise
    except Exception as e:  # the code under test broke the adapter: a correspondence break, not an infra error
        return {"__raised__": type(e).__name__, "msg": str(e)[:200]}


def enumerate_faults(comp: AwbComp, scen: dict, depth: int, rng: random.Random, pair_sample: Optional[int]):
    """All single faults (every step index x outcome) of one scenario, then (depth 2) a second fault at
    every later step of each non-crashing single-fault run.  Returns (cases, impl_outs)."""
    base = mk_case(scen, [])
    out0 = safe_impl(comp, base)
    cases, outs = [base], [out0]
    n = len(scen["data"])
    level = [(base, out0)]
    for dpt in range(depth):
        nxt = []
        cand = []
        for c, io in level:
            if io.get("trace") is None or io["status"] == "crashed":
                continue
            s = c["script"]
            for j in range(len(s), len(io["trace"])):
                step = io["trace"][j][0]
                for o in _outcomes_for(step, n):
                    cand.append(mk_case(scen, s + ["ok"] * (j - len(s)) + [o]))
        if dpt >= 1 and pair_sample is not None and len(cand) > pair_sample:
            cand = rng.sample(cand, pair_sample)
        for c in cand:
            io = safe_impl(comp, c)
            cases.append(c)
            outs.append(io)
            nxt.append((c, io))
        level = nxt
    return cases, outs


def retry_cases(comp: AwbComp, scen: dict, quick: bool) -> List[dict]:
    base = safe_impl(comp, mk_case(scen, []))
    reps = [i for i, (s, _) in enumerate(base.get("trace") or []) if s == "replace"]
    if not reps:
        return [mk_case(scen, [])]
    pos = reps[0]
    ks = [1, 2, 79, 80, 81] if quick else [1, 2, 3, 10, 40, 78, 79, 80, 81, 100]
    out = []
    for k in ks:
        for e in (["err:13"], ["err:16"], ["err:1"], ["err:13", "err:16", "err:1"]):
            run = [e[i % len(e)] for i in range(k)]
            for tail in ([], ["err:5"], ["crash"], ["err:28", "ok", "err:5"]):
                out.append(mk_case(scen, ["ok"] * pos + run + tail))
        if quick:
            continue
    return out


def kill_cases(comp: AwbComp, scen: dict) -> List[dict]:
    base = safe_impl(comp, mk_case(scen, []))
    return [mk_case(scen, ["ok"] * i + ["crash"], mode="kill") for i in range(len(base.get("trace") or []) + 1)]


def run(ctx: Ctx) -> None:
    global _SCRATCH
    _SCRATCH = ctx.scratch
    quick = ctx.tier == "quick"
    rng = ctx.rng_for("enum")
    ctx.extra["c08_model_variant"] = ("awb true (repaired write loop)" if write_loop_present()
                                      else "awb false (pinned tree: unchecked single write; theorems C08_* about `awb true` are NOT tied)")
    if not write_loop_present():
        ctx.note("atomic_write_bytes has no checked write loop: running against the `awb false` model variant; "
                 "the short-write defect (C08_unrepaired_short_write_violates) is expected to be reported")
    # corpus first
    corp = ctx.load_corpus(AWB.name)
    if corp:
        run_cases(ctx, AWB, corp)
    # 1. exhaustive single faults on every scenario; pairs: sampled (quick) / exhaustive on 3 scenarios (thorough)
    for si, scen in enumerate(SCENARIOS):
        if quick:
            depth, sample = (2, 500) if si in (0, 3) else (2, 120)
        else:
            depth, sample = (2, None)
        cases, outs = enumerate_faults(AWB, scen, depth, rng, sample)
        run_cases(ctx, AWB, cases, outs)
    if not quick:
        # sampled fault triples (third fault after a sampled pair)
        cases, outs = enumerate_faults(AWB, SCENARIOS[0], 3, rng, 1500)
        run_cases(ctx, AWB, cases[1:], outs[1:])
    # 2. transient-replace runs around the retry bound
    for scen in (SCENARIOS[0], SCENARIOS[1]) if quick else SCENARIOS[:4]:
        run_cases(ctx, AWB, retry_cases(AWB, scen, quick))
    # 3. real process death at every step boundary
    for scen in (SCENARIOS[0],) if quick else SCENARIOS[:5]:
        run_cases(ctx, AWB, kill_cases(AWB, scen))
    # 4. seeded random scripts
    core.run_component(ctx, AWB)
    # 5. concurrent reader stress; stand-alone atomic_replace with arbitrary retry bounds
    core.run_component(ctx, STRESS)
    core.run_component(ctx, REPLACE)
    # 6. callers
    try:
        from harness.lib import c08_callers
    except ImportError:
        c08_callers = None
    if c08_callers is not None:
        c08_callers.run(ctx, run_cases)
    # 7. text/JSON wrappers with documents whose serialisation fails at the start / middle / end
    from harness.lib import c08_wrappers
    c08_wrappers.run(ctx, run_cases)


def replay(ctx: Ctx, rec: dict) -> int:
    global _SCRATCH
    _SCRATCH = ctx.scratch
    from harness.core import generic_replay
    comps = {c.name: c for c in COMPONENTS}
    try:
        from harness.lib import c08_callers
        comps.update({c.name: c for c in c08_callers.COMPONENTS})
        from harness.lib import c08_wrappers
        comps.update({c.name: c for c in c08_wrappers.COMPONENTS})
    except ImportError:
        pass
    return generic_replay(ctx, rec, comps)
